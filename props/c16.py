"""C16 - the memory estimate never plans more on a GPU than it has free.

Tie (P): tiny GGUF models (uneven / missing layers, optional output / token_embd / output_norm, llama / unknown-arch /
gemma3-vision, 0-2 projector files) are written by the harness with the real ggml.WriteGGUF, decoded with the real
ggml.Decode, and the real llm.EstimateGPULayers / llm.PredictServerFit / discover.GpuInfoList.ByLibrary are run on
generated GPU lists (1-8 GPUs, free memory placed at and around every threshold of the estimator).  The quantities the
Coq model (Mem/Model.v) takes as inputs (layer sizes, per-layer KV sizes, graph sizes, ...) are read from the same
decoded file through the public API, so what is compared is the estimator's own placement logic.  Every case is
evaluated by the model inside coqc (vm_compute) and compared field by field.
Monitor: the five clauses of the property evaluated on the real MemoryEstimate / PredictServerFit answer.
"""
import json
from lib import vlib
from lib.vlib import cq_bytes, cq_list, cq_bool, cq_N, cq_Z

SCHED_BUILD = {"name": "c16sched", "test_pkg": "./server", "overlays": ["server/c16_test.go", "llm/c16.go"]}
SETUP_BUILDS = [{"name": "c16"}, SCHED_BUILD]
COQ_TARGETS = ["Mem/Properties_C16.v", "Mem/Corr.v"]   # these pull in Mem/Model, Proofs, Sched, SchedProofs
HEADER = ("From Coq Require Import List NArith ZArith Bool.\nFrom V Require Import Common.Bytes Mem.Model Mem.Sched Mem.Corr.\n"
          "Import ListNotations.\nOpen Scope N_scope.\n")
W64 = 1 << 64
LIBS = ["cuda", "rocm", "metal", "oneapi", "cpu"]


# ------------------------------------------------------------------ model files

def tensor(name, n, kind=0):
    return {"name": name, "kind": kind, "shape": [str(x) for x in n]}


def gen_model(rng, klass=None):
    """one GGUF spec.  Sizes are small (bytes..MiB) so that thresholds are easy to hit exactly."""
    arch = rng.choice(["llama", "llama", "llama", "foo", "gemma3", "qwen2"])
    bc = rng.choice([0, 1, 1, 2, 3, 3, 4, 5, 6, 8, 12])
    heads = rng.choice([1, 2, 4, 8])
    hkv = rng.choice([h for h in (1, 2, 4, 8) if h <= heads])
    emb = heads * rng.choice([1, 2, 4, 16])
    kvu = {"block_count": bc, "embedding_length": emb, "attention.head_count": heads, "attention.head_count_kv": hkv}
    if rng.random() < 0.15:
        kvu["attention.key_length"] = rng.choice([1, 3, 8])
        kvu["attention.value_length"] = rng.choice([1, 2, 8])
    ts = []
    profile = rng.choice(["uniform", "uneven", "uneven", "growing", "holes", "no-blk0", "spiky"])
    base = rng.choice([1, 7, 64, 1000, 50000])
    for i in range(bc):
        if profile == "holes" and rng.random() < 0.35:
            continue
        if profile == "no-blk0" and i == 0:
            continue
        if profile == "uniform":
            n = base
        elif profile == "growing":
            n = base * (i + 1)
        elif profile == "spiky":
            n = base * (rng.choice([1, 1, 1, 40]))
        else:
            n = rng.randint(1, 3 * base)
        ts.append(tensor("blk.%d.attn_q.weight" % i, [n], rng.choice([0, 0, 1])))
        if rng.random() < 0.5:
            ts.append(tensor("blk.%d.ffn_up.weight" % i, [rng.randint(1, base), rng.choice([1, 2, 32])], rng.choice([0, 1, 8])))
    outk = rng.choice(["output", "output", "tok", "both", "none", "norm-only"])
    osz = rng.choice([1, base, 5 * base, 100 * base])
    if outk in ("output", "both"):
        ts.append(tensor("output.weight", [osz]))
    if outk in ("tok", "both"):
        ts.append(tensor("token_embd.weight", [rng.choice([osz, 2 * osz + 1])]))
    if outk == "norm-only" or (outk != "none" and rng.random() < 0.6):
        ts.append(tensor("output_norm.weight", [rng.choice([1, emb])]))
    if arch == "gemma3":
        kvu["attention.sliding_window"] = rng.choice([0, 16, 512])
        if rng.random() < 0.7:
            kvu.update({"vision.block_count": rng.choice([0, 1, 2]), "vision.image_size": rng.choice([8, 14, 28]),
                        "vision.patch_size": rng.choice([0, 1, 2, 7]), "vision.num_channels": 3,
                        "vision.attention.head_count": 2, "vision.embedding_length": 8})
            ts.append(tensor("v.blk.0.attn_q.weight", [rng.randint(1, 4 * base)]))
            ts.append(tensor("v.patch_embedding.weight", [rng.randint(1, base)]))
    if arch == "llama" and rng.random() < 0.1 and bc > 0 and profile not in ("no-blk0",):
        ts.append(tensor("blk.0.ffn_gate.0.weight", [rng.randint(1, 64), rng.randint(1, 64)]))
    rng.shuffle(ts)
    return {"arch": arch, "kv_u32": {k: str(v) for k, v in kvu.items()}, "vocab": rng.choice([1, 2, 32, 1000]), "tensors": ts,
            "_profile": profile + "/" + outk + "/" + arch}


def gen_projector(rng):
    r = rng.random()
    if r < 0.2:
        return {"missing": True}
    if r < 0.75:
        return {"arch": "clip", "kv_u32": {}, "tensors": [tensor("v.blk.%d.w" % i, [rng.randint(1, 5000)]) for i in range(rng.randint(0, 3))]
                + [tensor("mm.0.weight", [rng.randint(1, 300)])]}
    kvu = {"vision.image_size": rng.choice([8, 16]), "vision.patch_size": rng.choice([1, 2, 4]), "vision.max_num_tiles": rng.choice([1, 4]),
           "vision.embedding_length": 8, "vision.attention.head_count": 2, "vision.num_channels": 3}
    ts = [tensor("v.patch_embd.weight", [rng.randint(1, 2000)])]
    if rng.random() < 0.5:
        ts.append(tensor("v.class_embd", [8]))
    return {"arch": "mllama", "kv_u32": {k: str(v) for k, v in kvu.items()}, "tensors": ts}


def gen_config(rng):
    m = gen_model(rng)
    bc = int(m["kv_u32"]["block_count"])
    projs = []
    if rng.random() < 0.25:
        projs = [gen_projector(rng) for _ in range(rng.choice([1, 1, 2]))]
    r = rng.random()
    if r < 0.45:
        ng = -1
    elif r < 0.9:
        ng = rng.choice([0, 1, max(0, bc - 1), bc, bc + 1, bc + 2, rng.randint(0, bc + 2)])
    else:
        ng = rng.choice([999, 2 ** 31 - 1, -2, -(2 ** 31)])
    return {"model": {k: v for k, v in m.items() if not k.startswith("_")}, "profile": m["_profile"], "projectors": projs,
            "num_gpu": ng, "num_ctx": rng.choice([4, 64, 512, 2048, 4096, 8192]), "num_batch": rng.choice([1, 8, 512]),
            "num_parallel": rng.choice([1, 1, 2, 4])}


# ------------------------------------------------------------------ quantities derived from the probe (only to *aim* the GPU
# sizes at the estimator's thresholds; they are not an oracle)

def I(x):
    return int(x)


def derived(inp, ngpus, lib):
    mm = len(inp["proj"]) > 0
    kvs = [I(b[2] if mm else b[1]) for b in inp["blocks"]]
    blk = [None if b[0] is None else I(b[0]) for b in inp["blocks"]]
    l0 = (I(inp["blk0"]) if inp["blk0"] is not None else 0) + (kvs[0] if kvs else 0)
    ls, cur = [], l0
    for b, k in zip(blk, kvs):
        if b is not None:
            cur = b + k
        ls.append(cur)
    gp, gf = [I(x) for x in (inp["graph_mm"] if mm else inp["graph"])]
    if gp == 0:
        gp = (I(inp["gqa"]) * sum(kvs) % W64) // 6
    if gf == 0:
        gf = gp
    if lib == "metal":
        gp = gf
    elif ngpus > 1:
        gf = gp
    pw = sum(I(p[0]) for p in inp["proj"])
    pg = sum(I(p[1]) for p in inp["proj"])
    if pw == 0 and pg == 0:
        pw, pg = [I(x) for x in inp["vision"]]
    out = (I(inp["out_norm"]) if inp["out_norm"] is not None else 0)
    out += I(inp["out"]) if inp["out"] is not None else (I(inp["tok"]) if inp["tok"] is not None else 0)
    return {"l0": l0, "layers": ls, "maxG": max(gp, gf), "gp": gp, "gf": gf, "gzo": pw + pg, "out": out}


def demand_bound(case, inp):
    """an upper bound on every intermediate value the estimator can form for this case, in exact arithmetic;
    below 2^64 no uint64 operation of the estimator can wrap (classification of a case, not an oracle)"""
    n = max(1, len(case["gpus"]))
    d = derived(inp, n, case["gpus"][0]["lib"] if case["gpus"] else "")
    maxL = max([d["l0"]] + d["layers"])
    maxmin = max([I(g["min"]) for g in case["gpus"]] + [0])
    bc = len(d["layers"])
    kvsum = sum(I(b[1]) + I(b[2]) for b in inp["blocks"])
    return (I(case["overhead"]) + d["gzo"] + n * (maxmin + maxL + d["maxG"]) + d["maxG"] + 2 * maxL + sum(d["layers"]) + 2 * d["out"]
            + bc * maxL + kvsum + I(inp["gqa"]) * kvsum + sum(I(p[0]) + I(p[1]) for p in inp["proj"]))


def gen_gpus(rng, inp, cfg, overhead, n, lib, wrap=False):
    d = derived(inp, n, lib)
    ls, l0, maxG, out = d["layers"], d["l0"], d["maxG"], d["out"]
    total = sum(ls) + out
    gpus = []
    first = True
    remaining = list(ls)
    for gi in range(n):
        mn = rng.choice([0, 0, 1, rng.randint(0, 1000), l0, rng.randint(0, 2 * (total + 1))])
        gz = d["gzo"] if first else 0
        tadm = overhead + gz + maxG + mn + 2 * l0
        strat = rng.choice(["tiny", "edge", "k", "k", "k", "k", "all", "huge", "random", "kout", "terms", "terms"])
        dlt = rng.choice([-1, 0, 0, 1, 1, 2, rng.randint(-5, 50)])
        # "terms": the same thresholds with one or two terms of the estimator's sums left out / doubled, so that a check
        # that forgets (or double counts) a term admits / places where the real one does not
        terms = [overhead, d["gzo"], maxG, mn, l0, l0]
        drop = [t for t in terms if rng.random() < 0.75] + ([rng.choice(terms)] if rng.random() < 0.2 else [])
        if strat == "tiny":
            free = rng.randint(0, max(0, tadm - 1)) if rng.random() < 0.7 else tadm - 1
        elif strat == "edge":
            free = tadm + dlt
        elif strat in ("k", "kout"):
            k = rng.randint(0, len(ls))
            if rng.random() < 0.5:
                sub = ls[:k]
            elif rng.random() < 0.5:      # a round-robin share: every n-th layer starting at gi
                sub = ls[gi::max(1, n)][:k]
            else:
                sub = rng.sample(ls, k)
            free = tadm - l0 + sum(sub) + (out if strat == "kout" else 0) + dlt
        elif strat == "terms":
            k = rng.choice([0, 0, 1, rng.randint(0, len(ls))])
            free = sum(drop) + sum(ls[:k]) + rng.choice([0, 0, out]) + dlt
        elif strat == "all":
            free = tadm - l0 + total + dlt
        elif strat == "huge":
            free = (tadm + total) * rng.choice([2, 10, 1000]) + 12345
        else:
            free = int(2 ** (rng.random() * 40))
        free = max(0, free)
        if free >= tadm:
            first = False
        gpus.append({"lib": lib, "variant": "", "free": str(free), "min": str(mn)})
    if wrap:
        g = rng.choice(gpus)
        w = rng.choice(["min", "free", "minfree", "both-max"])
        if w == "min":
            g["min"] = str(W64 - rng.randint(1, max(2, 3 * (l0 + maxG + overhead + 2))))
        elif w == "free":
            g["free"] = str(W64 - rng.randint(1, 1000))
        elif w == "minfree":
            g["min"] = str(W64 - rng.randint(1, 4 * (l0 + 1)))
            g["free"] = str(rng.randint(0, 4 * (total + maxG + 1)))
        else:
            g["min"] = str(W64 - 1)
            g["free"] = str(W64 - 1)
    return gpus


def gen_overhead(rng, inp, cfg):
    d = derived(inp, 1, "cuda")
    return rng.choice([0, 0, 0, 1, rng.randint(1, 1000), d["l0"] + 1, d["maxG"] + 7, sum(d["layers"]) + d["out"] + 3, rng.randint(0, 1 << 30)])


def mk_cases(rng, cfg, inp, quick, k_est, k_fit):
    cases = []
    common = {k: cfg[k] for k in ("model", "projectors", "num_gpu", "num_ctx", "num_batch", "num_parallel")}
    for _ in range(k_est):
        ovh = gen_overhead(rng, inp, cfg)
        n = rng.choice([1, 1, 1, 2, 2, 2, 3, 3, 4, 5, 6, 7, 8])
        lib = rng.choice(["cuda", "cuda", "cuda", "rocm", "metal", "oneapi", "cpu"])
        wrap = rng.random() < 0.04
        c = dict(common, op="estimate", overhead=str(ovh if not (wrap and rng.random() < 0.3) else W64 - rng.randint(1, 5000)),
                 gpus=gen_gpus(rng, inp, cfg, ovh, n, lib, wrap), klass="estimate/%s/%s" % ("1gpu" if n == 1 else "multi", "wrap" if wrap else lib))
        cases.append(c)
    for _ in range(k_fit):
        ovh = gen_overhead(rng, inp, cfg)
        ngroups = rng.choice([1, 1, 2, 2, 3])
        gl = []
        keys = rng.sample([("cuda", ""), ("cuda", "v11"), ("cuda", "v12"), ("rocm", ""), ("rocm", "v6"), ("oneapi", ""), ("metal", ""), ("cpu", ""),
                           ("cuda_v11", ""), ("cpu", "avx2")], ngroups)
        for lib, var in keys:
            n = rng.choice([1, 1, 2, 3, 4])
            for g in gen_gpus(rng, inp, cfg, ovh, n, lib):
                g["variant"] = var
                gl.append(g)
        if rng.random() < 0.5:
            rng.shuffle(gl)
        gl = gl[:8]
        cases.append(dict(common, op="fit", overhead=str(ovh), gpus=gl, klass="fit/%dgroups" % ngroups))
    return cases


def gen_exh_config(rng, bc):
    """a small model for the exhaustive small-scope enumeration: bc uneven blocks, output + norm, no projector"""
    while True:
        cfg = gen_config(rng)
        if int(cfg["model"]["kv_u32"]["block_count"]) == bc and not cfg["projectors"] and cfg["model"]["arch"] == "llama" \
                and cfg["profile"].split("/")[0] in ("uneven", "growing") and cfg["profile"].split("/")[1] in ("output", "both", "tok"):
            cfg["exh"] = True
            return cfg


def exhaustive_cases(cfg, inp, ngpus, overheads):
    """every combination of per-GPU free memory from the grid of all thresholds of this model (admission, each k-layer
    fill level, with and without the output layer, each +0/+1, one below admission, zero, plenty) x every num_gpu"""
    common = {k: cfg[k] for k in ("model", "projectors", "num_ctx", "num_batch", "num_parallel")}
    bc = int(inp["bc"])
    out = []
    import itertools
    for ovh in overheads:
        d = derived(inp, ngpus, "cuda")
        mn = 3
        base = ovh + d["gzo"] + d["maxG"] + mn + 2 * d["l0"]
        grid = {0, base - 1, base, base + 1, 10 * (base + sum(d["layers"]) + d["out"])}
        for k in range(bc + 1):
            for dl in (0, 1):
                grid.add(base - d["l0"] + sum(d["layers"][:k]) + dl)
                grid.add(base - d["l0"] + sum(d["layers"][:k]) + d["out"] + dl)
        grid = sorted(x for x in grid if x >= 0)
        for frees in itertools.product(grid, repeat=ngpus):
            for ng in [-1] + list(range(0, bc + 3)):
                out.append(dict(common, op="estimate", num_gpu=ng, overhead=str(ovh),
                                gpus=[{"lib": "cuda", "variant": "", "free": str(f), "min": str(mn)} for f in frees],
                                klass="exhaustive/%dgpu" % ngpus))
    return out


def gen_seq_cases(rng, per_cfg, n):
    """several calls in ONE harness process on the same decoded model: the same model + GPU list + options evaluated 2-4 times
    with nothing changed, with only the environment changed (OLLAMA_GPU_OVERHEAD, OLLAMA_FLASH_ATTENTION, OLLAMA_KV_CACHE_TYPE),
    with one argument changed, as estimate and as fit, and interleaved with calls for other models.  Every call is monitored
    against its own overhead / free memory and compared with the model on its own."""
    out = []
    pools = [[strip(c) for c in p if c["op"] in ("estimate", "fit") and c["gpus"]] for p in per_cfg]
    pools = [p for p in pools if p]
    if not pools:
        return out
    for _ in range(n):
        pool = rng.choice(pools)
        b = dict(rng.choice(pool))
        if I(b["overhead"]) >= 1 << 62:
            b["overhead"] = "0"
        frees = [I(g["free"]) for g in b["gpus"]]
        steps, kinds = [b], ["base"]
        for _ in range(rng.randint(1, 3)):
            kind = rng.choice(["same", "ovh", "ovh", "ovh", "ovh", "env", "env+ovh", "other", "free", "numgpu", "op"])
            d = dict(b)
            if kind in ("ovh", "env+ovh"):
                old = I(b["overhead"])
                d["overhead"] = str(rng.choice([0 if old else 1 + max(frees) // 4, old + 1, old + min(frees) // 2 + 1, old + max(frees) // 3 + 1,
                                                max(frees), old + rng.randint(1, 1 + max(frees))]))
            if kind in ("env", "env+ovh"):
                d["flash"] = rng.random() < 0.8
                d["kvtype"] = rng.choice(["q8_0", "q4_0", "f16", "", "bogus"])
            if kind == "other":
                d = dict(rng.choice(rng.choice(pools)))
            if kind == "free":
                d["gpus"] = [dict(g) for g in b["gpus"]]
                g = rng.choice(d["gpus"])
                g["free"] = str(max(0, I(g["free"]) // rng.choice([2, 3]) + rng.choice([-1, 0, 1])))
            if kind == "numgpu":
                d["num_gpu"] = rng.choice([-1, 0, 1, 2, bc_of(b), bc_of(b) + 1])
            if kind == "op":
                d["op"] = "fit" if b["op"] == "estimate" else "estimate"
            steps.append(d)
            kinds.append(kind)
            if rng.random() < 0.35:       # ... and back to the first call
                steps.append(dict(b))
                kinds.append("back")
        out.append({"op": "seq", "steps": steps, "kinds": kinds, "klass": "seq"})
    return out


def flatten(cases, obs):
    """-> list of (case, observation, (sequence case, step index) or None)"""
    flat = []
    for c, o in zip(cases, obs):
        if c["op"] == "seq":
            kinds = c.get("kinds") or []
            for k, (sc, so) in enumerate(zip(c["steps"], o.get("steps") or [])):
                flat.append((dict(sc, klass="seq/" + (kinds[k] if k < len(kinds) else "step")), so, (c, k)))
        else:
            flat.append((c, o, None))
    return flat


def shrink_seq(ctx, binp, seq, k, clause):
    """smallest of: the failing call alone (then the failure does not depend on earlier calls), the call before it + the failing
    call, the prefix up to the failing call"""
    steps = [strip(x) for x in seq["steps"]]

    def fails(sub):
        obs, _ = ctx.run_jsonl(binp, [{"op": "seq", "steps": sub}])
        if not obs or not obs[0].get("steps") or len(obs[0]["steps"]) != len(sub):
            return False
        return any(cl == clause for cl, _ in monitor(ctx, sub[-1], obs[0]["steps"][-1]))
    for sub in ([steps[k]], steps[max(0, k - 1):k + 1], steps[:k + 1]):
        if fails(sub):
            return sub
    return steps


def gen_bylib(rng, n):
    out = []
    for _ in range(n):
        gl = []
        for _ in range(rng.randint(0, 8)):
            lib, var = rng.choice([("cuda", ""), ("cuda", "v11"), ("cuda_v11", ""), ("rocm", ""), ("", ""), ("", "x"), ("_x", ""), ("cpu", "avx"), ("cpu_avx", ""), ("cuda", "v12")])
            gl.append({"lib": lib, "variant": var, "free": str(rng.randint(0, 99)), "min": str(rng.randint(0, 9))})
        out.append({"op": "bylib", "gpus": gl, "klass": "bylib"})
    return out


# ------------------------------------------------------------------ monitor: the property on the implementation's answer

def split_list(s):
    return [int(x) for x in s.split(",")] if s else []


def bc_of(c):
    return int(c["model"]["kv_u32"]["block_count"])


def clause_failures(c, inp, o):
    """-> list of (clause, text).  c: the case, o: the harness observation for it."""
    bad = []
    bc = int(inp["bc"])
    ng = c["num_gpu"]
    ovh = I(c["overhead"])
    if c["op"] == "estimate":
        e = o["est"]
        layers, vram, total = e["layers"], I(e["vram"]), I(e["total"])
        sizes = [I(x) for x in e["sizes"]]
        split = split_list(e["split"])
        if sizes and len(sizes) != len(c["gpus"]):
            bad.append(("per_gpu_bound", "GPUSizes has %d entries for %d GPUs" % (len(sizes), len(c["gpus"]))))
        for i, (g, a) in enumerate(zip(c["gpus"], sizes)):
            if a != 0 and a + ovh > I(g["free"]):
                bad.append(("per_gpu_bound", "GPU %d is assigned %d bytes but has free %d - overhead %d = %d" % (i, a, I(g["free"]), ovh, I(g["free"]) - ovh)))
                break
        if layers < 0 or layers > bc + 1:
            bad.append(("layers_le_model", "Layers=%d but the model has %d blocks + output" % (layers, bc)))
        if ng >= 0 and layers > ng:
            bad.append(("layers_le_limit", "Layers=%d exceeds num_gpu=%d" % (layers, ng)))
        if split:
            if len(split) != len(c["gpus"]) or sum(split) != layers or any(x < 0 for x in split):
                bad.append(("split_sums", "TensorSplit %r does not sum to Layers=%d over %d GPUs" % (e["split"], layers, len(c["gpus"]))))
        elif len(c["gpus"]) > 1 and layers > 0:
            bad.append(("split_sums", "no TensorSplit reported for %d GPUs with Layers=%d" % (len(c["gpus"]), layers)))
        if total < vram or total < sum(sizes):
            bad.append(("total_ge_vram", "TotalSize=%d is below the GPU-resident part (VRAMSize=%d, sum GPUSizes=%d)" % (total, vram, sum(sizes))))
    elif c["op"] == "fit":
        f = o["fit"]
        if f["fit"]:
            need = bc + 1 if ng < 0 else min(ng, bc + 1)
            if not any(g["layers"] > 0 and g["layers"] >= need for g in (f["groups"] or [])):
                bad.append(("fit_sound", "declared to fit completely, but no library group places %d layers (groups place %s; blocks=%d, num_gpu=%d)"
                            % (need, [g["layers"] for g in (f["groups"] or [])], bc, ng)))
    return bad


def monitor(ctx, c, o, shrink=None):
    if c["op"] == "bylib":
        return []
    part = o.get("est") if c["op"] == "estimate" else o.get("fit")
    if part is None or "panic" in part:
        if c["gpus"]:      # an empty GPU list is outside the property's domain (it panics on gpus[0])
            return [("panic", "estimator panicked: %s" % (part or {}).get("panic"))]
        return []
    return clause_failures(c, o["in"], o)


# ------------------------------------------------------------------ rendering for Coq

def cq_str(s):
    return cq_bytes(s.encode()) if s else "(@nil N)"


def cq_optN(x):
    return "None" if x is None else "(Some %s)" % cq_N(I(x))


def cq_pair(p):
    return "(%s, %s)" % (cq_N(I(p[0])), cq_N(I(p[1])))


def cq_gpu(g):
    return "(mkgpu %s %s %s %s)" % (cq_N(I(g["free"])), cq_N(I(g["min"])), cq_str(g["lib"]), cq_str(g.get("variant", "")))


def cq_gpus(gl):
    return cq_list([cq_gpu(g) for g in gl], "gpu")


def cq_model(inp):
    blocks = cq_list(["(%s, %s, %s)" % (cq_optN(b[0]), cq_N(I(b[1])), cq_N(I(b[2]))) for b in inp["blocks"]], "(option N * N * N)")
    return "(mkmodel %s %s %s %s %s %s %s %s %s)" % (cq_optN(inp["blk0"]), blocks, cq_pair(inp["graph"]), cq_pair(inp["graph_mm"]), cq_N(I(inp["gqa"])),
                                                  cq_optN(inp["out_norm"]), cq_optN(inp["out"]), cq_optN(inp["tok"]), cq_pair(inp["vision"]))


def cq_opts(c, inp):
    return "(mkopts %s %s %s)" % (cq_N(I(c["overhead"])), cq_Z(c["num_gpu"]), cq_list([cq_pair(p) for p in inp["proj"]], "(N * N)"))


def cq_listN(l):
    return cq_list([cq_N(I(x)) for x in l], "N")


def cq_obs(e):
    it = e["internals"]
    return "(mkobs %s %s %s %s %s %s %s %s %s %s %s %s %s)" % (
        cq_N(e["layers"]) if e["layers"] >= 0 else "0", cq_N(I(e["graph"])), cq_N(I(e["vram"])), cq_N(I(e["total"])), cq_listN(e["sizes"]),
        cq_listN(split_list(e["split"])), cq_N(I(it["kv"])), cq_N(I(it["weights"])), cq_N(I(it["out"])), cq_N(I(it["graph_full"])),
        cq_N(I(it["graph_partial"])), cq_N(I(it["projector_weights"])), cq_N(I(it["projector_graph"])))


def render(c, o):
    if c["op"] in ("loaded", "first", "cpu"):
        return render_sched(c, o)
    if c["op"] == "bylib":
        groups = [[c["gpus"][i] for i in ids] for ids in (o["groups"] or [])]
        return "chk_bylib %s %s" % (cq_gpus(c["gpus"]), cq_list([cq_gpus(g) for g in groups], "(list gpu)"))
    inp = o["in"]
    args = "%s %s %s" % (cq_gpus(c["gpus"]), cq_model(inp), cq_opts(c, inp))
    if c["op"] == "estimate":
        e = o["est"]
        if "panic" in e:
            return "chk_estimate_panic " + args
        return "chk_estimate %s %s %s" % (args, cq_obs(e), cq_bool(demand_bound(c, inp) < W64))
    f = o["fit"]
    if "panic" in f:
        return "false"
    return "chk_fit %s %s %s" % (args, cq_bool(f["fit"]), cq_N(I(f["vram"])))


def model_term(c, o):
    if c["op"] in ("loaded", "first", "cpu"):
        return sched_model_term(c, o)
    if c["op"] == "bylib":
        return "by_library %s" % cq_gpus(c["gpus"])
    inp = o["in"]
    args = "%s %s %s" % (cq_gpus(c["gpus"]), cq_model(inp), cq_opts(c, inp))
    return ("estimate_gpus " if c["op"] == "estimate" else "predict_server_fit ") + args



# ------------------------------------------------------------------ the scheduler path (server/sched.go)

SCHED_ARGS = ["-test.run", "TestVerifC16Sched$"]


def sched_env():
    e = vlib.goenv()
    e["VERIF_C16_SCHED"] = "1"
    return e


def tries_of(np):
    return [4, 1] if np <= 0 else [np]


def gen_sched_cases(rng, cfg, ins, k):
    """scheduler states around one model: GPUs of 1-2 libraries (IDs may repeat across libraries), 0-3 loaded runners with
    predicted per-GPU usage, foreign usage (reported free well below total - ours), laggy reporting (reported free above
    total - ours), predicted > total; the *effective* free memory is aimed at the estimator's thresholds"""
    out = []
    common = {k2: cfg[k2] for k2 in ("model", "projectors", "num_gpu", "num_batch")}
    for _ in range(k):
        op = "loaded" if rng.random() < 0.75 else "first"
        np_ = rng.choice([0, 0, 1, 1, 2, 4, -1])
        aim_p = rng.choice(tries_of(np_))
        inp = ins[str(aim_p)] if str(aim_p) in ins else ins["1"]
        ovh = gen_overhead(rng, inp, cfg)
        libs = rng.choice([[("cuda", "")], [("cuda", "")], [("rocm", "")], [("cuda", ""), ("rocm", "")], [("cuda", "v11"), ("cuda", "v12")],
                           [("rocm", ""), ("cuda", "")], [("cpu", "")]])
        share_ids = rng.random() < 0.4
        gl = []
        for li, (lib, var) in enumerate(libs):
            n = rng.choice([1, 1, 2, 2, 3, 4])
            for gi, g in enumerate(gen_gpus(rng, inp, cfg, ovh, n, lib)):
                g["variant"] = var
                g["id"] = str(gi) if share_ids else "%s%s-%d" % (lib, var, gi)
                gl.append(g)
        gl = gl[:8]
        if rng.random() < 0.4:
            rng.shuffle(gl)
        ids = sorted({g["id"] for g in gl})
        runners = []
        if op == "loaded":
            for _ in range(rng.choice([1, 1, 2, 3])):
                on = rng.sample(ids, rng.randint(0, len(ids)))
                scale = rng.choice([1, 1000, 10 ** 6, max(1, sum(derived(inp, 1, "cuda")["layers"]))])
                runners.append({"loading": rng.random() < 0.2, "gpus": on + (["elsewhere"] if rng.random() < 0.1 else []),
                                "llama": rng.random() < 0.93,
                                "vram": {i: str(rng.randint(0, 3 * scale)) for i in on if rng.random() < 0.9}})
        ours = {}
        for g in gl:
            ours[g["id"]] = sum(I(r["vram"].get(g["id"], 0)) for r in runners if r["llama"])
        for g in gl:
            eff = I(g["free"])          # the free memory we want the estimator to see
            p = ours[g["id"]]
            kind = rng.choice(["foreign", "foreign", "foreign", "laggy", "exact", "over", "plain", "free>total"])
            if kind == "foreign":       # another application holds VRAM: reported free is far below total - ours
                g["total"] = str(eff + p + rng.choice([1, 1000, 10 ** 6, 2 * eff + 5, 10 ** 9]))
            elif kind == "laggy":       # our usage is not reflected yet: reported free is above total - ours, the clamp lowers it
                g["total"] = str(eff + p)
                g["free"] = str(eff + rng.choice([1, p, rng.randint(0, p + 1)]))
            elif kind == "exact":
                g["total"] = str(eff + p)
            elif kind == "over":        # predicted usage exceeds the total: free becomes 0
                g["total"] = str(max(0, p - rng.randint(1, 10)))
            elif kind == "free>total":
                g["total"] = str(max(0, eff - rng.randint(0, 10)))
            else:
                g["total"] = str(eff + p + rng.randint(0, 5))
        extra = {}
        if runners and rng.random() < 0.35:
            # a helper goroutine holds one loaded runner's refMu for a moment while updateFreeSpace runs
            extra = {"hold": rng.randrange(len(runners)) if rng.random() < 0.85 else -1, "hold_ms": rng.choice([1, 2, 3])}
        out.append(dict(common, op=op, num_ctx=rng.choice([4, 64, 512, 2048]), num_parallel=np_, overhead=str(ovh), spread=rng.random() < 0.15,
                        gpus=gl, runners=runners, klass="sched/%s/%s%s" % (op, "auto" if np_ <= 0 else "np%d" % np_, "/held" if extra else ""), **extra))
    return out


def gen_cpu_cases(rng, cfg, pb, k):
    """processPending's CPU branch: one "cpu" inventory entry whose free system memory is aimed at the requirement of the
    configuration that will be loaded (NumCtx x parallel) and at the requirement at parallel 1, 0-2 other runners loaded,
    OLLAMA_NUM_PARALLEL unset / 1 / 2 / 4, embedding models (parallel forced to 1)"""
    out = []
    tot = {int(p): I(v) for p, v in pb["cpu_totals"].items()}
    for _ in range(k):
        emb = rng.random() < 0.15
        np_env = rng.choice([0, 0, 0, 1, 2, 4])
        p_eff = 1 if emb else (np_env if np_env > 0 else 4)
        T, T1 = tot.get(p_eff, tot[1]), tot[1]
        free = max(0, rng.choice([T - 1, T, T, T + 1, T1, T1 + 1, (T1 + T) // 2, (T1 + T) // 2, T1 + (T - T1) // 3, 0, 10 * T + 5, rng.randint(0, 2 * T + 1)]))
        model = cfg["model"]
        if emb:
            model = dict(model, kv_u32=dict(model["kv_u32"], pooling_type="1"))
        nload = rng.choice([0, 1, 1, 1, 1, 2])
        out.append({"op": "cpu", "model": model, "projectors": cfg["projectors"], "num_gpu": rng.choice([0, 0, -1, cfg["num_gpu"]]),
                    "num_batch": cfg["num_batch"], "num_ctx": cfg["cpu_ctx"], "num_parallel": np_env, "emb": emb, "overhead": str(rng.choice([0, 0, 1000])),
                    "spread": False, "gpus": [{"lib": "cpu", "variant": "", "id": "0", "free": str(free), "total": str(free + rng.choice([0, 1, 10 ** 9])), "min": "0"}],
                    "runners": [{"loading": False, "gpus": ["0"], "llama": True, "vram": {}} for _ in range(nload)],
                    "klass": "sched/cpu/%s/%s" % ("first" if nload == 0 else "loaded", "emb" if emb else "np%d" % np_env)})
    return out


def cpu_monitor(c, o):
    bad = []
    if o.get("action") not in ("load", "evict"):
        return [("panic", "the scheduler's CPU branch neither loaded nor evicted: %s" % json.dumps({k: v for k, v in o.items() if k != "in"})[:300])]
    if o["action"] == "load":
        orig = c["num_ctx"]
        if o["num_ctx"] != orig * max(o["p"], 1):
            bad.append(("cpu_config_mismatch", "loadFn gets NumCtx=%d with numParallel=%d for a request with NumCtx=%d" % (o["num_ctx"], o["p"], orig)))
        est = o.get("est") or {}
        if "panic" in est:
            bad.append(("panic", "estimator panicked: %s" % est["panic"]))
        elif c["runners"] and I(est["total"]) > I(c["gpus"][0]["free"]):
            bad.append(("cpu_fit_bound", "%d other runner(s) stay loaded and the scheduler loads NumCtx=%d x parallel=%d, which needs %s bytes, "
                        "but the reported free system memory is %s" % (len(c["runners"]), o["num_ctx"], o["p"], est["total"], c["gpus"][0]["free"])))
    return bad


def render_cpu(c, o):
    if o.get("action") not in ("load", "evict"):
        return "false"
    act, est = "None", "None"
    if o["action"] == "load":
        orig = c["num_ctx"]
        mult = o["num_ctx"] // orig if orig and o["num_ctx"] % orig == 0 else -1
        act = "(Some (%s, %s))" % (cq_Z(o["p"]), cq_Z(mult))
        if isinstance(o.get("est"), dict) and "panic" not in o["est"]:
            est = "(Some %s)" % cq_obs(o["est"])
    a = sched_args(c, o).split(" ", 2)     # spread, np, rest
    return "chk_sched_cpu %d%%nat %s %s %s %s %s %s" % (len(c["runners"]), cq_xgpu(c["gpus"][0]), a[1], cq_bool(bool(c.get("emb"))), a[2], act, est)


def sched_inp(c, o):
    """the model-file inputs that belong to the parallel setting the scheduler ended with"""
    p = o.get("p", 1)
    return o["in"].get(str(max(p, 1)), o["in"]["1"])


def sched_monitor(c, o):
    if c["op"] == "cpu":
        return cpu_monitor(c, o)
    return sched_monitor_gpu(c, o)


def sched_monitor_gpu(c, o):
    """the property end to end: nothing the scheduler hands to the estimator has more free memory than was reported, and the
    plan for the chosen GPUs stays within the REPORTED free memory less the overhead"""
    bad = []
    reported = {}
    for g in c["gpus"]:
        k = (g["lib"], g.get("variant", ""), g["id"])
        reported[k] = max(reported.get(k, 0), I(g["free"]))

    def key(g):
        return (g["lib"], g.get("variant", ""), g["id"])
    for g in o.get("avail") or []:
        if key(g) not in reported:
            bad.append(("sched_free_raised", "the scheduler hands over a GPU %s that was not reported" % (key(g),)))
        elif I(g["free"]) > reported[key(g)]:
            bad.append(("sched_free_raised", "GPU %s reported %d bytes free but the scheduler passes %d to the estimator (total %s)"
                        % (key(g), reported[key(g)], I(g["free"]), g["total"])))
            break
    # memory already planned for resident runners is not handed out again: free + planned <= total (free = 0 if planned > total)
    if any(r["llama"] for r in c.get("runners", [])):
        mult = {}
        for g in o.get("filtered") or []:
            mult[(g["lib"], g["id"])] = mult.get((g["lib"], g["id"]), 0) + 1
        for g in o.get("avail") or []:
            planned = mult.get((g["lib"], g["id"]), 1) * sum(I(r.get("vram", {}).get(g["id"], 0)) for r in c["runners"] if r["llama"])
            if planned < W64 and I(g["free"]) > max(0, I(g["total"]) - planned):
                bad.append(("sched_free_ignores_resident", "GPU %s: total %s, %d bytes already planned for loaded runners, but %s bytes are handed to the estimator as free%s"
                            % (key(g), g["total"], planned, g["free"], " (while another goroutine held %s)" % ("the scheduler's loadedMu" if c["hold"] < 0 else "the refMu of loaded runner %d" % c["hold"]) if "hold" in c else "")))
                break
    chosen = o.get("chosen")
    if chosen:
        if any(key(g) not in reported for g in chosen):
            bad.append(("sched_per_gpu_bound", "a chosen GPU was not reported"))
        elif isinstance(o.get("est"), dict) and "panic" not in o["est"]:
            rep = [dict(g, free=str(reported[key(g)])) for g in chosen]
            c2 = dict(c, op="estimate", gpus=rep)
            for cl, txt in clause_failures(c2, sched_inp(c, o), {"est": o["est"]}):
                bad.append(("sched_" + cl if cl == "per_gpu_bound" else cl, "plan for the GPUs the scheduler chose (reported free memory): " + txt))
            if o.get("full"):
                bc, ng = int(sched_inp(c, o)["bc"]), c["num_gpu"]
                need = bc + 1 if ng < 0 else min(ng, bc + 1)
                if not (o["est"]["layers"] > 0 and o["est"]["layers"] >= need):
                    bad.append(("fit_sound", "the scheduler found a complete fit but the plan places %d of %d layers" % (o["est"]["layers"], need)))
        elif isinstance(o.get("est"), dict):
            bad.append(("panic", "estimator panicked on the scheduler's GPU list: %s" % o["est"]["panic"]))
    return bad


def cq_xgpu(g):
    return "(mkx %s %s %s)" % (cq_str(g["id"]), cq_N(I(g["total"])), cq_gpu(g))


def cq_xgpus(gl):
    return cq_list([cq_xgpu(g) for g in gl], "xgpu")


def cq_runner(r):
    tbl = cq_list(["(%s, %s)" % (cq_str(k), cq_N(I(v))) for k, v in sorted(r.get("vram", {}).items())], "(str * N)")
    return "(mkrunner %s %s %s %s)" % (cq_bool(r["loading"]), cq_list([cq_str(i) for i in r["gpus"]], "str"), cq_bool(r["llama"]), tbl)


def sched_args(c, o):
    tbl = cq_list(["(%s, %s)" % (cq_Z(int(p)), cq_model(m)) for p, m in sorted(o["in"].items(), key=lambda kv: int(kv[0]))], "(Z * model)")
    return "%s %s %s %s %s" % (cq_bool(bool(c.get("spread"))), cq_Z(c["num_parallel"]), tbl, cq_model(o["in"]["1"]), cq_opts(c, o["in"]["1"]))


def render_sched(c, o):
    if c["op"] == "cpu":
        return render_cpu(c, o)
    est = "None"
    if isinstance(o.get("est"), dict):
        if "panic" in o["est"]:
            return "false"
        est = "(Some %s)" % cq_obs(o["est"])
    if c["op"] == "loaded":
        res = "None" if not o["full"] else "(Some (%s, %s))" % (cq_Z(o["p"]), cq_xgpus(o["chosen"]))
        rs = cq_list([cq_runner(r) for r in c["runners"]], "runner")
        return "chk_sched_loaded %s %s %s %s %s %s %s" % (rs, cq_xgpus(c["gpus"]), sched_args(c, o), cq_xgpus(o["filtered"]), cq_xgpus(o["avail"]), res, est)
    return "chk_sched_first %s %s %s (%s, %s) %s" % (cq_xgpus(c["gpus"]), sched_args(c, o), cq_bool(o["full"]), cq_Z(o["p"]), cq_xgpus(o["chosen"] or []), est)


def sched_model_term(c, o):
    a = sched_args(c, o).split(" ", 2)
    mp = "(mp_of %s)" % sched_args(c, o).split(" ", 2)[2].rsplit(" (mkopts", 1)[0]
    opts = cq_opts(c, o["in"]["1"])
    if c["op"] == "cpu":
        return "sched_cpu %d%%nat %s %s %s %s %s" % (len(c["runners"]), cq_xgpu(c["gpus"][0]), a[1], cq_bool(bool(c.get("emb"))), mp, opts)
    if c["op"] == "loaded":
        rs = cq_list([cq_runner(r) for r in c["runners"]], "runner")
        return "sched_loaded %s %s %s %s %s %s" % (rs, cq_xgpus(c["gpus"]), a[0], a[1], mp, opts)
    return "sched_first %s %s %s %s %s" % (cq_xgpus(c["gpus"]), a[0], a[1], mp, opts)


def sched_shrink(ctx, binp, c, clause):
    def fails(cand):
        obs, _ = ctx.run_jsonl(binp, [cand], args=SCHED_ARGS, env=sched_env())
        return bool(obs) and len(obs) == 1 and "in" in obs[0] and any(cl == clause for cl, _ in sched_monitor(cand, obs[0]))
    cur, budget, changed = dict(c), 40, True
    while changed and budget > 0:
        changed = False
        for key_, n in (("gpus", 1), ("runners", 0)):
            for i in range(len(cur[key_])):
                if len(cur[key_]) <= n:
                    break
                cand = dict(cur, **{key_: cur[key_][:i] + cur[key_][i + 1:]})
                if key_ == "runners" and "hold" in cur:
                    if i == cur["hold"]:
                        continue
                    if 0 <= i < cur["hold"]:
                        cand["hold"] = cur["hold"] - 1
                budget -= 1
                if fails(cand):
                    cur, changed = cand, True
                    break
        for key_, val in (("projectors", []), ("overhead", "0"), ("num_gpu", -1), ("num_parallel", 1), ("spread", False)):
            if cur.get(key_) != val and budget > 0:
                cand = dict(cur, **{key_: val})
                budget -= 1
                if fails(cand):
                    cur, changed = cand, True
    if "hold" in cur and cur["hold"] >= 0 and len(cur["runners"]) <= cur["hold"]:
        cur["hold"] = 0
    return cur


def run_sched(ctx, only_cases=None):
    binp = ctx.go_build(**SCHED_BUILD)
    if not binp:
        return
    rng = ctx.rng
    if only_cases is not None:
        cases = only_cases
    else:
        ncfg, k = (45, 14) if ctx.quick() else (400, 30)
        cfgs = [gen_config(rng) for _ in range(ncfg)]
        for cfg in cfgs:
            cfg["cpu_ctx"] = rng.choice([4, 64, 512, 2048])
        probes = [dict({k2: cfg[k2] for k2 in ("model", "projectors", "num_gpu", "num_batch")}, op="probe", num_ctx=cfg["cpu_ctx"], num_parallel=2, overhead="0",
                       spread=False, gpus=[], runners=[]) for cfg in cfgs]
        pobs, err = ctx.run_jsonl(binp, probes, args=SCHED_ARGS, env=sched_env())
        if pobs is None or len(pobs) != len(probes) or any("in" not in p for p in pobs):
            detail = err + " " + json.dumps([p for p in (pobs or []) if "in" not in p][:2])[:1500]
            ctx.obligation("harness c16sched answered every probe", False, detail)
            ctx.proof_failures.append({"obligation": "correspondence: harness c16sched could not load the generated models", "detail": detail})
            return
        cases = load_corpus(("loaded", "first", "cpu"))
        for cfg, pb in zip(cfgs, pobs):
            cases += gen_sched_cases(rng, cfg, pb["in"], k)
            cases += gen_cpu_cases(rng, cfg, pb, 5 if ctx.quick() else 12)
    obs, err = ctx.run_jsonl(binp, [strip(c) for c in cases], args=SCHED_ARGS, timeout=1200, env=sched_env())
    if obs is None or len(obs) != len(cases) or any("harness_error" in o or "in" not in o for o in obs):
        detail = err + " " + json.dumps([o for o in (obs or []) if "in" not in o][:2])[:1500]
        ctx.obligation("harness c16sched answered every case", False, detail)
        ctx.proof_failures.append({"obligation": "correspondence: harness c16sched did not answer every case", "detail": detail})
        return
    items, nviol = [], 0
    for c, o in zip(cases, obs):
        ctx.note_case(strip(c), bool(o.get("chosen")) and isinstance(o.get("est"), dict) and o["est"].get("layers", 0) > 0, c.get("klass", "replay"),
                      sample={"case": summarize(c), "impl": {k2: v for k2, v in o.items() if k2 != "in"}})
        lowered = sum(1 for g, a in zip(o.get("filtered") or [], o.get("avail") or []) if I(a["free"]) < I(g["free"]))
        ctx.count("sched-free-lowered" if lowered else "sched-free-kept")
        if c["op"] == "loaded":
            ctx.count("sched-full-fit" if o.get("full") else "sched-no-fit")
        fails = sched_monitor(c, o)
        if fails:
            clause, text = fails[0]
            rep = [dict(g) for g in (o.get("chosen") or c["gpus"])]
            wrapc = demand_bound(dict(c, gpus=rep), sched_inp(c, o)) >= W64
            small, so = c, o
            if nviol < 3 and not wrapc:
                small = sched_shrink(ctx, binp, strip(c), clause)
                so = (ctx.run_jsonl(binp, [small], args=SCHED_ARGS, env=sched_env())[0] or [o])[0]
                text = next((t for cl, t in sched_monitor(small, so) if cl == clause), text)
            nviol += 1
            ctx.violation({"op": c["op"], "clause": clause, "class": "uint64-wrap" if wrapc else "plain"}, "%s: %s" % (clause, text),
                          {"case": strip(small), "impl": {k2: v for k2, v in so.items() if k2 != "in"}, "all_failed_clauses": fails,
                           "model": ctx.coq_print(HEADER, model_term(small, so)) if nviol <= 2 else None})
        items.append(render(c, o))
    bad, log = ctx.coq_eval(HEADER, items, per_file=60, name="sched")
    if bad is None:
        ctx.obligation("correspondence: scheduler-path model evaluated on all cases", False, log)
        ctx.proof_failures.append({"obligation": "correspondence evaluation (scheduler path) failed in coqc", "detail": log})
        return
    ctx.disagreements_checked += len(items)
    ctx.obligation("correspondence: scheduler-path model = implementation on %d cases" % len(items), not bad)
    for i in bad[:10]:
        ctx.mismatch("Mem/Corr.%s" % items[i].split()[0], strip(cases[i]), {k2: v for k2, v in obs[i].items() if k2 != "in"},
                     ctx.coq_print(HEADER, model_term(cases[i], obs[i])) if len(ctx.mismatches) < 3 else None)


# ------------------------------------------------------------------ driver

def strip(c):
    d = {k: v for k, v in c.items() if k not in ("klass", "kinds")}
    if d.get("op") == "seq":
        d["steps"] = [strip(x) for x in d["steps"]]
    return d


def nontrivial(c, o):
    if c["op"] == "estimate":
        e = o.get("est", {})
        return e.get("layers", 0) > 0
    if c["op"] == "fit":
        return any(g["layers"] > 0 for g in (o.get("fit", {}).get("groups") or []))
    return len(o.get("groups") or []) > 1


def shrink_case(ctx, binp, c, clause):
    """greedy shrinking of a violating case: fewer GPUs, no projectors, zero overhead, num_gpu -1, as long as the same
    clause still fails on the real code"""
    def fails(cand):
        obs, _ = ctx.run_jsonl(binp, [cand])
        if not obs or len(obs) != 1:
            return False
        return any(cl == clause for cl, _ in monitor(ctx, cand, obs[0]))
    cur = dict(c)
    budget = 60
    changed = True
    while changed and budget > 0:
        changed = False
        for i in range(len(cur["gpus"])):
            if len(cur["gpus"]) <= 1:
                break
            cand = dict(cur, gpus=cur["gpus"][:i] + cur["gpus"][i + 1:])
            budget -= 1
            if fails(cand):
                cur, changed = cand, True
                break
        for key, val in (("projectors", []), ("overhead", "0"), ("num_gpu", -1), ("num_parallel", 1)):
            if cur.get(key) != val and budget > 0:
                cand = dict(cur, **{key: val})
                budget -= 1
                if fails(cand):
                    cur, changed = cand, True
    return cur


def neighbours(rng, c, inp, k):
    """cases around a disagreeing case: GPU free memory moved by small amounts and by the estimator's own terms
    (layer sizes, graph, projector, minimum, overhead), overhead / num_gpu perturbed"""
    out = []
    dv = derived(inp, max(1, len(c["gpus"])), c["gpus"][0]["lib"] if c["gpus"] else "")
    terms = [dv["l0"], dv["maxG"], dv["gzo"], dv["out"], I(c["overhead"]), dv["gp"], dv["gf"]] + dv["layers"]
    for _ in range(k):
        d = json.loads(json.dumps(c))
        for g in d["gpus"]:
            if rng.random() < 0.6:
                g["free"] = str(max(0, I(g["free"]) + rng.choice([-2, -1, 1, 2, rng.randint(-200, 200), rng.randint(-100000, 100000)])))
            if rng.random() < 0.4:
                g["free"] = str(max(0, I(g["free"]) + rng.choice([-1, 1]) * rng.choice(terms + [I(g["min"])]) + rng.choice([-1, 0, 1])))
        if rng.random() < 0.3:
            d["overhead"] = str(max(0, I(d["overhead"]) + rng.choice([-1, 1, rng.randint(0, 5000)])))
        if rng.random() < 0.3:
            d["num_gpu"] = rng.choice([-1, 0, 1, 2, bc_of(d), bc_of(d) + 1])
        out.append(d)
    return out


def run(ctx, only_cases=None, sched_cases=None):
    ctx.rule = ("cases: generated GGUF models (0-12 blocks; uniform/uneven/growing/spiky/missing layers; output / token_embd / output_norm / none; "
                "llama, qwen2, unknown arch (graph fallback), gemma3 with vision tower; 0-2 projector files incl. missing and mllama) x options "
                "(num_ctx, num_batch, num_parallel, num_gpu in {-1,0..blocks+2,999,...}, OLLAMA_GPU_OVERHEAD) x 1-8 GPUs whose free memory is aimed at "
                "the admission threshold and at k-layer fill levels +-1, also with terms of the estimator's sums left out (plus random, tiny, huge, and a 4% "
                "uint64-wrap class); an exhaustive small scope (every pair/triple of free-memory values from the grid of all thresholds of a small model x "
                "every num_gpu); fit cases mix 1-3 library/variant groups.  non-trivial = at least one layer was placed (estimate/fit) or more than one group (bylib); "
                "distinct = by canonical JSON of the case")
    ctx.trusted = ["Coq 8.16.1 kernel + vm_compute", "hand-written model coq/Mem/Model.v tied to llm/memory.go by this differential run only",
                   "the model's inputs (layer sizes, KV sizes, graph sizes, projector sizes) are read with the real fs/ggml API (GroupLayers/Size, GraphSize, "
                   "VisionGraphSize, projectorMemoryRequirements): those functions are oracles, not modelled",
                   "Go harness harness/cmd/c16, overlay exports in harness/overlay/llm/c16.go and the in-package test harness/overlay/server/c16_test.go "
                   "(add-only, build tag verif); the mock llm.LlamaServer of the scheduler harness (EstimatedVRAMByGPU is an input table)",
                   "python case generator and monitor (props/c16.py)"]
    ctx.assumptions = ["size theorems assume no uint64 operation of the estimator wraps (r_ok = true); proved (C16_no_wrap_below_2_64) to hold whenever the sizes read "
                       "from the file add up without wrapping and the explicit demand expression of the inputs is below 2^64",
                       "flash attention / KV cache quantisation is off (OLLAMA_FLASH_ATTENTION unset): it only changes the KV sizes returned by GraphSize",
                       "fit soundness is read under the num_gpu cap (num_gpu >= 0: all layers up to the cap)"]
    ctx.proof_stage(["Mem"], "Mem/Properties_C16.v", extra_targets=["Mem/Corr.v"],
                    expect_theorems=["C16_per_gpu_bound", "C16_per_gpu_bound_refuted", "C16_layers_le_model_and_limit", "C16_split_sums",
                                     "C16_total_ge_vram", "C16_total_ge_vram_refuted", "C16_fit_sound", "C16_unadmitted_gpu_gets_nothing",
                                     "C16_by_library_partition", "C16_no_wrap_below_2_64", "C16_bytes_below_2_64", "C16_sched_free_never_raised", "C16_sched_free_accounts_for_resident",
                                     "C16_sched_pick_full_sound", "C16_sched_per_gpu_bound_reported", "C16_sched_first_per_gpu_bound", "C16_sched_cpu_load_fits"])
    if not ctx.quick():
        ctx.coqchk(["V.Mem.Properties_C16", "V.Mem.Corr"])
    binp = ctx.go_build("c16")
    if not binp:
        return
    if sched_cases is not None:
        run_sched(ctx, sched_cases)
        if not only_cases:
            return
    rng = ctx.rng
    if only_cases is not None:
        cases = only_cases
    else:
        ncfg = 180 if ctx.quick() else 1200
        k_est, k_fit = (12, 3) if ctx.quick() else (24, 6)
        cfgs = [gen_config(rng) for _ in range(ncfg)]
        cfgs += [gen_exh_config(rng, 2)] if ctx.quick() else [gen_exh_config(rng, b) for b in (1, 2, 2, 3)]
        probes = [dict({k: cfg[k] for k in ("model", "projectors", "num_gpu", "num_ctx", "num_batch", "num_parallel")}, op="probe", overhead="0", gpus=[])
                  for cfg in cfgs]
        pobs, err = ctx.run_jsonl(binp, probes)
        if pobs is None or len(pobs) != len(probes) or any("in" not in p for p in pobs):
            detail = err + " " + json.dumps([p for p in (pobs or []) if "in" not in p][:2])[:1500]
            ctx.obligation("harness c16 answered every probe", False, detail)
            ctx.proof_failures.append({"obligation": "correspondence: harness c16 could not load the generated models", "detail": detail})
            return
        cases = load_corpus()
        per_cfg = []
        for cfg, p in zip(cfgs, pobs):
            ctx.count("model/" + cfg["profile"].split("/")[2])
            ctx.count("profile/" + cfg["profile"].split("/")[0])
            ctx.count("output/" + cfg["profile"].split("/")[1])
            if cfg.get("exh"):
                if ctx.quick():
                    cases += exhaustive_cases(cfg, p["in"], 2, [5])
                else:
                    cases += exhaustive_cases(cfg, p["in"], 2, [0, 5])
                    if int(p["in"]["bc"]) <= 2:
                        cases += exhaustive_cases(cfg, p["in"], 3, [5])
                continue
            per_cfg.append(mk_cases(rng, cfg, p["in"], ctx.quick(), k_est, k_fit))
            cases += per_cfg[-1]
        cases += gen_seq_cases(rng, per_cfg, 160 if ctx.quick() else 2000)
        # the empty GPU list: EstimateGPULayers indexes gpus[0] (panic), PredictServerFit answers (false, 0)
        c0 = per_cfg[-1][-1]
        cases.append(dict(strip(c0), op="estimate", gpus=[], klass="estimate/empty"))
        cases.append(dict(strip(c0), op="fit", gpus=[], klass="fit/empty"))
        cases += gen_bylib(rng, 60 if ctx.quick() else 600)
    obs, err = ctx.run_jsonl(binp, [strip(c) for c in cases], timeout=1200)
    if obs is None or len(obs) != len(cases) or any("harness_error" in o or ("panic" in o) for o in obs):
        detail = err + " " + json.dumps([o for o in (obs or []) if "harness_error" in o or "panic" in o][:2])[:1500]
        ctx.obligation("harness c16 answered every case", False, detail)
        ctx.proof_failures.append({"obligation": "correspondence: harness c16 did not answer every case", "detail": detail})
        return
    flat = flatten(cases, obs)
    if any(not isinstance(o, dict) or "panic" in o or "harness_error" in o for _, o, _ in flat):
        detail = json.dumps([o for _, o, _ in flat if not isinstance(o, dict) or "panic" in o or "harness_error" in o][:2])[:1500]
        ctx.obligation("harness c16 answered every call of every sequence", False, detail)
        ctx.proof_failures.append({"obligation": "correspondence: harness c16 failed inside a sequence", "detail": detail})
        return
    items = []
    nviol = 0
    seen_in_seq = {}
    for c, o, seq in flat:
        ctx.note_case(strip(c) if seq is None else {"seq": id(seq[0]), "k": seq[1], "c": strip(c)}, nontrivial(c, o), c.get("klass", "replay"),
                      sample={"case": summarize(c), "impl": {k: v for k, v in o.items() if k != "in"}})
        fails = monitor(ctx, c, o)
        if seq is not None:
            # nothing changed between two calls of one sequence -> the answers must be identical
            key = (id(seq[0]), json.dumps(strip(c), sort_keys=True))
            if key in seen_in_seq and seen_in_seq[key] != o:
                fails = fails + [("seq_same_call_different_answer", "the same call (same model, GPUs, options, environment) was answered differently "
                                  "later in the same process: %s vs %s" % (json.dumps({k: v for k, v in seen_in_seq[key].items() if k != "in"})[:300],
                                                                           json.dumps({k: v for k, v in o.items() if k != "in"})[:300]))]
            seen_in_seq.setdefault(key, o)
        if fails:
            wrapc = c["op"] != "bylib" and demand_bound(c, o["in"]) >= W64
            ctx.count("wrap-capable-violations" if wrapc else "violations")
            clause, text = fails[0]
            small, so = c, o
            replay_case = None
            if seq is not None and nviol < 3 and not wrapc and clause != "seq_same_call_different_answer":
                sub = shrink_seq(ctx, binp, seq[0], seq[1], clause)
                if len(sub) > 1:
                    replay_case = {"op": "seq", "steps": sub}
                    text += "  [call %d of a sequence of %d calls in one process; fails as the last call of the %d-call sequence in the replay, not alone]" % (
                        seq[1] + 1, len(seq[0]["steps"]), len(sub))
            elif seq is not None:
                replay_case = {"op": "seq", "steps": [strip(x) for x in seq[0]["steps"]]}
            if replay_case is None and nviol < 3 and not wrapc:
                small = shrink_case(ctx, binp, strip(c), clause)
                so = (ctx.run_jsonl(binp, [small])[0] or [o])[0]
                f2 = monitor(ctx, small, so)
                text = next((t for cl, t in f2 if cl == clause), text)
            nviol += 1
            ctx.violation({"op": c["op"], "clause": clause, "class": "uint64-wrap" if wrapc else "plain", "sequence": replay_case is not None},
                          "%s: %s" % (clause, text), {"case": replay_case or strip(small), "failing_call": strip(c) if replay_case else None, "impl": so,
                                                     "all_failed_clauses": fails,
                                                     "model": ctx.coq_print(HEADER, model_term(small, so)) if nviol <= 2 else None})
        if c["op"] != "bylib":
            ctx.count("wrap-capable" if demand_bound(c, o["in"]) >= W64 else "no-wrap")
            if c["op"] == "estimate" and "panic" not in o["est"]:
                e = o["est"]
                ctx.count("layers=" + ("0" if e["layers"] == 0 else "all" if e["layers"] == int(o["in"]["bc"]) + 1 else "some"))
        items.append(render(c, o))
    bad, log = ctx.coq_eval(HEADER, items, per_file=150)
    if bad is None:
        ctx.obligation("correspondence: model evaluated on all cases", False, log)
        ctx.proof_failures.append({"obligation": "correspondence evaluation failed in coqc", "detail": log})
        return
    ctx.disagreements_checked = len(items)
    ctx.obligation("correspondence: model = implementation on %d cases" % len(items), not bad)
    for i in bad[:10]:
        ci, oi, si = flat[i]
        ctx.mismatch("Mem/Corr.%s" % items[i].split()[0],
                     strip(ci) if si is None else {"op": "seq", "steps": [strip(x) for x in si[0]["steps"]], "disagreeing_call": si[1]},
                     {k: v for k, v in oi.items()}, ctx.coq_print(HEADER, model_term(ci, oi)) if len(ctx.mismatches) < 3 else None)
    if bad and not ctx.violations and only_cases is None:
        # search around the disagreeing cases for an input on which the property itself fails
        around = []
        for i in bad[:5]:
            if flat[i][0]["op"] != "bylib":
                around += neighbours(rng, strip(flat[i][0]), flat[i][1]["in"], 200)
        if around:
            aobs, _ = ctx.run_jsonl(binp, around, timeout=600)
            for c, o in zip(around, aobs or []):
                fails = monitor(ctx, c, o)
                if fails and demand_bound(c, o["in"]) < W64:
                    small = shrink_case(ctx, binp, c, fails[0][0])
                    ctx.violation({"op": c["op"], "clause": fails[0][0], "class": "plain"}, "%s: %s" % fails[0], {"case": small, "found": "near a model/implementation disagreement"})
                    break
            ctx.extra["searched_around_disagreements"] = len(around)
    if only_cases is None:
        run_sched(ctx)


def summarize(c):
    d = strip(c)
    if "model" in d:
        d = dict(d, model={"arch": d["model"]["arch"], "kv_u32": d["model"]["kv_u32"], "tensors": len(d["model"]["tensors"])})
    return d


def load_corpus(ops=("estimate", "fit", "bylib", "seq")):
    import glob
    import os
    out = []
    for p in sorted(glob.glob(os.path.join(vlib.VERIF, "corpus", "C16", "*.json"))):
        try:
            c = json.load(open(p))
            c["klass"] = "corpus"
            if c.get("op") in ops:
                out.append(c)
        except Exception:
            pass
    return out


def replay(ctx, path):
    r = json.load(open(path))
    ctx.log("replaying", path)
    case = None
    rp = r.get("replay") or {}
    if isinstance(rp, dict) and "case" in rp:
        case = rp["case"]
    elif r.get("disagreements"):
        case = r["disagreements"][0]["case"]
    if case is None:
        run(ctx)
    else:
        case["klass"] = "replay"
        if case.get("op") in ("loaded", "first", "cpu"):
            run(ctx, only_cases=[], sched_cases=[case])
        else:
            run(ctx, only_cases=[case])


MANIFEST = {
    "property_id": "C16",
    "quick_cmd": "python3 check.py C16 --tier quick",
    "thorough_cmd": "python3 check.py C16 --tier thorough",
    "evidence_file": "evidence/C16.json",
    "replay_cmd_template": "python3 check.py C16 --replay {path}",
    "engine": "coq-model+go-differential",
    "level_claimed": {
        "category": "proof",
        "text": "Coq theorems over a loop-for-loop model of llm.EstimateGPULayers / PredictServerFit (any number of GPUs, any layer-size profile, any "
                "options): per-GPU allocation <= free - overhead, layers <= blocks+1 and <= num_gpu, split sums to the layer count, total >= VRAM, "
                "declared fit only if all layers (up to the num_gpu cap) were placed; the two byte-count theorems hold for every input whose explicit total demand "
                "is below 2^64 (no uint64 wrap-around; the unguarded statements are refuted in Coq and recorded as a known finding). "
                "The model is tied to the code by a differential run on generated GGUF models and GPU lists evaluated inside Coq with vm_compute; "
                "the property's clauses are also monitored directly on the real MemoryEstimate.  The path the scheduler takes to the estimator "
                "(filterGPUsWithoutLoadingModels, updateFreeSpace, pickBestFull/PartialFitByLibrary) is modelled too: free memory handed to the estimator is "
                "never above the reported value and the plan for the chosen GPUs obeys the bound against the REPORTED free memory (proved; tied by an "
                "in-package test binary that drives the real scheduler functions; monitored end to end).",
        "design_ref": "DESIGN.md section 5, C16",
    },
    "level_note": "Trusted: Coq kernel/vm_compute; the model-to-code tie is differential testing (generator-bounded); GraphSize/Size/VisionGraphSize are "
                  "input oracles; theorems about byte counts assume no uint64 wrap-around.",
    "technique": "Coq proof (loop invariants by induction over the GPU list and the block list) + model/implementation differential check",
}
