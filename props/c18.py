"""C18 - the sampler returns an admissible token, deterministically under a seed.

Tie (P, stage-wise): the real sample.NewSampler(...).Sample runs on generated logit vectors with a *scripted* random
source (the draw is an input of the model), and the unexported stages topK / temperature / softmax / topP / minP are
called in the order sample() applies them (overlay export, harness/overlay/sample/c18.go).  Every stage is compared
with the Coq model (coq/Sample/Model.v, exact binary32 arithmetic = Coq's SpecFloat at precision 24) *on the
implementation's own input to that stage*; exp is an oracle table written by the harness from math.Exp.  The whole of
Sample is compared too (from the raw logits, by value because ties may be ordered differently).
Grammar path: the harness writes a tokenizer-only GGUF vocabulary, builds a real sample.Grammar (llama.cpp grammar sampler) and runs
Sample with it; the model's Sample_grammar takes the rejected-id set as an oracle and re-samples on the masked logits (each id
with its own logit); the monitor demands an accepted token that is an admissible sample of the logits it was drawn from.
Monitor: the property itself on what Sample returned (token inside the vocabulary, logit not -Inf, a token and not
an error whenever some logit is finite, greedy maximum at temperature 0, membership in the top-k / top-p / min-p
sets in real arithmetic with an error margin, reproducibility of a seeded stream).
"""
import json
import math
import re
import struct

from lib import vlib
from lib.vlib import cq_list, cq_bool

SETUP_BUILDS = [{"name": "c18"}]
COQ_TARGETS = ["Sample/Properties_C18.v", "Sample/Corr.v"]
HEADER = ("From Coq Require Import ZArith List Bool.\nFrom V Require Import Sample.F32 Sample.Model Sample.Corr.\n"
          "Import ListNotations.\nOpen Scope Z_scope.\n")

PINF, NINF, QNAN = 0x7F800000, 0xFF800000, 0x7FC00000
MAXF = 0x7F7FFFFF
F32MAX = 3.4028234663852886e38


# ------------------------------------------------------------------ float32 helpers (bit patterns <-> python floats)

def b2f(b):
    return struct.unpack("<f", struct.pack("<I", b & 0xFFFFFFFF))[0]


def f2b(x):
    """round a python float to the nearest float32 (ties to even), as a bit pattern"""
    if x != x:
        return QNAN
    try:
        return struct.unpack("<I", struct.pack("<f", x))[0]
    except OverflowError:
        return PINF if x > 0 else NINF


def r32(x):
    return b2f(f2b(x))


def is_nan_b(b):
    return (b & 0x7F800000) == 0x7F800000 and (b & 0x7FFFFF) != 0


def is_fin_b(b):
    return (b & 0x7F800000) != 0x7F800000


# ------------------------------------------------------------------ generators

def gen_logits(rng, klass, n):
    def g(scale=4.0):
        return rng.gauss(0, scale)
    if n == 0:
        return []
    if klass == "normal":
        return [f2b(g()) for _ in range(n)]
    if klass == "ties":
        pool = [f2b(x) for x in rng.sample([0.0, -0.0, 1.0, -1.0, 2.5, 2.5000002, 7.0, -3.0], rng.randint(1, 4))]
        return [rng.choice(pool) for _ in range(n)]
    if klass == "mask":       # grammar-like: most tokens -Inf
        keep = max(1, n // 4)
        idx = set(rng.sample(range(n), min(n, keep)))
        return [f2b(g()) if i in idx else NINF for i in range(n)]
    if klass == "all_ninf":
        return [NINF] * n
    if klass == "pos_inf":
        l = [f2b(g()) for _ in range(n)]
        for i in rng.sample(range(n), rng.randint(1, min(n, 2))):
            l[i] = PINF
        if n > 1 and rng.random() < 0.3:
            l[rng.randrange(n)] = NINF
        return l
    if klass == "huge":
        out = []
        for _ in range(n):
            m = rng.choice([1e30, 1e35, 1e37, 1e38, 3e38, F32MAX, 1e20, 1.0])
            s = rng.choice([1, 1, -1])
            out.append(f2b(s * m * rng.choice([1.0, 1.0, rng.random()])))
        return out
    if klass == "huge_neg":
        return [f2b(-rng.choice([1e32, 1e38, 3e38, F32MAX]) * rng.choice([1.0, rng.random() + 0.1])) for _ in range(n)]
    if klass == "tiny":
        return [rng.choice([rng.randrange(0, 1 << 23), (1 << 31) | rng.randrange(0, 1 << 23), f2b(g(1e-30)), 0, 1 << 31]) for _ in range(n)]
    if klass == "close":      # neighbours in float32: a few ulps apart
        base = f2b(abs(g()) + 0.5)
        return [base + rng.randint(-3, 3) for _ in range(n)]
    if klass == "steep":      # mass concentrated on a few tokens: the filters bite
        return [f2b(g(1.0) + (rng.choice([8, 12, 16]) if rng.random() < 0.2 else 0)) for _ in range(n)]
    if klass == "nan":
        l = [f2b(g()) for _ in range(n)]
        for i in rng.sample(range(n), rng.randint(1, min(n, 3))):
            l[i] = rng.choice([QNAN, 0x7F800001, 0xFFC00000])
        return l
    if klass == "bits":       # arbitrary bit patterns that are numbers
        out = []
        while len(out) < n:
            b = rng.getrandbits(32)
            if not is_nan_b(b):
                out.append(b)
        return out
    raise ValueError(klass)


LOGIT_CLASSES = ["normal"] * 6 + ["ties"] * 4 + ["mask"] * 3 + ["steep"] * 4 + ["close"] * 2 + ["huge"] * 3 + ["huge_neg", "pos_inf", "pos_inf",
                 "all_ninf", "tiny", "nan", "bits", "bits"]


def gen_params(rng, n):
    temp = rng.choice([0.0, 0.0, -0.0, -1.0, 1e-9, 1e-7, 0.01, 0.3, 0.5, 0.8, 0.8, 1.0, 1.0, 1.5, 100.0, 3e38, abs(rng.gauss(0, 1)) + 1e-3, 10 ** rng.uniform(-8, 3)])
    topk = rng.choice([0, 0, -1, 1, 2, 3, 5, 10, 40, n - 1, n, n + 1, rng.randint(1, max(1, n))])
    topp = rng.choice([0.0, 1e-10, 0.1, 0.5, 0.9, 0.9, 0.95, 0.999999, 1.0, 1.0, 1.5, -0.5, rng.random()])
    minp = rng.choice([0.0, 0.0, 0.05, 0.05, 0.5, 0.99, 1.0, 2.0, -1.0, rng.random(), rng.random() ** 4])
    return f2b(temp), topk, f2b(topp), f2b(minp)


def gen_draws(rng, m):
    fixed = [0, 1, (1 << 24) - 1, (1 << 24) - 2, 1 << 23]
    return [rng.choice(fixed) if rng.random() < 0.45 else rng.randrange(1 << 24) for _ in range(m)]


def corpus_cases():
    """minimal cases that once violated the property (kept first in every run)"""
    c = []
    for logits, t, what in [([f2b(3e38), 0], 0.5, "overflow-pos"), ([f2b(-3e38)], 0.5, "overflow-neg"), ([PINF, 0], 1.0, "pos-inf"),
                            ([f2b(-1e32), f2b(-2e32)], 1e-7, "overflow-neg"), ([f2b(1e32), f2b(-1.0)], 1e-9, "overflow-pos"),
                            ([PINF, PINF, NINF, f2b(1.0)], 0.7, "pos-inf")]:
        c.append({"op": "sample", "logits": logits, "temp": f2b(t), "topk": 0, "topp": f2b(1.0), "minp": f2b(0.0), "draws": [0, 5, (1 << 24) - 1],
                  "klass": "corpus-" + what})
    return c


def gen_cases(ctx):
    rng = ctx.rng
    cases = corpus_cases()
    import glob
    import os
    for p in sorted(glob.glob(os.path.join(vlib.VERIF, "corpus", "C18", "*.json"))):
        try:
            c = json.load(open(p))
            c["klass"] = "corpus-file"
            cases.append(c)
        except Exception:
            pass
    cases += exhaustive_small(ctx.quick())
    cases += exhaustive_extreme(rng, ctx.quick())
    cases += lonely_and_unfiltered(rng, ctx.quick())
    cases += grammar_cases(rng, ctx.quick())
    n_cases = 600 if ctx.quick() else 12000
    for i in range(n_cases):
        klass = rng.choice(LOGIT_CLASSES)
        u = rng.random()
        n = 0 if u < 0.005 else 1 if u < 0.06 else rng.randint(2, 9) if u < 0.6 else rng.randint(10, 40) if u < 0.93 else rng.randint(41, 200 if ctx.quick() else 600)
        logits = gen_logits(rng, klass, n)
        t, k, p, mp = gen_params(rng, n)
        if rng.random() < 0.01:   # NaN parameters: only "no panic" is demanded
            which = rng.randrange(3)
            t, p, mp = (QNAN if which == 0 else t), (QNAN if which == 1 else p), (QNAN if which == 2 else mp)
            klass += "+nanparam"
        cases.append({"op": "sample", "logits": logits, "temp": t, "topk": k, "topp": p, "minp": mp, "draws": gen_draws(rng, rng.randint(2, 4)), "klass": klass})
    for i in range(60 if ctx.quick() else 1000):
        t, k, p, mp = gen_params(rng, 8)
        stream = []
        for _ in range(rng.randint(2, 8)):
            stream.append(gen_logits(rng, rng.choice(["normal", "ties", "mask", "steep", "close", "bits"]), rng.randint(1, 12)))
        seed = rng.choice([0, 1, 42, rng.randrange(1 << 31), rng.randrange(1 << 50), -7])
        cases.append({"op": "seed", "stream": stream, "temp": t, "topk": k, "topp": p, "minp": mp, "seed": seed, "klass": "seed"})
    return cases


def exhaustive_small(quick):
    """every vector of length <= 2 (thorough: <= 3) over the special values {-Inf, -0, 1, 2, 3e38, +Inf}, crossed with a
    small grid of parameters; draws 0, 1/2, 1-2^-24"""
    import itertools
    vals = [NINF, 1 << 31, f2b(1.0), f2b(2.0), f2b(3e38), PINF]
    out = []
    temps = [0.0, 0.5, 1.0]
    ks = [0, 1, 2]
    ps = [0.5, 1.0]
    mps = [0.0, 0.5] if not quick else [0.5]
    if quick:
        ks = [0, 1]
    for L in range(1, 3 if quick else 4):
        for v in itertools.product(vals, repeat=L):
            for t in temps:
                for k in ks:
                    for p in ps:
                        for mp in mps:
                            out.append({"op": "sample", "logits": list(v), "temp": f2b(t), "topk": k, "topp": f2b(p), "minp": f2b(mp),
                                        "draws": [0, 1 << 23, (1 << 24) - 1], "klass": "exhaustive-small"})
    return out


EXTREME = [NINF, 0xFF7FFFFF, 0xFEFFFFFF, 1, 0, 1 << 31, MAXF, PINF]   # -Inf, -MaxFloat32, -MaxFloat32/2, min subnormal, +0, -0, MaxFloat32, +Inf
EDGE_DRAWS = [0, 1, (1 << 24) - 1, 1 << 23]                            # r = 0, 2^-24, 1-2^-24, 1/2


def nofilter(logits, klass, draws=None, k=0, p=1.0, mp=0.0, t=1.0):
    return {"op": "sample", "logits": logits, "temp": f2b(t), "topk": k, "topp": f2b(p), "minp": f2b(mp), "draws": draws or EDGE_DRAWS, "klass": klass}


def greedy_case(logits, klass, t=0.0):
    return {"op": "sample", "logits": logits, "temp": f2b(t), "topk": 0, "topp": f2b(1.0), "minp": f2b(0.0), "draws": [0], "klass": klass}


def exhaustive_extreme(rng, quick):
    """every vector of length 1..4 (all orders) over {-Inf, -MaxFloat32, -MaxFloat32/2, smallest subnormal, +-0, MaxFloat32,
    +Inf}, on the greedy path and on the weighted path with every filter off (draws exactly 0, 2^-24, 1-2^-24, 1/2), and -
    lengths <= 3 - with filters on.  All of them run on the implementation and are monitored; in the quick tier the model
    comparison takes every vector of length <= 3 and a random sixteenth of length 4 (thorough: all)."""
    import itertools
    out = []
    for L in range(1, 5):
        for v in itertools.product(EXTREME, repeat=L):
            v = list(v)
            skip = quick and L == 4 and rng.random() > 0.0625
            for c in (greedy_case(v, "extreme-greedy"), nofilter(v, "extreme-nofilter")):
                if skip:
                    c["nocoq"] = True
                out.append(c)
            if L <= 3:
                out.append({"op": "sample", "logits": v, "temp": f2b(0.5), "topk": 2, "topp": f2b(0.5), "minp": f2b(0.5), "draws": EDGE_DRAWS, "klass": "extreme-filtered"})
    return out


def lonely_and_unfiltered(rng, quick):
    """(a) long vectors that are -Inf everywhere except one finite entry at a random (often first / last) index, greedy and
    weighted; (b) ordinary vectors with -Inf planted at the first and / or last position, every filter off in all the ways
    NewSampler accepts (top_k <= 0, top_p >= 1, min_p <= 0), draws exactly 0 / 2^-24 / 1-2^-24 / 1-2^-23"""
    out = []
    finite = [0xFF7FFFFF, 0xFEFFFFFF, 1, 0, 1 << 31, MAXF, f2b(-1e30), f2b(-5.0), f2b(0.5), f2b(3.0), (1 << 31) | 1, 0x00800000]
    for _ in range(40 if quick else 600):
        n = rng.choice([2, 3, 5, 13, 40, rng.randint(2, 200)])
        i = rng.choice([0, n - 1, rng.randrange(n)])
        v = [NINF] * n
        v[i] = rng.choice(finite) if rng.random() < 0.8 else f2b(rng.gauss(0, 1e3))
        out.append(greedy_case(v, "lonely-greedy", t=rng.choice([0.0, -0.0, -2.0])))
        out.append(nofilter(v, "lonely-nofilter", t=rng.choice([1.0, 0.3, 1e-9, 50.0])))
        t, k, p, mp = gen_params(rng, n)
        out.append({"op": "sample", "logits": v, "temp": t, "topk": k, "topp": p, "minp": mp, "draws": EDGE_DRAWS, "klass": "lonely-filtered"})
    for _ in range(60 if quick else 900):
        n = rng.randint(2, 30)
        v = gen_logits(rng, rng.choice(["normal", "ties", "mask", "steep", "huge", "tiny", "bits"]), n)
        where = rng.randrange(3)
        if where in (0, 2):
            v[0] = NINF
        if where in (1, 2):
            v[-1] = NINF
        out.append(nofilter(v, "unfiltered-ninf-ends", draws=[0, 1, (1 << 24) - 1, (1 << 24) - 2], k=rng.choice([0, 0, -1, -40]),
                            p=rng.choice([1.0, 1.0, 1.5, 7.0]), mp=rng.choice([0.0, 0.0, -1.0, -0.0]), t=rng.choice([1.0, 0.7, 1e-9, 30.0])))
    return out


VOCAB_CHARS = "abcdefghijklmnopqrstuvwxyzABCDEFGHIJKLMNOPQRSTUVWXYZ0123456789"   # id 3+i <-> VOCAB_CHARS[i]; ids 0..2 special


def grammar_cases(rng, quick):
    """grammar-constrained Sample with the real llama.cpp grammar sampler (grammar  root ::= [accept]+  over a 65-token
    vocabulary written by the harness): unsorted logits, top_k disabled in every spelling (and sometimes enabled), the
    first pick usually rejected (the arg-max is outside the accepted set, first draw often exactly 0), -Inf logits among the
    accepted and the rejected tokens.  Finite logits are pairwise distinct: which of two *equal* logits is picked first is
    not specified (pdqsort / heap), and with a grammar that choice would decide between the fast and the slow path."""
    out = []
    for _ in range(360 if quick else 6000):
        n = rng.choice([4, 5, 8, 13, 14, 30, 65, rng.randint(4, 65)])
        vals = set()
        while len(vals) < n:
            kind = rng.random()
            x = rng.gauss(0, 4) if kind < 0.7 else rng.gauss(0, 1) + rng.choice([8, 12]) if kind < 0.9 else rng.choice([1e30, -1e30, 3e38, -3e38]) * rng.random()
            b = f2b(x)
            if is_fin_b(b) and b2f(b) != 0:
                vals.add(b)
        logits = list(vals)
        order = rng.random()
        if order < 0.25:
            logits.sort(key=b2f)                      # ascending: the sort reverses everything
        elif order < 0.35:
            logits.sort(key=b2f, reverse=True)
        else:
            rng.shuffle(logits)
        q = rng.choice([0.15, 0.3, 0.5, 0.8])
        acc = [i for i in range(3, n) if rng.random() < q] or [rng.randrange(3, n)]
        best = max(range(n), key=lambda i: b2f(logits[i]))
        if rng.random() < 0.7 and best in acc and len(acc) > 1:
            acc.remove(best)
        if rng.random() < 0.45:                      # -Inf logits, among accepted and rejected ids
            for i in rng.sample(range(n), rng.randint(1, max(1, n // 3))):
                if not (i in acc and sum(1 for j in acc if logits[j] != NINF) <= 1):
                    logits[i] = NINF
        k = rng.choice([0, 0, -1, n, n + 1, n + 7, n, 0, 3, n - 1])
        t = rng.choice([1.0, 1.0, 0.5, 0.8, 2.0, 1e-9, 0.0])
        p = rng.choice([1.0, 1.0, 0.9, 0.5, 1.5])
        mp = rng.choice([0.0, 0.0, 0.05, 0.3, -1.0])
        M = (1 << 24) - 1
        draws = [[0, 0], [0, 1 << 23], [0, M], [rng.randrange(1 << 24), rng.randrange(1 << 24)], [M, rng.choice([0, 1, M])], [1 << 23, rng.randrange(1 << 24)]]
        out.append({"op": "grammar", "logits": logits, "accept": "".join(VOCAB_CHARS[i - 3] for i in acc), "temp": f2b(t), "topk": k, "topp": f2b(p), "minp": f2b(mp),
                    "draws": rng.sample(draws, 4), "klass": "grammar" + ("-topk-off" if k <= 0 or k >= n else "-topk-on") + ("-greedy" if t == 0 else "")})
    return out


def monitor_grammar(ctx, c, o):
    """the property on a grammar-constrained call: the token is accepted by the grammar, and it is an admissible sample of
    the logits it must have been drawn from - the raw logits when the first pick was accepted (one draw consumed), the
    masked logits (every id with its own logit, rejected ids -Inf) when Sample re-sampled (two draws)"""
    if "panic" in o:
        return [({"class": "panic", "path": "grammar"}, "Sample with a grammar panicked: %s" % o["panic"])]
    found = []
    n = len(c["logits"])
    rej = o["rejected"]
    masked = [NINF if rej[i] else b for i, b in enumerate(c["logits"])]
    for id_, err, used in zip(o["ids"], o["errs"], o["used"]):
        if err == "" and 0 <= id_ < n and rej[id_]:
            found.append(({"class": "grammar-rejected-token"}, "Sample returned token %d which the grammar rejects" % id_))
            continue
        resampled = used == 2 or (b2f(o["params"]["temp"]) == 0 and err == "" and 0 <= id_ < n and b2f(c["logits"][id_]) < max(b2f(b) for b in c["logits"]))
        src = masked if resampled else c["logits"]
        for sig, what in monitor_sample(ctx, {"logits": src}, {"params": o["params"], "ids": [id_], "errs": [err], "rs": [0]}):
            found.append((dict(sig, path="grammar-resample" if resampled else "grammar-first-pick"),
                          what + ("  [grammar: re-sampled under the mask; logits of the accepted ids: %r]" % [b2f(b) for b in masked if b != NINF][:8] if resampled else "  [grammar: first pick]")))
    return found


def render_grammar(c, o):
    if "panic" in o or "harness_error" in o:
        return [("harness answered (grammar)", "false")]
    rejected = zl([i for i, r in enumerate(o["rejected"]) if r])
    tab = tabl(o.get("exp") or [])
    calls = "[" + ";".join("(%s,%s,%s,%s,%s)" % (z(rs[0]), z(rs[1]), z(id_), cq_bool(err != ""), z(used))
                           for id_, err, used, rs in zip(o["ids"], o["errs"], o["used"], o["rs"])) + "]"
    return [("Sample_grammar", F("chk_grammar %s %s %s %s %s %s %s %s", tab, c["temp"], c["topk"], c["topp"], c["minp"], zl(c["logits"]), rejected, calls))]


def boundary_cases(cases, obs, rng, limit):
    """second pass: the same cases with draws next to the cumulative-probability boundaries of the implementation's own
    filtered distribution (where an off-by-one in the search or in a filter changes the returned token)"""
    out = []
    order = list(range(len(cases)))
    rng.shuffle(order)
    order.sort(key=lambda i: cases[i]["klass"].startswith(("extreme", "exhaustive")))   # random classes first
    for i in order:
        c, o = cases[i], obs[i]
        if len(out) >= limit:
            break
        st = o.get("stages") if isinstance(o, dict) else None
        if c["op"] != "sample" or not isinstance(st, dict) or "minp" not in st or len(st["minp"]) < 2:
            continue
        if rng.random() > 0.6:
            continue
        probs = [b2f(t["b"]) for t in st["minp"]]
        if any(x != x for x in probs):
            continue
        cum, s = [], 0.0
        for x in probs:
            s = r32(s + x)
            cum.append(s)
        if not (s > 0) or s == float("inf"):
            continue
        ds = set()
        for cv in rng.sample(cum, min(len(cum), 3)):
            d = int(cv / s * (1 << 24))
            for dd in (d - 1, d, d + 1):
                if 0 <= dd < (1 << 24):
                    ds.add(dd)
        c2 = dict(c)
        c2["draws"] = sorted(ds)[:6]
        c2["klass"] = c["klass"] + "+boundary"
        out.append(c2)
    return out


# ------------------------------------------------------------------ monitor: the property on the implementation's answers

def eff_temp(T):
    return max(T, b2f(0x33D6BF95))


def cause_of_error(logits, T):
    if any(v == float("inf") for v in logits):
        return "pos-inf-logit"
    if T > 0:
        Te = eff_temp(T)
        sc = [r32(v / Te) if abs(v) != float("inf") else v for v in logits]
        if max(sc) == float("inf"):
            return "scaled-logit-overflows-to-pos-inf"
        if all(x == float("-inf") for x in sc):
            return "all-scaled-logits-overflow-to-neg-inf"
    return "other"


def filter_margins(logits, idv, T, k, p, mp):
    """real-arithmetic necessary conditions for membership of a token with logit idv in the top-p prefix and the min-p set
    (computed on the descending list of the top-k values); returns (lower bound of the mass strictly before the token,
    upper bound of prob(token)/prob(max)) or None when the magnitudes make the float64 evaluation meaningless"""
    n = len(logits)
    vals = sorted(logits, reverse=True)
    if 0 < k < n:
        vals = vals[:k]
    Te = eff_temp(T)
    if vals[0] == float("inf") or idv == float("-inf"):
        return None
    big = max(abs(v / Te) for v in vals if v != float("-inf"))
    if not (big < 1e30):
        return None
    delta = big * 2.0 ** -21 + 1e-37
    eps = 1e-5
    lo = hi = 0.0
    num_lo = 0.0
    for v in vals:
        if v == float("-inf"):
            continue
        x = (v - vals[0]) / Te
        wl = math.exp(max(x - delta, -745.0)) * (1 - eps) if x - delta > -745 else 0.0
        wh = math.exp(min(x + delta, 0.0)) * (1 + eps)
        if v > idv:
            num_lo += wl
        else:
            hi += wh
    mass_gt_lo = num_lo / (num_lo + hi) if num_lo + hi > 0 else 0.0
    xi = (idv - vals[0]) / Te
    ratio_hi = math.exp(min(xi + 2 * delta, 0.0)) * (1 + 4 * eps)
    return mass_gt_lo, ratio_hi


def monitor_sample(ctx, c, o, report=True):
    """returns the list of (sig, what) the property demands be reported for this case"""
    found = []
    logits = [b2f(b) for b in c["logits"]]
    n = len(logits)
    if "panic" in o:
        found.append(({"class": "panic"}, "Sample panicked: %s" % o["panic"]))
        return found
    pr = o["params"]
    T, k, p, mp = b2f(pr["temp"]), pr["topk"], b2f(pr["topp"]), b2f(pr["minp"])
    has_nan = any(v != v for v in logits)
    params_ok = all(x == x and abs(x) != float("inf") for x in (T, p, mp))
    some_finite = any(is_fin_b(b) for b in c["logits"])
    for id_, err, rb in zip(o["ids"], o["errs"], o["rs"]):
        if err == "" and not (0 <= id_ < n):
            found.append(({"class": "out-of-vocabulary"}, "Sample returned id %d for %d logits" % (id_, n)))
            continue
        if n == 0 or has_nan or not params_ok:
            continue
        if err != "":
            if some_finite:
                found.append(({"class": "error-instead-of-token", "cause": cause_of_error(logits, T)},
                              "Sample returned the error %r although some logit is finite (temperature %r)" % (err, T)))
            continue
        v = logits[id_]
        if some_finite and v == float("-inf"):
            found.append(({"class": "neg-inf-token"}, "Sample returned token %d whose logit is -Inf although some logit is finite" % id_))
        if T == 0:
            if v < max(logits):
                found.append(({"class": "greedy-not-max"}, "temperature 0 returned token %d (logit %r), the maximum is %r" % (id_, v, max(logits))))
            continue
        if 0 < k < n and sum(1 for x in logits if x > v) >= k:
            found.append(({"class": "outside-top-k"}, "token %d (logit %r) has %d strictly larger logits, top-k is %d" % (id_, v, sum(1 for x in logits if x > v), k)))
            continue
        fm = filter_margins(logits, v, T, k, p, mp)
        if fm is None:
            continue
        mass_gt_lo, ratio_hi = fm
        if p < 1.0 and mass_gt_lo > p + 1e-5 + n * 1e-7:
            found.append(({"class": "outside-top-p"}, "token %d: the tokens with strictly larger logits already carry probability >= %.7f > top-p %.7f" % (id_, mass_gt_lo, p)))
        if ratio_hi < mp * (1 - 1e-5):
            found.append(({"class": "outside-min-p"}, "token %d: prob/maxprob <= %.3e < min-p %.7f" % (id_, ratio_hi, mp)))
    return found


def monitor_seed(ctx, c, o):
    found = []
    if "panic" in o:
        return [({"class": "panic"}, "Sample panicked: %s" % o["panic"])]
    if o.get("seeded") and (o["a"] != o["b"] or o["ea"] != o["eb"]):
        found.append(({"class": "not-reproducible"}, "two samplers with seed %d gave %r and %r on the same logit stream" % (c["seed"], o["a"], o["b"])))
    pr = o["params"]
    for logits, id_, err in zip(c["stream"], o["a"], o["ea"]):
        sub = {"logits": logits}
        found += monitor_sample(ctx, sub, {"params": pr, "ids": [id_], "errs": [err], "rs": [0]})
    return found


# ------------------------------------------------------------------ rendering of Coq terms

def z(x):
    x = int(x)
    return str(x) if x >= 0 else "(%d)" % x


def F(fmt, *a):
    return fmt % tuple(z(x) if isinstance(x, int) and not isinstance(x, bool) else x for x in a)


def zl(l):
    return "[" + ";".join(z(x) for x in l) + "]" if l else "(@nil Z)"


def bt(l):
    return "[" + ";".join("(%s,%s)" % (z(t["id"]), z(t["b"])) for t in l) + "]" if l else "(@nil (Z*Z))"


def tabl(l):
    return "[" + ";".join("(%s,%s)" % (z(a), z(b)) for a, b in l) + "]" if l else "(@nil (Z*Z))"


CASE_HEAD = ["F32.bits", "NewSampler", "greedy"]
CASE_STAGES = ["topK", "temperature", "softmax", "topP", "minP"]


def structure_ok(o):
    """what the compact encoding assumes, checked on the full lists: every stage carries the ids of topK's output along
    unchanged, topP's output is a prefix of softmax's and minP's a prefix of topP's"""
    st = o.get("stages")
    if not isinstance(st, dict) or "topk" not in st:
        return True
    ids = [t["id"] for t in st["topk"]]
    if [t["id"] for t in st["scaled"]] != ids or [t["id"] for t in st["soft"]] != ids:
        return False
    return st["topp"] == st["soft"][:len(st["topp"])] and st["minp"] == st["topp"][:len(st["minp"])]


def render_sample(c, o):
    """-> (names of the verdicts, one Coq term of type list bool)"""
    if "panic" in o or "harness_error" in o or (isinstance(o.get("stages"), dict) and "panic" in o["stages"]):
        return ["harness answered"], "[false]"
    pr, st = o["params"], o.get("stages") or {}
    logits = c["logits"]
    has_nan = any(is_nan_b(b) for b in logits)
    staged = "topk" in st
    names = list(CASE_HEAD) + (CASE_STAGES if staged else [])
    for _ in o["ids"]:
        names += (["pick", "after_topk"] if staged else []) + ["Sample"]
    vals = lambda l: zl([t["b"] for t in l])
    tab = st.get("exp") or []
    draws = "[" + ";".join("(%s,%s,%s)" % (z(r), z(i), cq_bool(e != "")) for i, e, r in zip(o["ids"], o["errs"], o["rs"])) + "]" if o["ids"] else "(@nil (Z*Z*bool))"
    term = F("chk_case %s %s %s %s %s %s %s %s %s %s %s %s %s %s %s %s %s %s %s %s %s %s",
             cq_bool(has_nan), cq_bool(staged), zl(logits), c["temp"], c["topk"], c["topp"], c["minp"], pr["temp"], pr["topk"], pr["topp"], pr["minp"],
             st["greedy"]["id"] if "greedy" in st else 0,
             zl([t["id"] for t in st.get("topk", [])]), vals(st.get("topk", [])), vals(st.get("scaled", [])), vals(st.get("soft", [])),
             zl([b for _, b in tab[:4]]), zl([a for a, _ in tab[4:]]), zl([b for _, b in tab[4:]]),
             len(st.get("topp", [])), len(st.get("minp", [])), draws)
    return names, term


def render_seed(c, o):
    if "panic" in o or "harness_error" in o:
        return [("harness answered", "false")]
    if any(is_nan_b(b) for l in c["stream"] for b in l):
        return []
    tabs = "[" + ";".join(tabl(t or []) for t in o["exp"]) + "]" if o["exp"] else "(@nil (list (Z*Z)))"
    stream = "[" + ";".join(zl(l) for l in c["stream"]) + "]"
    return [("Sample_stream", F("chk_stream %s %s %s %s %s %s %s %s %s", 
        tabs, c["temp"], c["topk"], c["topp"], c["minp"], stream, zl(o["rs"]), zl(o["a"]),
        cq_list([cq_bool(e != "") for e in o["ea"]], "bool")))]


def model_term(c, o, name):
    if c["op"] == "seed":
        return None
    pr = o.get("params", {})
    if name == "Sample" and o.get("rs"):
        tab = tabl(o["stages"]["exp"]) if isinstance(o.get("stages"), dict) and "exp" in o["stages"] else "[]"
        return F("Sample (E_tab %s) (new_sampler (fb %s) %s (fb %s) (fb %s)) (map fb %s) (fb %s)", tab, c["temp"], c["topk"], c["topp"], c["minp"], zl(c["logits"]), o["rs"][0])
    return None


# ------------------------------------------------------------------ exp oracle hypotheses, tested on every table entry

def exp_hypotheses(tables):
    bad, n = [], 0
    ents = {}
    for t in tables:
        for a, b in t or []:
            ents[a] = b
    for a, b in ents.items():
        n += 1
        x, e = b2f(a), b2f(b)
        if x != x:
            if e == e:
                bad.append((a, b, "exp(NaN) not NaN"))
            continue
        if x == float("-inf") and b != 0:
            bad.append((a, b, "exp(-Inf) is not +0"))
        if x == 0 and b != 0x3F800000:
            bad.append((a, b, "exp(0) is not 1"))
        if x <= 0 and not (0.0 <= e <= 1.0):
            bad.append((a, b, "exp(x<=0) outside [0,1]"))
        if x <= 0 and (b >> 31):
            bad.append((a, b, "exp(x) is -0"))
    srt = sorted((b2f(a), b2f(b)) for a, b in ents.items() if b2f(a) == b2f(a))
    for (x1, e1), (x2, e2) in zip(srt, srt[1:]):
        if e1 > e2:
            bad.append((x1, x2, "exp not monotone"))
    return n, bad


# ------------------------------------------------------------------ shrinking

def shrink(ctx, binp, c, sig):
    """smallest logit vector / single draw on which the implementation still shows a violation with the same signature"""
    def fails_case(cc):
        obs, _ = ctx.run_jsonl(binp, [cc])
        if not obs:
            return False
        return any(s == sig for s, _ in monitor_sample(ctx, cc, obs[0]))
    if c["op"] != "sample":
        return c
    best = dict(c)
    for d in c["draws"]:
        cc = dict(best, draws=[d])
        if fails_case(cc):
            best = cc
            break
    idx = list(range(len(best["logits"])))
    if len(idx) > 1:
        keep = vlib.ddmin(idx, lambda sub: fails_case(dict(best, logits=[best["logits"][i] for i in sub])), max_tests=120)
        best = dict(best, logits=[best["logits"][i] for i in keep])
    return best


# ------------------------------------------------------------------ search around a disagreement

def search_around(ctx, binp, c):
    """model and implementation disagree on c but the monitor is silent: look for a nearby case (same logits, other
    draws and parameters; sub-vectors; scaled logits) on which the property itself fails on the implementation"""
    if c.get("op") != "sample" or not c.get("logits"):
        return None
    rng = ctx.rng
    muts = []
    logits = c["logits"]
    draws = [0, 1, (1 << 24) - 1, (1 << 24) - 2, 1 << 23, 1 << 22, 3 << 22] + [rng.randrange(1 << 24) for _ in range(5)]
    for t in (c["temp"], f2b(1.0), f2b(0.3), f2b(0.0)):
        for k in (c["topk"], 0, 1, 2):
            for p in (c["topp"], f2b(0.5), f2b(1.0)):
                for mp in (c["minp"], f2b(0.3), f2b(1.0)):
                    muts.append(dict(c, temp=t, topk=k, topp=p, minp=mp, draws=draws, klass="search"))
    for _ in range(20):
        sub = [b for b in logits if rng.random() < 0.6] or logits[:1]
        muts.append(dict(c, logits=sub, draws=draws, klass="search"))
    # every filter off / greedy, with -Inf or an extreme finite value planted at the ends, draws exactly 0 and 1-2^-24
    for v in (logits, [NINF] + logits, logits + [NINF], [NINF] + logits + [NINF], [NINF, 0xFF7FFFFF], [0xFF7FFFFF, NINF], [NINF] * 3 + logits[:1]):
        for t in (c["temp"], f2b(1.0), f2b(1e-9)):
            muts.append(nofilter(v, "search", draws=[0, 1, (1 << 24) - 1, (1 << 24) - 2], t=b2f(t) if b2f(t) > 0 else 1.0))
        muts.append(greedy_case(v, "search"))
        muts.append(greedy_case([0xFF7FFFFF if b != NINF else b for b in v], "search"))
    obs, _ = ctx.run_jsonl(binp, muts)
    if not obs or len(obs) != len(muts):
        return None
    for m, o in zip(muts, obs):
        found = monitor_sample(ctx, m, o)
        if found:
            return m, o, found[0]
    return None


# ------------------------------------------------------------------ the check

def evaluate(ctx, binp, cases, tag):
    obs, err = ctx.run_jsonl(binp, cases)
    if obs is None or len(obs) != len(cases):
        ctx.obligation("harness c18 answered every case (%s)" % tag, False, err)
        ctx.proof_failures.append({"obligation": "correspondence: harness c18 did not answer every case", "detail": err})
        return None
    items, owner = [], []
    shrunk = set()
    tables = []
    for ci, (c, o) in enumerate(zip(cases, obs)):
        if c["op"] == "sample":
            found = monitor_sample(ctx, c, o)
            names, term = render_sample(c, o)
            its = [(names, "all_true (%s)" % term, term)] if not c.get("nocoq") else []
            ok_tok = any(e == "" for e in o.get("errs", []))
            st = o.get("stages")
            if isinstance(st, dict) and "exp" in st:
                tables.append(st["exp"])
            if not structure_ok(o):
                ctx.mismatch("stage outputs keep the ids of topK's output / topP and minP return prefixes", c, o)
            nontriv = ok_tok and len(c["logits"]) > 1 and b2f(o["params"]["temp"]) != 0 and isinstance(st, dict) and len(st.get("topk", [])) > 1
        elif c["op"] == "grammar":
            found = monitor_grammar(ctx, c, o) if "harness_error" not in o else []
            its = [([n_], t_, None) for n_, t_ in render_grammar(c, o)]
            if o.get("exp"):
                tables.append(o["exp"])
            nontriv = any(u == 2 for u in o.get("used", [])) and any(e == "" for e in o.get("errs", []))
            ctx.count("grammar-calls-resampled", sum(1 for u in o.get("used", []) if u == 2))
            ctx.count("grammar-calls-first-pick-accepted", sum(1 for u in o.get("used", []) if u == 1))
        else:
            found = monitor_seed(ctx, c, o)
            its = [([n_], t_, None) for n_, t_ in render_seed(c, o)]
            tables += o.get("exp") or []
            nontriv = bool(o.get("seeded")) and any(e == "" for e in o.get("ea", []))
        ctx.note_case({k: v for k, v in c.items() if k not in ("klass", "nocoq")}, nontriv, c["klass"], sample={"case": c, "impl": o} if ci % 50 == 7 else None)
        for sig, what in found:
            key = json.dumps(sig, sort_keys=True)
            if key not in shrunk and len(shrunk) < 6 and c["op"] == "sample":
                shrunk.add(key)
                cmin = shrink(ctx, binp, c, sig)
                om, _ = ctx.run_jsonl(binp, [cmin])
                omin = om[0] if om else None
                whats = [w for s_, w in monitor_sample(ctx, cmin, omin) if s_ == sig] if omin else []
                ctx.violation(sig, whats[0] if whats else what,
                              {"case": cmin, "impl": omin, "original_case": c, "logits_as_floats": [b2f(b) for b in cmin["logits"]],
                               "parameters_as_floats": {k_: b2f(cmin[k_]) for k_ in ("temp", "topp", "minp")}})
            else:
                ctx.violation(sig, what, {"case": c, "impl": o})
        for names, term, detail in its:
            items.append(term)
            owner.append((ci, names, detail))
            ctx.extra["comparisons"] = ctx.extra.get("comparisons", 0) + len(names)
    ctx.log("%s: %d cases run and monitored, %d coq items" % (tag, len(cases), len(items)))
    bad, log = ctx.coq_eval(HEADER, items, per_file=60, name="cases_" + tag)
    ctx.log("%s: coq evaluation done" % tag)
    if bad is None:
        ctx.obligation("correspondence: model evaluated on all cases (%s)" % tag, False, log)
        ctx.proof_failures.append({"obligation": "correspondence evaluation failed in coqc", "detail": log})
        return obs
    ctx.disagreements_checked += sum(len(n_) for _, n_, _ in owner)
    ctx.obligation("correspondence (%s): model = implementation on %d stage/Sample comparisons of %d cases" % (tag, sum(len(n_) for _, n_, _ in owner), len(cases)), not bad)
    for i in bad[:12]:
        ci, names, detail = owner[i]
        failed, shown = names, None
        if detail is not None:
            out = ctx.coq_print(HEADER, detail)
            verdicts = re.findall(r"\b(true|false)\b", out.split("=", 1)[1].split(":")[0]) if "=" in out else []
            if len(verdicts) == len(names):
                failed = [n_ for n_, v_ in zip(names, verdicts) if v_ == "false"]
            if len(ctx.mismatches) < 2:
                mt = model_term(cases[ci], obs[ci], "Sample")
                shown = ctx.coq_print(HEADER, mt) if mt else None
        for n_ in sorted(set(failed)):
            ctx.count("mismatch:" + n_)
        if not ctx.violations and ctx.extra.get("searches_around_disagreements", 0) < 5:
            ctx.extra["searches_around_disagreements"] = ctx.extra.get("searches_around_disagreements", 0) + 1
            hit = search_around(ctx, binp, cases[ci])
            if hit:
                m_, o_, (sig_, what_) = hit
                ctx.violation(sig_, what_ + "  (found by searching around a model/implementation disagreement at %s)" % sorted(set(failed)),
                              {"case": m_, "impl": o_, "disagreeing_case": cases[ci]})
        ctx.mismatch("Sample/Corr: model and implementation differ at %s" % sorted(set(failed)), cases[ci], obs[ci], shown)
    draws_seen = [r for o in obs if isinstance(o, dict) for x in (o.get("rs") or []) for r in (x if isinstance(x, list) else [x])]
    bad_draws = [r for r in draws_seen if not (0.0 <= b2f(r) < 1.0)]
    ctx.obligation("hypothesis draw_ok: the %d draws rng.Float32() delivered are numbers in [0,1) (%s)" % (len(draws_seen), tag), not bad_draws, str(bad_draws[:5]))
    if bad_draws:
        ctx.proof_failures.append({"obligation": "hypothesis draw_ok fails for rng.Float32()", "detail": bad_draws[:10]})
    n, badexp = exp_hypotheses(tables)
    ctx.extra["exp_table_entries_" + tag] = n
    ctx.obligation("exp oracle hypotheses (exp(-Inf)=+0, exp(0)=1, 0<=exp(x)<=1 for x<=0, monotone) hold on the %d table entries (%s)" % (n, tag), not badexp, str(badexp[:5]))
    if badexp:
        ctx.proof_failures.append({"obligation": "hypothesis on the exp oracle fails for math.Exp", "detail": badexp[:10]})
    return obs


def exp_probe(ctx, binp):
    """the hypotheses the theorems make on the exp oracle, tested against the real math.Exp on edge values and random
    non-positive arguments (what softmax can pass: differences x - max <= 0, -Inf, NaN)"""
    rng = ctx.rng
    xs = [0, 1 << 31, NINF, QNAN, 0xFFC00000, f2b(-1e-45), f2b(-1e-38), f2b(-87.3), f2b(-87.4), f2b(-103.9), f2b(-104.0), f2b(-1e30), 0xFF7FFFFF, (1 << 31) | 1]
    n = 3000 if ctx.quick() else 60000
    for _ in range(n):
        u = rng.random()
        if u < 0.4:
            xs.append(f2b(-abs(rng.gauss(0, 10))))
        elif u < 0.7:
            xs.append(f2b(-10 ** rng.uniform(-45, 39)))
        else:
            xs.append((1 << 31) | rng.randrange(0, 0x7F800001))   # any non-positive number incl. -0 and -Inf
    obs, err = ctx.run_jsonl(binp, [{"op": "exp", "xs": xs}])
    if not obs or "exp" not in obs[0]:
        ctx.obligation("exp probe answered", False, err)
        ctx.proof_failures.append({"obligation": "exp probe did not answer", "detail": err})
        return
    n, bad = exp_hypotheses([obs[0]["exp"]])
    ctx.extra["exp_probe_points"] = n
    ctx.obligation("hypotheses on the exp oracle (exp_oracle_ok: exp(-Inf)=+0, exp(+-0)=1, exp(NaN)=NaN, 0<=exp(x)<=1 for x<=0; monotone) hold for "
                   "float32(math.Exp(float64(x))) on %d probed arguments" % n, not bad, str(bad[:5]))
    if bad:
        ctx.proof_failures.append({"obligation": "hypothesis on the exp oracle fails for math.Exp", "detail": bad[:10]})


def run(ctx):
    ctx.rule = ("cases: logit vectors of length 1..200 (thorough: ..600) of the classes normal / ties (incl. +-0) / -Inf mask / all -Inf / +Inf / huge magnitudes "
                "/ subnormals / neighbouring floats / concentrated mass / NaN / arbitrary bit patterns, crossed with temperature (0, -0, negative, below 1e-7, "
                "..., 3e38), top-k (<=0, 1, n-1, n, n+1, ...), top-p and min-p (0, 1, out of range, ...), 2-4 scripted draws each (0, 1-2^-24, random) plus a "
                "second pass with draws next to the cumulative-sum boundaries; exhaustively every vector of length 1..4 over {-Inf, -MaxFloat32, -MaxFloat32/2, min subnormal, "
                "+-0, MaxFloat32, +Inf} on the greedy path and with every filter off (draws exactly 0, 2^-24, 1-2^-24, 1/2); -Inf vectors with one finite entry; "
                "-Inf planted first/last with all filters off; grammar-constrained calls with the real llama.cpp grammar sampler (65-token vocabulary, grammar root ::= [accept]+, "
                "unsorted / ascending logits, top_k in {0,-1,n,n+1,...}, arg-max rejected, -Inf logits, draw pairs incl. exactly 0); seeded streams of 2-8 vectors.  non-trivial = temperature > 0, more than one "
                "token survives top-k and a token is returned (seed: seeded and a token returned); distinct = by canonical JSON of the case")
    ctx.trusted = ["Coq 8.16.1 kernel + vm_compute", "Coq standard library SpecFloat (binary32 arithmetic of the model) and Flocq 4.1 BinarySingleNaN (its correctness theorems)",
                   "hand-written model coq/Sample/Model.v, tied to sample/samplers.go and sample/transforms.go by this differential run only",
                   "exp is an oracle: the model looks float32(math.Exp(float64(x))) up in a table written by the harness; hypotheses on it are tested on every table entry",
                   "Go harness harness/cmd/c18 and overlay export harness/overlay/sample/c18.go (add-only, build tag verif; scripted rand.Source)",
                   "python generator and monitor (props/c18.py); math/rand/v2, container/heap, slices.SortFunc are not modelled (topK is compared by value)"]
    ctx.assumptions = ["logits contain no NaN and temperature/top-p/min-p are numbers (not NaN; temperature not infinite) in the theorems and in the monitor's token clauses; with NaN only 'no panic, id in range' is demanded (stages are still compared exactly)",
                       "exp oracle: values in [0,1] on non-positive arguments, exp(+-0)=1, exp(-Inf)=+0, exp(NaN)=NaN, monotone on non-positive arguments - tested on every table entry and on the probe, not proved",
                       "grammar: the set of ids the grammar rejects is an oracle of the model (read off the real llama.cpp grammar sampler by the harness); grammar cases use pairwise distinct finite logits (with equal logits the unspecified tie order of topK would decide between the fast and the re-sample path)",
                       "topK tie order is not predicted (pdqsort / heap): compared by value and membership; the theorems hold for every legal tie order",
                       "the model describes /repo with fixes/C18-softmax-overflow.patch applied"]
    ctx.proof_stage(["Sample"], "Sample/Properties_C18.v", extra_targets=["Sample/Corr.v"])
    binp = ctx.go_build("c18")
    if not binp:
        return
    exp_probe(ctx, binp)
    cases = gen_cases(ctx)
    ctx.log("generated %d cases" % len(cases))
    obs = evaluate(ctx, binp, cases, "pass1")
    if obs is None:
        return
    # reproducibility across processes: the seeded streams once more, in a fresh process
    seeded = [(c, o) for c, o in zip(cases, obs) if c["op"] == "seed" and isinstance(o, dict) and o.get("seeded")]
    if seeded:
        again, err = ctx.run_jsonl(binp, [c for c, _ in seeded])
        ok = again is not None and len(again) == len(seeded)
        ctx.obligation("seeded streams re-run in a second process (%d streams)" % len(seeded), ok, err if not ok else "")
        if ok:
            for (c, o), o2 in zip(seeded, again):
                if o.get("a") != o2.get("a") or o.get("ea") != o2.get("ea"):
                    ctx.violation({"class": "not-reproducible", "across": "processes"},
                                  "seed %d gave %r in one process and %r in another on the same logit stream" % (c["seed"], o.get("a"), o2.get("a")),
                                  {"case": c, "impl": o, "impl_second_process": o2})
    more = boundary_cases(cases, obs, ctx.rng, 250 if ctx.quick() else 4000)
    if more:
        evaluate(ctx, binp, more, "boundary")
    if not ctx.quick():
        ctx.coqchk(["V.Sample.Properties_C18"])


def replay(ctx, path):
    r = json.load(open(path))
    ctx.log("replaying", path)
    binp = ctx.go_build("c18")
    if not binp:
        return
    cases = []
    rp = r.get("replay") or {}
    if isinstance(rp, dict) and "case" in rp:
        cases.append(rp["case"])
    for d in r.get("disagreements", []):
        cases.append(d["case"])
    for c in cases:
        c.setdefault("klass", "replay")
    if cases:
        obs = evaluate(ctx, binp, cases, "replay")
        ctx.log("implementation:", json.dumps(obs)[:3000])


MANIFEST = {
    "property_id": "C18",
    "quick_cmd": "python3 check.py C18 --tier quick",
    "thorough_cmd": "python3 check.py C18 --tier thorough",
    "evidence_file": "evidence/C18.json",
    "replay_cmd_template": "python3 check.py C18 --replay {path}",
    "engine": "coq-model+go-differential",
    "level_claimed": {
        "category": "proof",
        "text": "Coq theorems over an executable model of sample/samplers.go + sample/transforms.go with exact IEEE binary32 arithmetic (Coq SpecFloat at precision 24; "
                "rounding facts from Flocq), for every vector of float32 numbers (finite, +-0, subnormal, +-Inf; no NaN), every integer top-k, every number "
                "temperature (not infinite) / top-p / min-p, every draw in [0,1] and every legal tie order of topK: Sample returns a token inside the vocabulary "
                "whose logit is not -Inf whenever some logit is not -Inf; temperature <= 0 returns a highest-logit token; otherwise the token lies in the top-k "
                "list, the top-p prefix and the min-p set as the code computes them (and these are the textbook sets: probabilities descending, cuts exact); "
                "no index is ever out of range; all -Inf gives the NaN error; a stream of calls is a function of parameters, logits and the generator's draws. "
                "exp is an oracle (hypotheses tested against math.Exp on every run).  The hand-written model is tied to the code stage by stage (NewSampler, greedy, "
                "topK, temperature, softmax, topP, minP, cumulative sum + binary search, whole Sample, seeded streams) by a differential run evaluated inside Coq; "
                "the property is also monitored directly on Sample's answers.  The model describes the code with fixes/C18-softmax-overflow.patch.",
        "design_ref": "DESIGN.md section 5, C18",
    },
    "level_note": "Trusted: Coq kernel/vm_compute, SpecFloat/Flocq (standard-library real-number axioms), Go float32 = IEEE binary32 on amd64; the model-to-code tie is "
                  "differential testing (generator-bounded); exp oracle hypotheses are tested, not proved; NaN logits, NaN/infinite parameters and the grammar path are "
                  "outside the theorems (NaN inputs are still run: stages compared exactly, monitor demands no panic / id in range).",
    "technique": "Coq proof over an executable binary32 model + stage-wise model/implementation differential check + property monitor",
}
