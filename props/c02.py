"""C02 - every runner request is answered exactly once; queue full => busy error; the scheduler drains.

The machinery (steering harness, generator, monitors of the three scheduler properties, conformance rendering) is
shared with C01 and lives in props/c01.py.
"""
from props import c01 as base

SETUP_BUILDS = base.SETUP_BUILDS
COQ_TARGETS = ["Sched/Properties_C02.v", "Sched/Corr.v"]


def run(ctx):
    ctx.proof_stage([base.GROUP], "Sched/Properties_C02.v", extra_targets=["Sched/Corr.v"])
    if not ctx.quick():
        ctx.coqchk(["V.Sched.Properties_C02"])
    base.run_group(ctx, "C02")


def replay(ctx, path):
    ctx.proof_stage([base.GROUP], "Sched/Properties_C02.v", extra_targets=["Sched/Corr.v"])
    if not base.replay_group(ctx, "C02", path):
        base.run_group(ctx, "C02")


MANIFEST = dict(base.MANIFEST)
MANIFEST.update({
    "property_id": "C02",
    "quick_cmd": "python3 check.py C02 --tier quick",
    "thorough_cmd": "python3 check.py C02 --tier thorough",
    "evidence_file": "evidence/C02.json",
    "replay_cmd_template": "python3 check.py C02 --replay {path}",
})
MANIFEST["level_claimed"] = dict(base.MANIFEST["level_claimed"], design_ref="DESIGN.md section 5, C02; notes/C01.md")
