"""C17 - streaming, non-streaming and OpenAI-compatible responses carry the same result.

Tie (S): the REAL gin router (server.GenerateRoutes: handlers, scheduler loop, openai middlewares/writers) behind a real
net/http server, with a mock llm.LlamaServer that replays a chunk script (harness/cmd/c17, overlay server/c17.go), and the
REAL api.Client.  One case = one request shape + one model output + several splits of that output into runner chunks; every
split is sent through /api/generate or /api/chat (stream / non-stream, raw HTTP and api.Client) and /v1/completions or
/v1/chat/completions (stream, stream+usage, non-stream).
Monitor: the property itself on those observations (exactly one terminal per stream; every split and mode carries the same
text / tool calls / done reason / counts / context or the same error; the OpenAI views show the native result).
Correspondence: the Coq model (Stream/Model.v) is evaluated by vm_compute on the same script and compared record by record
with every observed response (Stream/Corr.v); the real parseToolCalls enters the model as a table of its answers.
"""
import glob
import json
import os
import subprocess
import threading

from lib import vlib
from lib.vlib import cq_bytes, cq_list, cq_bool, cq_Z, cq_N, cq_nat

SETUP_BUILDS = [{"name": "c17"}]
COQ_TARGETS = ["Stream/Properties_C17.v", "Stream/Corr.v"]
HEADER = ("From Coq Require Import List NArith ZArith Bool.\nFrom V Require Import Common.Bytes Stream.Model Stream.Corr.\n"
          "Import ListNotations.\n")
MAXBUF = 512000  # api/client.go maxBufferSize = 512 * format.KiloByte
ALL_MODES = ["st", "ns", "cst", "cns", "v1st", "v1stu", "v1ns"]
STREAM_MODES = ("st", "cst", "v1st", "v1stu")


def hx(s):
    return (s.encode() if isinstance(s, str) else s).hex()


def uh(h):
    return bytes.fromhex(h)


# ------------------------------------------------------------------------------------------------ harness process

class Harness:
    """one conversational harness process (set-up of the model store is paid once)"""

    def __init__(self, binp, tmp):
        env = vlib.goenv()
        env["TMPDIR"] = tmp
        self.errf = open(os.path.join(tmp, "c17.stderr"), "w")
        self.p = subprocess.Popen([binp], stdin=subprocess.PIPE, stdout=subprocess.PIPE, stderr=self.errf, text=True, env=env, cwd=tmp)
        self.n = 0

    def ask(self, case, timeout=120):
        t = threading.Timer(timeout, self.p.kill)
        t.start()
        try:
            self.p.stdin.write(json.dumps(case) + "\n")
            self.p.stdin.flush()
            line = self.p.stdout.readline()
        finally:
            t.cancel()
        self.n += 1
        if not line:
            raise RuntimeError("harness c17 died or timed out on " + json.dumps(case)[:300])
        return json.loads(line)

    def close(self):
        try:
            self.p.stdin.close()
            self.p.wait(timeout=20)
        except Exception:
            self.p.kill()
        self.errf.close()


# ------------------------------------------------------------------------------------------------ generator

WORDS = ["Hello", " world", "!", " été", "€", "\U0001F600", "\n", " the", " {", "}", "\"", " a", "1", ",", ":", " [", "]", "<", "&", "\\"]
NAMES = ["get_weather", "f", "a", "b"]
ARGS = ['{}', '{"x":1}', '{"city":"Paris"}', '{"n":{"k":[1,2]}}', '{"s":"a}b{"}', '{"q":"é"}']
SEPS = ["", " ", "\n", "; ", ", ", " and "]


def rnd_text(rng, n):
    return "".join(rng.choice(WORDS) for _ in range(n))


def call_json(rng, key):
    sp = rng.choice(["", " "])
    if rng.random() < 0.5:
        return '{"name":%s"%s",%s"%s":%s%s}' % (sp, rng.choice(NAMES), sp, key, sp, rng.choice(ARGS))
    return '{"%s":%s%s,%s"name":%s"%s"}' % (key, sp, rng.choice(ARGS), sp, sp, rng.choice(NAMES))


TOOL_TEXT_CLASSES = ["one", "pre", "post", "two", "two", "three", "array", "nested", "nomatch", "none", "trunc", "wrongkey", "prepost", "dup2", "dup3", "dupmix", "dupmix"]


def tool_text(rng, model):
    """-> (class, text, bounds): bounds = character positions where one part (text / call / separator) ends and the next begins"""
    key = "arguments" if model == "tools" else "parameters"
    other = "parameters" if model == "tools" else "arguments"
    k = rng.choice(TOOL_TEXT_CLASSES)
    c = lambda: call_json(rng, key)
    txt = lambda a, b: rnd_text(rng, rng.randint(a, b))
    if k == "one":
        parts = [c()]
    elif k == "pre":
        parts = [txt(1, 3), c()]
    elif k == "post":
        parts = [c(), txt(1, 3)]
    elif k == "prepost":
        parts = [txt(1, 2), c(), txt(1, 2)]
    elif k == "two":
        parts = [c(), rng.choice(SEPS), c()]
    elif k == "three":
        parts = [c(), rng.choice(SEPS), c(), rng.choice(SEPS), c()]
    elif k in ("dup2", "dup3", "dupmix"):
        # the same call (same name, same arguments, same spelling) more than once, possibly with another call in between
        a, b, sep = c(), c(), rng.choice(["\n", " ", "", "; "])
        parts = {"dup2": [a, sep, a], "dup3": [a, sep, a, sep, a], "dupmix": [a, sep, b, sep, a]}[k]
    elif k == "array":
        parts = ["[", c(), ",", c(), "]"]
    elif k == "nested":
        parts = ['{"tool_calls":[', c(), ",", c(), "]}"]
    elif k == "nomatch":
        parts = ['{"foo":1}', rng.choice(SEPS), c()]
    elif k == "none":
        parts = [rng.choice([txt(0, 4), '{"x":{"y":1}}', '{"name":"a"}', "[1,2]", '"str"', "null true 12"])]
    elif k == "trunc":
        t = c()
        parts = [t[: rng.randint(1, len(t) - 1)]]
    else:
        parts = [call_json(rng, other)]
    bounds, pos = [], 0
    for part in parts[:-1]:
        pos += len(part)
        bounds.append(pos)
    return k, "".join(parts), bounds


def split_text(text, cuts):
    """cuts: sorted character positions; empty pieces are dropped (llm.Completion never forwards empty content)"""
    out, last = [], 0
    for c in list(cuts) + [len(text)]:
        if c > last:
            out.append(text[last:c])
            last = c
    return out


def gen_splits(rng, text, k, tools, bounds=()):
    n = len(text)
    res = [split_text(text, [])]
    if bounds:
        # every part (each call, each separator) in a chunk of its own; and each call together with what follows it
        res.append(split_text(text, sorted(set(bounds))))
        if len(bounds) >= 2 and k > 3:
            res.append(split_text(text, sorted(set(bounds[1::2]))))
    if 1 < n <= 48:
        res.append(split_text(text, range(1, n)))
    while len(res) < k and n > 1:
        r = rng.random()
        if tools and r < 0.45:
            # cuts planted after a closing brace plus a few characters (an object complete, the next one begun)
            ends = [i + 1 for i, ch in enumerate(text) if ch == "}"]
            cuts = set()
            for e in ends:
                if rng.random() < 0.6:
                    cuts.add(min(n, e + rng.choice([0, 0, 1, 2, 3, 5, 8])))
            cuts |= set(rng.randrange(1, n) for _ in range(rng.randint(0, 2)))
        else:
            cuts = set(rng.randrange(1, n) for _ in range(rng.randint(1, 5)))
        res.append(split_text(text, sorted(c for c in cuts if 0 < c < n)))
    return res[:k]


def gen_end(rng, kind):
    if kind == "done":
        return {"kind": "done", "reason": rng.choice([0, 0, 0, 1, 1, 2]), "content": "", "pc": rng.randint(0, 40), "ec": rng.randint(0, 300), "err": ""}
    if kind == "done-content":
        return {"kind": "done", "reason": rng.choice([0, 1]), "content": hx(rng.choice(["!", " end", "é"])), "pc": rng.randint(1, 40), "ec": rng.randint(1, 300), "err": ""}
    if kind == "error":
        return {"kind": "error", "reason": 0, "content": "", "pc": 0, "ec": 0, "err": hx(rng.choice(["boom", "an error was encountered while running the model: EOF", "context canceled", "x\"y"]))}
    return {"kind": "silent", "reason": 0, "content": "", "pc": 0, "ec": 0, "err": ""}


def gen_case(rng, nsplits):
    kind = rng.choice(["generate", "chat", "chat", "chat"])
    c = {"op": "run", "kind": kind, "format": rng.choice(["", "", "json"]), "stop": rng.random() < 0.3, "raw": False, "tools": False,
         "tokfail": False, "prompt": hx(rng.choice(["hi", "Why is the sky blue?", "a b  c"]))}
    endk = rng.choice(["done"] * 6 + ["error"] * 3 + ["silent", "done-content"])
    if kind == "generate":
        c["model"] = rng.choice(["plain", "tools"])
        c["raw"] = rng.random() < 0.3
        tclass, text, bounds = "text", rnd_text(rng, rng.randint(0, 6)), []
        if endk == "done" and not c["raw"] and rng.random() < 0.15:
            c["tokfail"] = True
    else:
        r = rng.random()
        if r < 0.25:
            c["model"], c["tools"] = rng.choice(["plain", "tools"]), False
            if rng.random() < 0.5:
                tclass, text, bounds = "text", rnd_text(rng, rng.randint(0, 6)), []
            else:
                tclass, text, bounds = tool_text(rng, "tools")
        else:
            c["model"], c["tools"] = rng.choice(["tools", "tools", "tools2"]), True
            tclass, text, bounds = tool_text(rng, c["model"])
    if c["tools"] and endk == "done-content":
        endk = "done"   # the final runner response carries no content (llm/server.go Completion); off-contract only without tools
    c["end"] = gen_end(rng, endk)
    if c["tools"] and c["end"]["reason"] == 2:
        c["end"]["reason"] = 0
    c["text"] = text
    c["splits"] = [[hx(p) for p in s] for s in gen_splits(rng, text, nsplits, c["tools"], bounds if c["tools"] else ())]
    c["klass"] = "%s/%s%s/%s/%s" % (kind, c["model"], "+tools" if c["tools"] else "", tclass, endk + ("+tokfail" if c["tokfail"] else ""))
    toolshaped = kind == "chat" and not c["tools"] and tclass != "text"
    if rng.random() < (0.9 if toolshaped else 0.45):
        c["reqvar"] = gen_reqvar(rng, c, force_tools=toolshaped and c["model"] == "tools")
        if c["reqvar"]:
            c["klass"] += "/reqvar"
            for v in c["reqvar"]:
                c.setdefault("_varfields", []).append(v["path"])
    return c


def gen_reqvar(rng, c, force_tools=False):
    """fields that are PRESENT BUT EMPTY / NULL in the raw JSON request (api.Client cannot send them: omitempty; raw HTTP and other
    SDKs can): same request semantics as leaving the field out.  Only fields the case leaves unset are touched."""
    N, V = ["st", "ns"], ["v1st", "v1stu", "v1ns"]
    out = []

    def maybe(path, raws, modes, p=0.45):
        if rng.random() < p:
            out.append({"path": path, "raw": rng.choice(raws), "modes": modes})
    chat = c["kind"] == "chat"
    if chat and not c["tools"]:
        maybe("tools", ["[]", "[]", "null"], N, 1.0 if force_tools else 0.6)
        maybe("tools", ["[]", "null"], V, 0.8 if force_tools else 0.5)
    if c["format"] == "":
        maybe("format", ['""', "null"], N)
        if chat:
            maybe("response_format", ["null"], V)
    if not c["stop"]:
        r = rng.random()
        if r < 0.3:
            out.append({"path": "options", "raw": rng.choice(["null", "{}"]), "modes": N})
        elif r < 0.6:
            out.append({"path": "options.stop", "raw": rng.choice(["[]", "null"]), "modes": N})
        maybe("stop", ["[]", "null", '""'], V)
    maybe("stream", ["null"], ["st"], 0.3)
    maybe("stream", ["null"], ["v1ns"], 0.3)
    maybe("keep_alive", ["null"], N, 0.3)
    maybe("stream_options", ["null"], ["v1st", "v1ns"], 0.3)
    for f in ("max_tokens", "seed", "temperature"):
        maybe(f, ["null"], V, 0.2)
    if chat:
        maybe("messages.0.images", ["[]", "null"], N + V if False else N, 0.4)
        maybe("messages.0.tool_calls", ["[]", "null"], N, 0.3)
    else:
        maybe("images", ["[]", "null"], N, 0.4)
        maybe("suffix", ['""'], N + V, 0.4)
        maybe("system", ['""'], N, 0.3)
        maybe("template", ['""'], N, 0.3)
        maybe("context", ["[]", "null"], N, 0.3)
        if not c["raw"]:
            maybe("raw", ["null", "false"], N, 0.2)
    return out


def corpus_cases():
    out = []
    for p in sorted(glob.glob(os.path.join(vlib.VERIF, "corpus", "C17", "*.json"))):
        try:
            c = json.load(open(p))
            c["klass"] = "corpus/" + os.path.basename(p)[:-5]
            out.append(c)
        except Exception:
            pass
    return out


def cut_cases(rng, n):
    """transport faults: the connection is closed after k complete lines (+ part of the next one), the end of the body never arrives"""
    out = []

    def all_cuts(lines, klass, framings=("chunked", "length")):
        for fr in framings:
            for k in range(len(lines) + 1):
                extras = [0] if k == len(lines) else [0, -1, 1, lines[k]["len"] // 2, lines[k]["len"] - 1]
                for m in extras:
                    out.append({"op": "client", "status": 200, "lines": lines, "cut": {"lines": k, "extra": m, "framing": fr}, "klass": klass})
    all_cuts([{"kind": "msg", "len": 64}, {"kind": "msg", "len": 70}, {"kind": "done", "len": 80}], "client-cut/every-point")
    all_cuts([{"kind": "msg", "len": 64}, {"kind": "error", "len": 30}], "client-cut/every-point", ("chunked",))
    all_cuts([{"kind": "done", "len": 80}], "client-cut/every-point", ("chunked",))
    for _ in range(n):
        lines = [{"kind": rng.choice(["msg"] * 8 + ["garbage"]), "len": rng.choice([64, 65, 100, 4000])} for _ in range(rng.randint(0, 4))]
        lines.append({"kind": rng.choice(["done", "done", "error"]), "len": rng.choice([70, 90, 2000])})
        if rng.random() < 0.1:
            lines[rng.randrange(len(lines))]["len"] = rng.choice([MAXBUF - 1, MAXBUF, MAXBUF + 9])
        k = rng.randint(0, len(lines))
        m = 0 if k == len(lines) else rng.choice([0, 0, -1, -1, rng.randint(1, lines[k]["len"] - 1)])
        out.append({"op": "client", "status": rng.choice([200, 200, 200, 200, 500]), "lines": lines,
                    "cut": {"lines": k, "extra": m, "framing": rng.choice(["chunked", "chunked", "length"])}, "klass": "client-cut/random"})
    return out


def llm_cases(rng, n):
    """the real llm client (llmServer.Completion) against a scripted runner: how the runner's body ends"""
    out = []
    C = lambda t: {"kind": "content", "content": hx(t)}

    def D(content=""):
        return {"kind": "done", "content": hx(content), "reason": rng.choice([0, 0, 1]), "pc": rng.randint(1, 40), "ec": rng.randint(1, 300)}

    def contents():
        return [C(rng.choice(WORDS)) for _ in range(rng.randint(0, 4))]

    def mk(cls, lines, send, extra, ending, status=200, e2e="", stream=True):
        out.append({"op": "llm", "cls": cls, "lines": lines, "send": send, "extra": extra, "ending": ending, "status": status, "e2e": e2e, "stream": stream,
                    "klass": "llm/%s%s" % (cls, "/e2e-" + e2e + ("-stream" if stream else "-nonstream") if e2e else "")})

    def one(cls, e2e="", stream=True):
        cs = contents()
        if cls == "done-eof":
            mk(cls, cs + [D()], len(cs) + 1, 0, "clean", e2e=e2e, stream=stream)
        elif cls == "done-cut":
            mk(cls, cs + [D()], len(cs) + 1, 0, "cut", e2e=e2e, stream=stream)
        elif cls == "done-nonewline":
            mk(cls, cs + [D()], len(cs), -1, rng.choice(["cut", "clean"]), e2e=e2e, stream=stream)
        elif cls == "done-extra":
            extra = rng.choice([[C("x")], [D()], [C("x"), D()], [C("x"), C("y")], [{"kind": "garbage"}]])
            mk(cls, cs + [D()] + extra, len(cs) + 1 + len(extra), 0, rng.choice(["clean", "cut"]), e2e=e2e, stream=stream)
        elif cls == "cut":
            lines = cs + [C("z"), D()]
            mk(cls, lines, rng.randint(0, len(lines) - 1), 0, "cut", e2e=e2e, stream=stream)
        elif cls == "cutmid":
            lines = cs + [C("zzzz"), D()]
            k = rng.randint(0, len(lines) - 1)
            mk(cls, lines, k, rng.choice([1, 5, 12]) if k == len(lines) - 1 else rng.choice([1, 5, 12, -1]), "cut", e2e=e2e, stream=stream)
        elif cls == "eof-nodone":
            mk(cls, cs + [C("z")], len(cs) + 1, 0, "clean", e2e=e2e, stream=stream)
        elif cls == "repeat":
            mk(cls, cs + [C(" a")] * rng.choice([32, 33, 40]) + [D()], len(cs) + 41, 0, "clean", e2e=e2e, stream=stream)
        elif cls == "status":
            mk(cls, cs + [D()], 0, 0, "clean", status=rng.choice([500, 503, 400]), e2e=e2e, stream=stream)
        elif cls == "garbage":
            lines = cs + [{"kind": "garbage"}, C("z"), D()]
            mk(cls, lines, len(lines), 0, "clean", e2e=e2e, stream=stream)
        elif cls == "blank":
            lines = cs + [{"kind": "blank"}, C("z"), {"kind": "blank"}, D()]
            mk(cls, lines, len(lines), 0, "clean", e2e=e2e, stream=stream)
    classes = ["done-eof", "done-cut", "done-nonewline", "done-extra", "cut", "cutmid", "eof-nodone", "repeat", "status", "garbage", "blank"]
    for cls in classes:
        one(cls)
        one(cls, rng.choice(["generate", "chat"]), True)
    for cls in ("done-cut", "done-extra", "cut"):
        one(cls, rng.choice(["generate", "chat"]), False)
    for _ in range(n):
        cls = rng.choice(classes + ["done-cut", "done-extra", "done-extra", "cut"])
        if rng.random() < 0.4:
            one(cls, rng.choice(["generate", "chat"]), rng.random() < 0.7)
        else:
            one(cls)
    return out


def offcontract_cases(rng, n):
    """mock runners that break Completion's contract after the final response (more callbacks, an error return): only to tie
    the handler model on arbitrary callback traces (C17_terminal_count); the property is not evaluated on them"""
    out = []
    for _ in range(n):
        kind = rng.choice(["generate", "chat"])
        text = rnd_text(rng, rng.randint(0, 4))
        after = [rng.choice([{"done": False, "content": hx("x")}, {"done": True, "content": "", "reason": 1, "pc": 9, "ec": 8}]) for _ in range(rng.randint(0, 2))]
        end = gen_end(rng, "done")
        end["reason"] = rng.choice([0, 1])
        end["after"] = after
        end["after_err"] = hx(rng.choice(["", "unexpected EOF", "boom"])) if after else hx("unexpected EOF")
        out.append({"op": "run", "kind": kind, "model": "plain", "tools": False, "format": "", "raw": kind == "generate" and rng.random() < 0.5, "stop": False,
                    "tokfail": False, "prompt": hx("hi"), "text": text, "splits": [[hx(p) for p in s] for s in gen_splits(rng, text, 2, False)], "end": end,
                    "modes": ["st", "ns"], "offcontract": True, "klass": "offcontract/" + kind})
    return out


def gen_client_cases(rng, n):
    out = []
    # boundary of the scanner buffer, always
    for L in (MAXBUF - 2, MAXBUF - 1, MAXBUF, MAXBUF + 1, 600000):
        out.append({"op": "client", "status": 200, "lines": [{"kind": "msg", "len": 60}, {"kind": "done", "len": L}], "klass": "client/boundary"})
        out.append({"op": "client", "status": 200, "lines": [{"kind": "msg", "len": L}, {"kind": "done", "len": 80}], "klass": "client/boundary"})
    for _ in range(n):
        lines = []
        for _ in range(rng.randint(0, 4)):
            lines.append({"kind": rng.choice(["msg"] * 6 + ["garbage", "error", "done"]), "len": rng.choice([64, 65, 100, 4000, MAXBUF - 1, MAXBUF, MAXBUF + 7])})
        r = rng.random()
        if r < 0.6:
            lines.append({"kind": "done", "len": rng.choice([70, 90, 2000, MAXBUF - 1, MAXBUF, 520000])})
        elif r < 0.85:
            lines.append({"kind": "error", "len": rng.choice([20, 64, MAXBUF, 520000])})
        out.append({"op": "client", "status": rng.choice([200, 200, 200, 500, 404]), "lines": lines, "klass": "client/random"})
    return out


# ------------------------------------------------------------------------------------------------ results (monitor side)

def content_of(r):
    if r.get("biglen"):
        return ("big", r["biglen"], r["bigsha"])
    return r["content"]


def calls_of(recs):
    return [(c["name"], c["args"]) for r in recs for c in (r.get("calls") or [])]


def cat(recs):
    parts = [content_of(r) for r in recs]
    if any(isinstance(p, tuple) for p in parts):
        return tuple(p for p in parts if p != "")
    return "".join(parts)


def native_result(run):
    """what a client of the native endpoint ends up with: ('ok', text, calls, reason, counts, ctx) | ('fail', msg) | ('unfinished', text, calls)"""
    recs = run["recs"]
    mode = run["mode"]
    if mode in ("cst", "cns") and run["haserr"]:
        return ("fail", run["cerr"].encode().hex())
    acc = []
    for r in recs:
        if r["kind"] == "error":
            return ("fail", r["err"])
        if r["kind"] != "msg":
            return ("garbage", r["kind"])
        acc.append(r)
        if r["done"]:
            return ("ok", cat(acc), calls_of(acc), r["reason"], (r["pc"], r["pd"], r["ec"], r["ed"]), r["ctx"] if r["hasctx"] else None)
    return ("unfinished", cat(acc), calls_of(acc))


def terminals(run):
    """(number of terminal records, is the last record terminal)"""
    recs, mode = run["recs"], run["mode"]
    if mode.startswith("v1"):
        t = [r["kind"] in ("marker", "error") for r in recs]
    else:
        t = [(r["kind"] == "error") or (r["kind"] == "msg" and r["done"]) for r in recs]
        if mode in ("cst", "cns") and run["haserr"]:
            t.append(True)
    return sum(t), bool(t) and t[-1]


def reassemble(recs):
    """what an OpenAI client makes of the tool_calls deltas of a stream: deltas with the same index are one call whose
    name and arguments are the concatenation of the deltas' (hex strings concatenate like the bytes)"""
    d = {}
    for r in recs:
        for c in (r.get("calls") or []):
            i = c["index"]
            d[i] = (d[i][0] + c["name"], d[i][1] + c["args"]) if i in d else (c["name"], c["args"])
    return [d[i] for i in sorted(d)]


def openai_result(run):
    """('ok', text, calls, finish, usage) | ('fail', msg) | ('unfinished', text, calls)"""
    recs = run["recs"]
    if run["mode"] == "v1ns":
        if not recs:
            return ("garbage", "empty")
        r = recs[0]
        if r["kind"] == "error":
            return ("fail", r["err"])
        return ("ok", content_of(r), calls_of([r]), r["reason"] if r["hasfin"] else None, (r["pc"], r["ec"], r["pd"]))
    acc, fin, usage = [], None, None
    for r in recs:
        if r["kind"] == "marker":
            return ("ok", cat(acc), reassemble(acc), fin, usage)
        if r["kind"] == "error":
            return ("fail", r["err"])
        if r["kind"] == "usage":
            usage = (r["pc"], r["ec"], r["pd"])
            continue
        if r["kind"] != "msg":
            return ("garbage", r["kind"])
        acc.append(r)
        if r["hasfin"]:
            fin = r["reason"]
    return ("unfinished", cat(acc), reassemble(acc))


def expected_openai(nat, with_usage):
    if nat[0] == "ok":
        _, text, calls, reason, counts, _ = nat
        fin = "tool_calls" if calls and reason else (reason or None)
        if calls and not reason:
            fin = None
        return ("ok", text, calls, fin, (counts[0], counts[2], counts[0] + counts[2]) if with_usage else None)
    return nat


def first_diff(a, b, names):
    if a[0] != b[0]:
        return "outcome"
    for i, n in enumerate(names, 1):
        if i < len(a) and i < len(b) and a[i] != b[i]:
            return n
    return "shape"


NAT_FIELDS = ["text", "calls", "reason", "counts", "context"]
OAI_FIELDS = ["text", "calls", "finish", "usage"]


def runs_of(chunks):
    """all runs of consecutive chunks (the strings on which the handlers can call the parser)"""
    out = []
    for i in range(len(chunks)):
        for j in range(i + 1, len(chunks) + 1):
            out.append(b"".join(chunks[i:j]))
    return out


class Oracle:
    """the real parseToolCalls, asked through the harness, memoised per model"""

    def __init__(self, h):
        self.h, self.memo = h, {}

    def ask(self, model, texts):
        need = [t for t in dict.fromkeys(texts) if (model, t) not in self.memo]
        if need:
            o = self.h.ask({"op": "parse", "model": model, "texts": [t.hex() for t in need]})
            for t, r in zip(need, o["res"]):
                self.memo[(model, t)] = [(c["name"], c["args"]) for c in r["calls"]] if r["ok"] else None
        return {t: self.memo[(model, t)] for t in texts}


def stream_queries(oracle, model, chunks):
    """the buffers on which the streaming callback calls the parser (the buffer restarts after every success).  Only
    used to choose which answers of the real parser go into the table given to the model; a query of the model that
    is not in the table answers with a sentinel and shows up as a disagreement."""
    qs, sb = [b""], b""
    for c in chunks:
        sb += c
        qs.append(sb)
        if oracle.ask(model, [sb])[sb] is not None:
            sb = b""
    return qs


def parser_additive(oracle, model, chunks):
    """the hypothesis of C17_chat_equiv_tools_partial evaluated on the real parser, for the runs of this split:
    P a = Some ca  ->  P (a ++ b) = Some (ca ++ cb) if P b = Some cb, Some ca if P b = None"""
    n = len(chunks)
    tab = oracle.ask(model, runs_of(chunks)) if n else {}
    for i in range(n):
        for j in range(i + 1, n):
            a = b"".join(chunks[i:j])
            if tab[a] is None:
                continue
            for k in range(j + 1, n + 1):
                b = b"".join(chunks[j:k])
                want = tab[a] + (tab[b] or [])
                if tab[a + b] != want:
                    return False, {"a": a.decode(errors="replace"), "b": b.decode(errors="replace"), "P(a)": tab[a], "P(b)": tab[b], "P(a++b)": tab[a + b]}
    return True, None


def simulate_keep_leftover(oracle, model, chunks):
    """the streaming callback of ChatHandler with ONE change: when the parser succeeds on the buffer, only the shortest
    prefix of the buffer that already gives these calls is dropped, the rest stays in the buffer (the handler clears it all).
    Used only to classify a stream/non-stream difference: if this variant agrees with the non-streamed response, the
    difference is the known buffer-reset loss (C17-tools-split-dependent); otherwise it is something else."""
    sb, calls = b"", []
    for c in list(chunks) + [b""]:
        sb += c
        r = oracle.ask(model, [sb])[sb]
        if r is not None:
            calls += r
            prefs = [sb[:k] for k in range(1, len(sb) + 1)]
            ans = oracle.ask(model, prefs)
            k = min(k for k in range(1, len(sb) + 1) if ans[sb[:k]] == r)
            sb = sb[k:]
    whole = b"".join(chunks)
    return (whole.hex() if not calls else ""), calls


def monitor_case(c, obs, oracle, viol):
    """the property on the implementation's observations of one case; viol(sig, what, detail)"""
    endk = c["end"]["kind"]
    tools = bool(c.get("tools")) and c["kind"] == "chat"
    big = any(isinstance(p, dict) for s in c["splits"] for p in s)
    base = {"tools": tools, "end": endk}
    byrun = {}
    for r in obs["runs"]:
        byrun[(r["split"], r["mode"])] = r
    # --- exactly one final message or one error per stream
    for (si, mode), r in sorted(byrun.items()):
        if mode not in STREAM_MODES:
            if mode == "cns":
                n, last = terminals(r)
                if n != 1:
                    viol(dict(base, **{"class": "terminal", "view": "client-nonstream", "count": min(n, 2), "toolong": big}),
                         "api.Client (stream=false) ended with %d final messages/errors" % n, {"split": si, "mode": mode, "run": r})
            continue
        n, last = terminals(r)
        if n != 1 or not last:
            view = "openai" if mode.startswith("v1") else ("client" if mode == "cst" else "native")
            viol(dict(base, **{"class": "terminal", "view": view, "count": min(n, 2), "toolong": big}),
                 "%s stream (%s) of /%s ended with %d final messages/errors (last record terminal: %s); runner ended with %s" % (view, mode, c["kind"], n, last, endk),
                 {"split": si, "mode": mode, "run": r})
    if endk == "silent" or big:
        return   # no terminal at all: reported above; the rest of the comparison has nothing to compare against
    # --- same result in every mode of one split, and the non-stream result the same for every split
    ref = None
    for si in range(len(c["splits"])):
        ns = byrun.get((si, "ns"))
        if ns is None:
            continue
        rn = native_result(ns)
        if rn[0] == "garbage" or (rn[0] == "ok" and ns["status"] != 200) or (rn[0] == "fail" and ns["status"] < 400):
            viol(dict(base, **{"class": "nonstream-shape"}), "non-stream response malformed: %r status %s" % (rn[:2], ns["status"]), {"split": si, "run": ns})
            continue
        if ref is None:
            ref = (si, rn)
        elif rn != ref[1]:
            viol(dict(base, **{"class": "nonstream-differ", "field": first_diff(rn, ref[1], NAT_FIELDS)}),
                 "non-streamed responses of two splits of the same output differ", {"splits": [ref[0], si], "a": ref[1], "b": rn})
        nat_var = any(set(v["modes"]) & {"st", "ns"} for v in c.get("reqvar", []))
        for mode in (("st",) if nat_var else ("st", "cst", "cns")):   # api.Client cannot send the present-but-empty fields: not the same request
            r = byrun.get((si, mode))
            if r is None:
                continue
            rs = native_result(r)
            if rs != rn:
                sig = dict(base, **{"class": "native-differ", "field": first_diff(rs, rn, NAT_FIELDS), "mode": "stream" if mode != "cns" else "client-nonstream"})
                detail = {"split": si, "chunks": [uh(x).decode(errors="replace") for x in c["splits"][si]], "mode": mode, "streamed": rs, "nonstreamed": rn}
                if tools:
                    chunks = [uh(x) for x in c["splits"][si]] + ([uh(c["end"]["content"])] if c["end"]["content"] else [])
                    add, wit = parser_additive(oracle, c["model"], chunks)
                    sig["parser_additive"] = add
                    detail["parser_additivity_witness"] = wit
                    sim = simulate_keep_leftover(oracle, c["model"], chunks)
                    same = rn[0] == "ok" and rs[0] == "ok" and (sim[0], sim[1]) == (rn[1], rn[2])
                    sig["cause"] = "buffer-reset-loses-partial-call" if same else "other"
                    detail["stream_keeping_the_unparsed_rest_of_the_buffer"] = {"text": sim[0], "calls": sim[1]}
                viol(sig, "streamed and non-streamed /api/%s responses differ in %s for the same output" % (c["kind"], sig["field"]), detail)
        for mode in ("v1st", "v1stu", "v1ns"):
            r = byrun.get((si, mode))
            if r is None:
                continue
            # the native response of the same mode family: stream views against the native stream, v1ns against ns
            natrun = byrun.get((si, "ns" if mode == "v1ns" else "st"))
            if natrun is None:
                continue
            want = expected_openai(native_result(natrun), mode != "v1st")
            got = openai_result(r)
            if c["kind"] == "generate" and got[0] == "ok":
                got = got[:2] + ([],) + got[3:]
            if got != want:
                viol(dict(base, **{"class": "openai-differ", "field": first_diff(got, want, OAI_FIELDS), "mode": mode}),
                     "/v1 response (%s) does not carry the native result: %s%s" % (mode, first_diff(got, want, OAI_FIELDS),
                         " (streamed tool_calls deltas merged by index, the way OpenAI clients rebuild them, against the native calls)"
                         if mode != "v1ns" and first_diff(got, want, OAI_FIELDS) == "calls" else ""),
                     {"split": si, "mode": mode, "openai": got, "native": want, "run": r})
        # the runner saw the same request in every mode (prompt everywhere; format and stop within one endpoint family:
        # /v1/completions has no format field, so the harness cannot send one there)
        reqs = {m: byrun[(si, m)]["req"] for m in ALL_MODES if (si, m) in byrun}
        fams = [[m for m in reqs if m in ("st", "ns")], [m for m in reqs if m in ("cst", "cns")], [m for m in reqs if m.startswith("v1")]]
        bad = not c.get("raw") and len(set(r["prompt"] for r in reqs.values())) > 1   # /v1/completions has no raw either
        for fam in fams:
            bad = bad or len(set((reqs[m]["prompt"], reqs[m]["format"], json.dumps(reqs[m].get("stop"))) for m in fam)) > 1
        if bad:
            viol(dict(base, **{"class": "request-differs"}), "the runner received different requests in different modes", {"split": si, "reqs": reqs})


def monitor_llm(c, o, viol):
    """Completion's contract on the real llm client: final response XOR error return, nothing after the final response;
    and, end to end, the API stream built from it has exactly one terminal record"""
    ev = o["events"]
    ndone = sum(1 for e in ev if e["done"])
    n = ndone + (1 if o["haserr"] else 0)
    last_ok = ndone == 0 or ev[-1]["done"]
    end = "silent" if c["cls"] in ("eof-nodone", "repeat") else c["cls"]
    if n != 1 or not last_ok:
        viol({"class": "terminal", "view": "llm-completion", "end": end, "count": min(n, 2)},
             "llmServer.Completion (real llm client, runner script %s): %d final responses, %s%s" % (
                 c["cls"], ndone, "error %r" % o["err"] if o["haserr"] else "nil", "" if last_ok else ", callbacks after the final response"),
             {"case": c, "impl": o})
    run = o.get("run")
    if run:
        if run["mode"] == "st":
            k, last = terminals(run)
            ok = k == 1 and last
        else:
            r = native_result(run)
            k = 1 if r[0] in ("ok", "fail") else 0
            ok = k == 1 and not (r[0] == "ok" and o["haserr"])   # a 200 answer although the runner reported a fault is fine; the reverse is checked below
            if r[0] == "fail" and ndone and not o["haserr"]:
                ok = False
        if not ok:
            viol({"class": "terminal", "view": "e2e-" + run["mode"], "end": end, "count": min(k, 2)},
                 "/api/%s (%s) over the real llm client, runner script %s: %d terminal records" % (c["e2e"], run["mode"], c["cls"], k),
                 {"case": c, "impl": o})


def monitor_client(c, o, viol):
    lines = c["lines"]
    term = [l["kind"] in ("done", "error") for l in lines]
    wellformed = sum(term) == 1 and term[-1] and c["status"] == 200 and all(l["kind"] != "garbage" for l in lines)
    if not wellformed:
        return
    ndone = sum(1 for g in o["got"] if g["done"])
    n = ndone + (1 if o["haserr"] else 0)
    cut = c.get("cut")
    sig = {"class": "client-terminal", "count": min(n, 2), "toolong": any(l["len"] >= MAXBUF for l in lines), "transport": bool(cut)}
    what = "api.Client.stream over a stream with exactly one terminal line%s delivered %d final messages and %s" % (
        " cut by a transport fault (%s)" % json.dumps(cut) if cut else "", ndone, "an error" if o["haserr"] else "no error")
    if cut:
        k, m = cut["lines"], cut["extra"]
        complete = (k == len(lines) and m == 0) or (k == len(lines) - 1 and m == -1)   # the whole content arrived
        if complete and lines[-1]["kind"] == "done" and lines[-1]["len"] < MAXBUF:
            # only the newline / the end-of-body marker was lost: the final message must have been delivered
            # (the client additionally reports the transport error; see C17_client_transport_fault)
            # (or an error and no final message, e.g. an earlier line was too long for the scanner)
            if ndone > 1 or n == 0:
                viol(sig, what, {"case": c, "impl": o})
            return
    if n != 1:
        viol(sig, what, {"case": c, "impl": o})


# ------------------------------------------------------------------------------------------------ rendering into Coq

def cb(h):
    return cq_bytes(uh(h))


def cq_calls(calls):
    return cq_list(["(mkCall %s %s %s)" % (cb(x["name"]), cb(x["args"]), cq_nat(x["index"])) for x in calls or []], "call")


def cq_counts(pc, pd, ec, ed):
    return "(mkC %s %s %s %s)" % (cq_Z(pc), cq_Z(pd), cq_Z(ec), cq_Z(ed))


def cq_ostr(h):
    return "(@None str)" if h is None else "(Some %s)" % cb(h)


def cq_nrec(r):
    if r["kind"] == "error":
        return "(ErrRec %s)" % cb(r["err"])
    if r["kind"] != "msg" or r.get("biglen"):
        return None
    return "(Msg %s %s %s %s %s %s)" % (cb(r["content"]), cq_calls(r["calls"]), cq_bool(r["done"]), cq_bytes(r["reason"].encode()),
                                        cq_counts(r["pc"], r["pd"], r["ec"], r["ed"]), cq_ostr(r["ctx"] if r["hasctx"] else None))


def cq_sse(r):
    if r["kind"] == "marker":
        return "SMarker"
    if r["kind"] == "error":
        return "(SError %s)" % cb(r["err"])
    if r["kind"] == "usage":
        return "(SUsage %s %s)" % (cq_Z(r["pc"]), cq_Z(r["ec"]))
    if r["kind"] != "msg" or r.get("biglen"):
        return None
    return "(SChunk %s %s %s)" % (cb(r["content"]), cq_calls(r["calls"]), cq_ostr(r["reason"].encode().hex() if r["hasfin"] else None))


def cq_v1body(run):
    if len(run["recs"]) != 1:
        return None
    r = run["recs"][0]
    if r["kind"] == "error":
        return "(%s, VError %s)" % (cq_Z(run["status"]), cb(r["err"]))
    if r["kind"] != "msg" or r.get("biglen"):
        return None
    return "(%s, VCompletion %s %s %s %s %s)" % (cq_Z(run["status"]), cb(r["content"]), cq_calls(r["calls"]),
                                                 cq_ostr(r["reason"].encode().hex() if r["hasfin"] else None), cq_Z(r["pc"]), cq_Z(r["ec"]))


def cq_recs(recs, f, ty):
    items = [f(r) for r in recs]
    if any(i is None for i in items):
        return None
    return cq_list(items, ty)


REASONS = {0: "RStop", 1: "RLength", 2: "RClosed"}


def cq_rout(chunks_hex, end):
    if end["kind"] == "done":
        fin = "(FDone %s %s %s)" % (cb(end["content"]), REASONS[end["reason"]], cq_counts(end["pc"], 7, end["ec"], 9))
    elif end["kind"] == "error":
        fin = "(FErr %s)" % cb(end["err"])
    else:
        fin = "FSilent"
    return "(mkOut %s %s)" % (cq_list([cb(x) for x in chunks_hex], "str"), fin)


def cq_ptable(tab):
    rows = []
    for k, v in tab.items():
        if v is None:
            rows.append("(%s, @None (list (str * str)))" % cq_bytes(k))
        else:
            rows.append("(%s, Some %s)" % (cq_bytes(k), cq_list(["(%s, %s)" % (cb(n), cb(a)) for n, a in v], "(str * str)%type")))
    return cq_list(rows, "(str * option (list (str * str)))%type")


def render_split(c, obs, si, oracle):
    """-> (prefix binding o and t, [(mode, term-or-None)]) for one split"""
    chunks = c["splits"][si]
    if any(isinstance(p, dict) for p in chunks):
        return None, []
    byrun = {r["mode"]: r for r in obs["runs"] if r["split"] == si}
    tools = bool(c.get("tools"))
    gen = c["kind"] == "generate"
    pre = "let o := %s in " % cq_rout(chunks, c["end"])
    if not gen:
        if tools:
            bl = [uh(x) for x in chunks] + ([uh(c["end"]["content"])] if c["end"]["kind"] == "done" else [])
            texts = stream_queries(oracle, c["model"], bl) + [b"".join(bl)]
            tab = oracle.ask(c["model"], list(dict.fromkeys(texts)))
        else:
            tab = {}
        pre += "let t := %s in " % cq_ptable(tab)
    out = []
    for mode, r in byrun.items():
        term = None
        err = cq_ostr(r["cerr"].encode().hex() if r["haserr"] else None)
        if gen:
            g = "(mkG %s %s %s)" % (cq_bool(c["raw"]), cq_bool(c["tokfail"]), cb(r["req"]["prompt"]))
            if mode == "st":
                x = cq_recs(r["recs"], cq_nrec, "nrec")
                term = x and "chk_gen_stream %s o %s" % (g, x)
            elif mode == "ns":
                x = cq_nrec(r["recs"][0]) if len(r["recs"]) == 1 else None
                term = x and "chk_gen_nonstream %s o (Http %s %s)" % (g, cq_Z(r["status"]), x)
            elif mode in ("cst", "cns"):
                x = cq_recs(r["recs"], cq_nrec, "nrec")
                term = x and "chk_client_gen %s %s o %s %s" % (cq_bool(mode == "cst"), g, x, err)
            elif mode in ("v1st", "v1stu"):
                x = cq_recs(r["recs"], cq_sse, "sse")
                term = x and "chk_v1comp_stream %s %s o %s" % (cq_bool(mode == "v1stu"), g, x)
            elif mode == "v1ns":
                x = cq_v1body(r)
                term = x and "chk_v1comp_nonstream %s o %s" % (g, x)
        else:
            tl = cq_bool(tools)
            if mode == "st":
                x = cq_recs(r["recs"], cq_nrec, "nrec")
                term = x and "chk_chat_stream t %s o %s" % (tl, x)
            elif mode == "ns":
                x = cq_nrec(r["recs"][0]) if len(r["recs"]) == 1 else None
                term = x and "chk_chat_nonstream t %s o (Http %s %s)" % (tl, cq_Z(r["status"]), x)
            elif mode in ("cst", "cns"):
                x = cq_recs(r["recs"], cq_nrec, "nrec")
                term = x and "chk_client_chat %s t %s o %s %s" % (cq_bool(mode == "cst"), tl, x, err)
            elif mode in ("v1st", "v1stu"):
                x = cq_recs(r["recs"], cq_sse, "sse")
                term = x and "chk_v1chat_stream %s t %s o %s" % (cq_bool(mode == "v1stu"), tl, x)
                if x and mode == "v1st":
                    out.append(("v1st-reassemble", "chk_v1chat_reassemble t %s o %s" % (tl, x)))
            elif mode == "v1ns":
                x = cq_v1body(r)
                term = x and "chk_v1chat_nonstream t %s o %s" % (tl, x)
        out.append((mode, term))
    return pre, out


def cq_trace(events, err_hex):
    evs = []
    for e in events:
        if e["done"]:
            evs.append("(CFinal %s %s %s)" % (cb(e["content"]), REASONS.get(e["reason"], "RClosed"), cq_counts(e["pc"], e.get("pd", 7), e["ec"], e.get("ed", 9))))
        else:
            evs.append("(CChunk %s)" % cb(e["content"]))
    return "(mkTrace %s %s)" % (cq_list(evs, "cev"), cq_ostr(err_hex))


def render_trace(kind, raw, prompt_hex, trace, run):
    """one observed response against the handler model applied to a callback trace"""
    if run["mode"] == "st":
        x = cq_recs(run["recs"], cq_nrec, "nrec")
        if x is None:
            return "false"
        if kind == "generate":
            return "chk_gen_trace (mkG %s false %s) %s %s" % (cq_bool(raw), cb(prompt_hex), trace, x)
        return "chk_chat_trace (@nil (str * option (list (str * str)))) false %s %s" % (trace, x)
    x = cq_nrec(run["recs"][0]) if len(run["recs"]) == 1 else None
    if x is None:
        return "false"
    h = "(Http %s %s)" % (cq_Z(run["status"]), x)
    if kind == "generate":
        return "chk_gen_trace_ns (mkG %s false %s) %s %s" % (cq_bool(raw), cb(prompt_hex), trace, h)
    return "chk_chat_trace_ns (@nil (str * option (list (str * str)))) false %s %s" % (trace, h)


def mock_trace(c, si):
    end = c["end"]
    ev = [{"done": False, "content": x} for x in c["splits"][si]]
    ev.append({"done": True, "content": end["content"], "reason": end["reason"], "pc": end["pc"], "ec": end["ec"]})
    for a in end.get("after", []):
        ev.append(dict(a, content=a.get("content", "")))
    return cq_trace(ev, end.get("after_err") or None)


def item_of(pre, terms):
    """one closed bool for a whole split: every mode agrees with the model"""
    if any(t is None for _, t in terms):
        return "false"
    return "(" + pre + "forallb (fun b : bool => b) " + cq_list(["(" + t + ")" for _, t in terms], "bool") + ")"


def client_code(o):
    if not o["haserr"]:
        return 0
    e = o["cerr"]
    if e.startswith("unmarshal:"):
        return 2
    if "token too long" in e:
        return 3
    if "unexpected EOF" in e and not e.startswith("unmarshal"):
        return 5
    if e and set(e) == {"a"}:
        return 1
    return 4


def render_client(c, o):
    def line(l):
        if l["kind"] in ("msg", "done"):
            return "(LMsg %s %s)" % (cq_N(l["len"]), cq_bool(l["kind"] == "done"))
        if l["kind"] == "error":
            return "(LErr %s [97]%%N)" % cq_N(l["len"])
        return "(LGarbage %s)" % cq_N(l["len"])
    got = cq_list(["(LMsg %s %s)" % (cq_N(g["len"]), cq_bool(g["done"])) for g in o["got"]], "line")
    cut = c.get("cut")
    if not cut:
        return "chk_client_lines %s %s %s %s %s" % (cq_N(MAXBUF), cq_Z(c["status"]), cq_list([line(l) for l in c["lines"]], "line"), got, cq_N(client_code(o)))
    k, m = cut["lines"], cut["extra"]
    if k >= len(c["lines"]) or m == 0:
        cp = "CutBetween"
    elif m < 0 or m >= c["lines"][k]["len"]:
        cp = "(CutBeforeNewline %s)" % line(c["lines"][k])
    else:
        cp = "(CutInside %s)" % cq_N(m)
    return "chk_client_cut %s %s %s %s %s %s" % (cq_N(MAXBUF), cq_Z(c["status"]), cq_list([line(l) for l in c["lines"][:k]], "line"), cp, got, cq_N(client_code(o)))


# ------------------------------------------------------------------------------------------------ shrinking

def shrink_run_case(h, oracle, c, sig_class):
    """smallest single-split case that still violates with the same class (greedy: drop/merge chunks, drop characters)"""
    def fails(cand):
        found = []
        try:
            o = h.ask({k: v for k, v in cand.items() if k not in ("klass", "text", "_varfields")})
        except Exception:
            return False
        monitor_case(cand, o, oracle, lambda sig, what, detail: found.append(sig))
        return any(s.get("class") == sig_class for s in found)

    def mk(chunks):
        d = dict(c)
        d["splits"] = [[hx(x) for x in chunks if x]]
        return d
    best = None
    for s in c["splits"]:
        if any(isinstance(p, dict) for p in s):
            continue
        chunks = [uh(x).decode() for x in s]
        if fails(mk(chunks)):
            best = chunks
            break
    if best is None:
        return c
    budget = 120
    changed = True
    while changed and budget > 0:
        changed = False
        cands = []
        for i in range(len(best)):
            cands.append(best[:i] + best[i + 1:])
        for i in range(len(best) - 1):
            cands.append(best[:i] + [best[i] + best[i + 1]] + best[i + 2:])
        for i in range(len(best)):
            for j in range(len(best[i])):
                cands.append(best[:i] + [best[i][:j] + best[i][j + 1:]] + best[i + 1:])
        for cand in cands:
            if budget <= 0:
                break
            budget -= 1
            if fails(mk(cand)):
                best = [x for x in cand if x]
                changed = True
                break
    out = mk(best)
    out["text"] = "".join(best)
    return out


# ------------------------------------------------------------------------------------------------ the check

def run(ctx):
    quick = ctx.quick()
    ctx.rule = ("run cases: request shape (generate|chat, model template with/without tool calls, tools in the request, format, raw, stop) x model output "
                "(random text with multi-byte characters and JSON punctuation; for tools: one/two/three calls, array, nested, surrounded by text, non-matching, "
                "truncated, wrong key) x ending (final response with reason and counts | error | silent return | final response carrying content | tokenizer failure) "
                "x %d splits at character boundaries (whole, per character, random, cuts planted a few characters after a closing brace), each through 7 modes "
                "(native stream/non-stream, api.Client stream/non-stream, /v1 stream, /v1 stream+usage, /v1 non-stream; /v1 tool_calls deltas are merged by index before "
                "comparing); with tools one split puts every call and every separator in a chunk of its own; client cases: scripted response lines with lengths "
                "around the 512000 byte scanner buffer, and transport faults (connection closed after k complete lines, inside a line, before its newline, "
                "before the end-of-body marker; chunked and Content-Length framing; every cut point of three fixed streams + random); tool outputs also repeat an identical "
                "call 2-3 times with other calls in between, each call in a chunk of its own and all in one chunk; llm cases: the REAL llmServer.Completion against a scripted "
                "runner HTTP server (done then clean end / connection cut / missing newline / extra lines after done; cut before done at and inside a line; clean end without done; "
                "33+ identical tokens; error status; undecodable and blank lines), alone and under the real handlers (/api/generate, /api/chat, stream and non-stream); "
                "off-contract mock runners (callbacks or an error after the final response) for the correspondence only; raw HTTP modes send raw JSON bodies, about half of the "
                "run cases with fields present but empty or null (tools []/null, format \"\"/null, options null/{}, stop [], stream null, keep_alive null, images [], suffix \"\", "
                "context [], /v1 tools/stop/response_format/stream_options null or empty ...). non-trivial = at least two chunks and the runner script reached the handler; distinct = canonical JSON of the case"
                % (3 if quick else 6))
    ctx.trusted = ["Coq 8.16.1 kernel + vm_compute", "hand-written model coq/Stream/Model.v tied to the code by this differential run only",
                   "encoding/json, net/http, gin, bufio.Scanner (records are compared after decoding; the scanner's buffer rule is modelled as len+1 <= max)",
                   "Go harness harness/cmd/c17 + overlay server/c17.go (add-only, build tag verif): mock llm.LlamaServer, real router/handlers/middlewares/client",
                   "python generator and monitor (props/c17.py)"]
    ctx.assumptions = ["every runner chunk is valid UTF-8 (property C14); splits are made at character boundaries",
                       "the final runner response carries no content when tools are requested (llm/server.go Completion sends content and the final response separately)",
                       "Completion's contract (final response XOR error return, nothing after the final response) is the hypothesis of C17_exactly_one_terminal_under_contract; "
                       "it is tested on the real llmServer.Completion against a scripted runner on every run (C17_terminal_count: the handlers emit one terminal record per final response and per error return)",
                       "tool-call parser: Section variable; equivalence with tools is proved for parsers that are additive over concatenation, "
                       "the real parseToolCalls is tested for additivity on every split where the modes disagree",
                       "wall-clock fields (created_at, total_duration, load_duration), ids and the tool call index (a stream position) are not compared between modes"]
    ctx.proof_stage(["Stream"], "Stream/Properties_C17.v", extra_targets=["Stream/Corr.v"])
    if not quick:
        ctx.coqchk(["V.Stream.Properties_C17"])
    binp = ctx.go_build("c17")
    if not binp:
        return
    h = Harness(binp, ctx.tmp)
    try:
        _run(ctx, h)
    except RuntimeError as ex:
        ctx.obligation("harness c17 answered every case", False, str(ex))
        ctx.proof_failures.append({"obligation": "correspondence: harness c17 died", "detail": str(ex)})
    finally:
        h.close()


EXH_TEXTS = [("tools", '{"name":"a","arguments":{}}{"name":"b","arguments":{"x":1}}'),
             ("tools", 'ok {"name":"a","arguments":{"s":"}{"}} then\n{"name":"b","arguments":{}} é'),
             ("tools2", '[{"name":"a","parameters":{}},{"name":"b","parameters":{}}]'),
             ("tools", '{"name":"a","arguments":{"x":1}}\n{"name":"a","arguments":{"x":1}}')]


def exhaustive_cases(quick):
    """every split of a few two-call texts with one cut (quick) / with one or two cuts (thorough)"""
    out = []
    for model, text in ([EXH_TEXTS[0], EXH_TEXTS[3]] if quick else EXH_TEXTS):
        n = len(text)
        cutsets = [[i] for i in range(1, n)]
        if not quick:
            cutsets += [[i, j] for i in range(1, n) for j in range(i + 1, n)]
        splits = [split_text(text, cs) for cs in cutsets]
        for k in range(0, len(splits), 12):
            out.append({"op": "run", "kind": "chat", "model": model, "tools": True, "format": "", "raw": False, "stop": False, "tokfail": False,
                        "prompt": hx("hi"), "text": text, "splits": [[hx(p) for p in s] for s in splits[k:k + 12]],
                        "end": {"kind": "done", "reason": 0, "content": "", "pc": 2, "ec": 9, "err": ""},
                        "modes": ["st", "ns", "v1st", "v1ns"] if k else ALL_MODES, "klass": "exhaustive-cuts/" + model})
    return out


def big_cases():
    out = []
    for kind in ("generate", "chat"):
        out.append({"op": "run", "kind": kind, "model": "plain", "tools": False, "format": "", "raw": False, "stop": False, "tokfail": False, "prompt": hx("hi"),
                    "splits": [[hx("ab"), {"rep": hx("a"), "n": 520000}]], "end": {"kind": "done", "reason": 0, "content": "", "pc": 1, "ec": 2, "err": ""},
                    "modes": ["st", "ns", "cst", "cns"], "text": "(520002 bytes)", "klass": "big-line/" + kind})
    return out


def _run(ctx, h, only_cases=None):
    quick = ctx.quick()
    rng = ctx.rng
    oracle = Oracle(h)
    nsplits = 3 if quick else 6
    if only_cases is not None:
        cases = only_cases
    else:
        cases = corpus_cases() + big_cases() + exhaustive_cases(quick)
        cases += [gen_case(rng, nsplits) for _ in range(240 if quick else 2500)]
        cases += gen_client_cases(rng, 60 if quick else 1000)
        cases += cut_cases(rng, 40 if quick else 1500)
        cases += llm_cases(rng, 30 if quick else 800)
        cases += offcontract_cases(rng, 20 if quick else 300)
    viols = []
    items, meta = [], []
    ctx.log("%d cases generated" % len(cases))
    for ci, c in enumerate(cases):
        send = {k: v for k, v in c.items() if k not in ("klass", "text", "cls", "offcontract", "_varfields")}
        for f in c.get("_varfields", []):
            ctx.count("reqvar:" + f)
        o = h.ask(send)
        if "panic" in o or "harness_error" in o:
            ctx.violation({"class": "harness-panic"}, "harness panicked: %s" % o, {"case": c, "impl": o})
            continue
        canon = {k: v for k, v in c.items() if k not in ("klass", "_varfields")}
        if c["op"] == "llm":
            ctx.note_case(canon, True, c["klass"], sample={"case": c, "impl": {k: v for k, v in o.items() if k != "run"}})
            monitor_llm(c, o, lambda sig, what, detail, c=c: viols.append((c, sig, what, detail)))
            if o.get("run"):
                tr = cq_trace(o["events"], o["err"].encode().hex() if o["haserr"] else None)
                items.append("(" + render_trace(c["e2e"], False, o["prompt"], tr, o["run"]) + ")")
                meta.append((ci, None, None))
            continue
        if c.get("offcontract"):
            ctx.note_case(canon, True, c["klass"], sample={"case": c})
            for r in o["runs"]:
                items.append("(" + render_trace(c["kind"], c["raw"], r["req"]["prompt"], mock_trace(c, r["split"]), r) + ")")
                meta.append((ci, None, None))
            continue
        if c["op"] == "client":
            ctx.note_case(canon, len(c["lines"]) >= 2, c["klass"], sample={"case": c, "impl": o})
            monitor_client(c, o, lambda sig, what, detail, c=c: viols.append((c, sig, what, detail)))
            items.append(render_client(c, o))
            meta.append((ci, None, None))
            continue
        nontriv = any(len(s) >= 2 for s in c["splits"]) and all(r["req"]["calls"] == 1 for r in o["runs"])
        ctx.note_case(canon, nontriv, c["klass"], sample={"case": {k: v for k, v in c.items() if k != "splits"}, "splits": [[uh(x).decode(errors="replace") if isinstance(x, str) else x for x in s] for s in c["splits"]][:3]})
        ctx.count("end:" + c["end"]["kind"])
        monitor_case(c, o, oracle, lambda sig, what, detail, c=c: viols.append((c, sig, what, detail)))
        for si in range(len(c["splits"])):
            pre, terms = render_split(c, o, si, oracle)
            if pre is None:
                continue
            items.append(item_of(pre, terms))
            meta.append((ci, si, (pre, terms)))
    # --- verdicts of the monitor: shrink one representative per signature
    ctx.log("%d cases run (%d harness exchanges), %d monitor alarms, %d coq items" % (len(cases), h.n, len(viols), len(items)))
    seen = set()
    for c, sig, what, detail in viols:
        key = json.dumps(sig, sort_keys=True)
        if key in seen:
            continue
        seen.add(key)
        rep = {"case": c, "detail": detail}
        if c["op"] == "run" and not c.get("offcontract") and not vlib.match_known(ctx.known, sig) and len(seen) <= 6:
            small = shrink_run_case(h, oracle, c, sig["class"])
            rep["shrunk_case"] = small
            rep["shrunk_chunks"] = [[uh(x).decode(errors="replace") for x in s] for s in small["splits"] if all(isinstance(x, str) for x in s)]
        ctx.violation(sig, what, rep)
    # --- correspondence
    ctx.log("monitor done, %d signatures" % len(seen))
    bad, log = ctx.coq_eval(HEADER, items, per_file=120)
    ctx.log("coq evaluation done")
    if bad is None:
        ctx.obligation("correspondence: model evaluated on all cases", False, log)
        ctx.proof_failures.append({"obligation": "correspondence evaluation failed in coqc", "detail": log})
        return
    ctx.disagreements_checked = len(items)
    ctx.obligation("correspondence: model = implementation on %d responses of %d cases" % (len(items), len(cases)), not bad)
    ctx.extra["http_exchanges"] = h.n
    # which modes of the disagreeing splits disagree
    singles, smeta = [], []
    for i in bad[:8]:
        ci, si, pt = meta[i]
        if pt is None:
            singles.append(items[i])
            smeta.append((ci, si, "single"))
            continue
        for mode, term in pt[1]:
            singles.append("false" if term is None else "(" + pt[0] + term + ")")
            smeta.append((ci, si, mode))
    if singles:
        sbad, _ = ctx.coq_eval(HEADER, singles, per_file=20, name="singles")
        for j in (sbad or [])[:12]:
            ci, si, mode = smeta[j]
            ctx.mismatch("Stream/Corr.%s" % singles[j].split(" in ")[-1].split()[0].strip("("), {"case": cases[ci], "split": si, "mode": mode},
                         {"term": singles[j][-3000:]}, None)
        if not sbad:
            ctx.mismatch("Stream/Corr (split level)", {"case": cases[meta[bad[0]][0]]}, {"term": items[bad[0]][-3000:]}, None)
    if bad and not ctx.violations:
        # search around the disagreeing cases for an input on which the property itself fails
        found = []
        for i in bad[:4]:
            ci, si, _ = meta[i]
            c = cases[ci]
            if c["op"] != "run" or not c.get("text") or si is None:
                continue
            for _ in range(12):
                d = dict(c)
                d["splits"] = [[hx(p) for p in s] for s in gen_splits(rng, c["text"], 6, bool(c.get("tools")))]  # no bounds known here
                o = h.ask({k: v for k, v in d.items() if k not in ("klass", "text")})
                monitor_case(d, o, oracle, lambda sig, what, detail, d=d: found.append((d, sig, what, detail)))
                if found:
                    break
            if found:
                break
        for d, sig, what, detail in found[:1]:
            ctx.violation(sig, what, {"case": d, "detail": detail, "found_by": "search around a model/implementation disagreement"})


def replay(ctx, path):
    r = json.load(open(path))
    ctx.log("replaying", path)
    rep = r.get("replay") or {}
    c = rep.get("shrunk_case") or rep.get("case")
    if not c and r.get("disagreements"):
        c = r["disagreements"][0]["case"].get("case")
    if not c:
        return run(ctx)
    ctx.proof_stage(["Stream"], "Stream/Properties_C17.v", extra_targets=["Stream/Corr.v"])
    binp = ctx.go_build("c17")
    if not binp:
        return
    h = Harness(binp, ctx.tmp)
    try:
        c.setdefault("klass", "replay")
        _run(ctx, h, only_cases=[c])
    finally:
        h.close()


MANIFEST = {
    "property_id": "C17",
    "quick_cmd": "python3 check.py C17 --tier quick",
    "thorough_cmd": "python3 check.py C17 --tier thorough",
    "evidence_file": "evidence/C17.json",
    "replay_cmd_template": "python3 check.py C17 --replay {path}",
    "engine": "coq-model+go-differential",
    "level_claimed": {
        "category": "proof",
        "text": "Coq theorems over an executable model of the response aggregation (GenerateHandler/ChatHandler callbacks, the non-stream loop, streamResponse, "
                "the OpenAI chat/completion writers, api.Client.stream): for every runner output (any chunk list, any failure point) the streamed records "
                "concatenate to the non-streamed response and to the same OpenAI view, and every stream has exactly one terminal record; with tools the "
                "equivalence is proved for tool-call parsers that are additive over concatenation (Section hypothesis, refuted for a concrete non-additive parser; "
                "the real parser is tested). The model is tied to the real router, middlewares and client by a differential run through real HTTP with a scripted "
                "mock runner, evaluated inside Coq with vm_compute; the property is also monitored directly on the observed responses.",
        "design_ref": "DESIGN.md section 5, C17",
    },
    "level_note": "Trusted: Coq kernel/vm_compute; encoding/json, net/http, gin, bufio (records compared after decoding); the model-to-code tie is differential "
                  "testing (generator-bounded). The tool-call parser, the template engine and the tokenizer are oracles. Known findings: a runner that returns "
                  "without a final response leaves streams without a terminal record; with tools, tool calls depend on where chunk boundaries fall.",
    "technique": "Coq proof (induction over the chunk list, parser as Section variable) + model/implementation differential check over real HTTP",
}
