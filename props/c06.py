"""C06 - the KV cache exposes exactly the causal history of each sequence.

Tie (S): histories of cache operations (forward batches mixing sequences, CopyPrefix, Remove of prefixes / middles /
suffixes with position shift, CanResume, the LoadCacheSlot protocol "CanResume ? Remove(p, end) : Remove(0, end)") are run
on the REAL kvcache.Causal of /repo on a fake strided ml.Backend (harness/cmd/c06) whose K rows encode (token, position
baked into K) and whose V rows encode the token.  After EVERY operation the harness reports the result, the metadata of
every location, cellRanges and the decoded physical data; for forward passes also the mask and the K/V views returned by
Get.  The Coq model (KvCache/Model.v) replays the same history inside coqc (vm_compute) and KvCache/Corr.chk_history
compares state and result after every step.

Monitor (the property itself, independent of the model): an ideal per-sequence history (list of (position, token), updated
by the meaning of the operations: store, copy of the prefix, removal + shift) is kept in Python; for every token of
every successful forward pass the multiset of (kpos, token) decoded from the UNMASKED locations of the views returned by
Get must equal the ideal entries of the token's sequence with position <= the token's position and inside the window:
nothing foreign / removed / later (checked for every history), nothing missing (checked for every history on caches
without a window; on sliding-window caches for sequences that were continued the way the interface prescribes:
appended, or resumed after CanResume said yes).  ErrKvCacheFull must leave every live entry as it was.
"""
import copy
import json
import os
from lib import vlib

SETUP_BUILDS = [{"name": "c06"}]
COQ_TARGETS = ["KvCache/Properties_C06.v", "KvCache/Corr.v"]
HEADER = ("From Coq Require Import List ZArith Bool.\nFrom V Require Import KvCache.Model KvCache.Corr.\n"
          "Import ListNotations.\nOpen Scope Z_scope.\n")
MAXI32 = 2147483647
MAXINT = 9223372036854775807
# the model describes the repaired defrag (fixes/C06-defrag-merge.patch); C06_MODEL_AS_FOUND=1 selects the loop as found
FX = "false" if os.environ.get("C06_MODEL_AS_FOUND") == "1" else "true"


# ------------------------------------------------------------------ ideal history + protocol bookkeeping (monitor side)

class Ideal:
    """What the interface promises, in terms of operations only: per sequence the list of (position, token) stored and not
    removed.  For sliding-window caches it also follows the caller protocol (kvcache/cache.go: CanResume)."""

    def __init__(self, window):
        self.w = window if window else None
        self.seq = {}        # q -> list of [pos, tok]
        self.dirty = set()   # sequences whose Remove failed and that were not cleared yet: contents unspecified
        self.state = {}      # q -> "ok" | "need" | "nonconf"   (sliding-window protocol)
        self.blessed = {}    # q -> position for which CanResume answered true since the last change of q
        self.feat = {}       # q -> {"mid": b or None, "copy": bool, "trunc": bool} since the last clear

    def _f(self, q):
        return self.feat.setdefault(q, {"mid": None, "copy": False, "trunc": False})

    def st(self, q):
        return self.state.get(q, "ok")

    def entries(self, q):
        return self.seq.get(q, [])

    def forward(self, batch):
        """batch: list of (q, pos, tok); call only for a successful forward.  Returns per sequence whether the
        continuation followed the sliding-window protocol."""
        by = {}
        for q, p, t in batch:
            by.setdefault(q, []).append(p)
        for q, ps in by.items():
            prev = [e[0] for e in self.entries(q)]
            if self.st(q) != "ok" or (prev and min(ps) != max(prev) + 1):
                self.state[q] = "nonconf"
            self.blessed.pop(q, None)
        for q, p, t in batch:
            self.seq.setdefault(q, []).append([p, t])

    def refused(self, batch):
        """a batch that was refused with ErrKvCacheFull has still moved the sliding window: harmless when the batch
        continues its sequences where they end (C06_window_complete_appends), outside the protocol otherwise"""
        by = {}
        for q, p, t in batch:
            by.setdefault(q, []).append(p)
        for q, ps in by.items():
            prev = [e[0] for e in self.entries(q)]
            if prev and min(ps) != max(prev) + 1:
                self.state[q] = "nonconf"

    def copy(self, src, dst, n):
        if src == dst:
            self.seq[dst] = []          # the code empties the sequence (API misuse; the model follows the code)
        else:
            self.seq[dst] = [list(e) for e in self.entries(src) if e[0] < n]
        if src in self.dirty:
            self.dirty.add(dst)
        else:
            self.dirty.discard(dst)
        self.state[dst] = "nonconf" if self.st(src) == "nonconf" else "need"
        f = dict(self._f(src))
        f["copy"] = True
        self.feat[dst] = f
        self.blessed.pop(dst, None)

    def remove(self, q, b, e, ok):
        bl = self.blessed.pop(q, None)
        if not ok:
            self.dirty.add(q)
            return
        old = self.entries(q)
        if e == MAXI32:
            new = [x for x in old if x[0] < b]
            if b <= 0:
                self.dirty.discard(q)
                self.state[q] = "ok"
                self.feat[q] = {"mid": None, "copy": False, "trunc": False}
            elif len(new) != len(old) or self.st(q) == "need":
                if bl == b and self.st(q) != "nonconf":
                    self.state[q] = "ok"
                    self._f(q)["trunc"] = True
                elif self.st(q) != "nonconf":
                    self.state[q] = "need"
            self.seq[q] = new
        else:
            new = [x for x in old if x[0] < b] + [[x[0] - (e - b), x[1]] for x in old if x[0] >= e]
            if len(new) != len(old) or any(x[0] >= e for x in old):
                self._f(q)["mid"] = b
            self.seq[q] = new

    def resume(self, q, p, r):
        if r:
            self.blessed[q] = p
        else:
            self.blessed.pop(q, None)

    def expected(self, q, p):
        return sorted((x[0], x[1]) for x in self.entries(q) if x[0] <= p and (self.w is None or x[0] >= p - self.w))


def multiset_diff(a, b):
    """a - b for sorted lists of tuples"""
    b = list(b)
    out = []
    for x in a:
        if x in b:
            b.remove(x)
        else:
            out.append(x)
    return out


def live_entries(cache):
    """impl snapshot -> per sequence sorted list of (pos, tok, kpos)"""
    out = {}
    for cell, ph in zip(cache["cells"], cache["phys"]):
        for q in cell[1]:
            out.setdefault(q, []).append((cell[0], tuple(ph) if isinstance(ph, list) else ph))
    for q in out:
        out[q].sort(key=lambda x: (x[0], str(x[1])))
    return out


def sub_windows(cfg):
    if cfg.get("kind") == "wrapper":
        return [cfg["window"] or None, cfg.get("window2") or None]
    if cfg.get("kind") == "encwrap":
        return [None]
    return [cfg["window"] or None]


def monitor_case(case, obs):
    """-> list of (sig, what, detail) for one history; a WrapperCache is judged on each of its two caches"""
    out = []
    if obs is None:
        return [({"class": "no-observation"}, "harness produced no observation", {})]
    if "panic" in obs and "steps" not in obs:
        return [({"class": "panic"}, "harness panicked: %s" % obs["panic"], {})]
    if obs.get("anomalies"):
        out.append(({"class": "backend-anomaly"}, "fake backend saw an inconsistent request: %s" % obs["anomalies"][:3], {}))
    if case["cfg"].get("kind") == "enc":
        return out + monitor_enc(case, obs)
    for k, w in enumerate(sub_windows(case["cfg"])):
        out.extend(monitor_sub(case, obs, k, w))
    if case["cfg"].get("kind") == "encwrap":
        out.extend(monitor_encwrap(case, obs))
    return out


class IdealImage:
    """EncoderCache: the one entry it holds belongs to the position of the most recent image; it is exposed
    (EncoderCached + Get) exactly as long as that position has not been removed, following the shifts of Remove"""

    def __init__(self):
        self.img = None      # [pos, id]
        self.unknown = False

    def remove(self, b, e):
        if self.img is None:
            return
        p = self.img[0]
        if b <= p < e:
            self.img = None
        elif p >= e and e != MAXI32:
            self.img[0] = p - (e - b)

    def check(self, st, si, layers, out):
        if self.unknown or "enc" not in st:
            return
        enc, get = st["enc"], st["get"]
        if enc["public"] and self.img is None:
            out.append(({"class": "encoder-exposes-removed"},
                        "step %d: EncoderCached() is true and Get returns image %s although the position the image was stored for has been removed"
                        % (si, get), {"step": si}))
        elif not enc["public"] and self.img is not None:
            out.append(({"class": "encoder-missing"},
                        "step %d: EncoderCached() is false although image %d at (shifted) position %d is still part of the sequence"
                        % (si, self.img[1], self.img[0]), {"step": si}))
        elif enc["public"] and any(g != self.img[1] for g in get[:layers]):
            out.append(({"class": "encoder-wrong-data"},
                        "step %d: Get returns %s, the stored image is %d" % (si, get, self.img[1]), {"step": si}))


def monitor_enc(case, obs):
    out = []
    ideal = IdealImage()
    cur = None      # the pass in flight: {"pos": p or None, "reserve": bool, "puts": {layer: img}}
    for si, st in enumerate(obs.get("steps", [])):
        pr = st["prim"]
        if "panic" in st:
            out.append(({"class": "panic", "op": pr["op"]}, "%s panicked: %s" % (pr["op"], st["panic"]), {"step": si}))
            break
        if pr["op"] == "estart":
            cur = {"pos": pr["pos"][pr["mm"][-1]] if pr["mm"] else None, "reserve": bool(pr.get("reserve")), "puts": {}}
        elif pr["op"] in ("eput", "ecompute") and cur is None:
            ideal.unknown = True          # not a pass the model code performs (only arises while shrinking)
        elif pr["op"] == "eput":
            cur["puts"][pr["layer"]] = pr["img"]
        elif pr["op"] == "ecompute":
            if pr["run"] and not cur["reserve"] and cur["pos"] is not None and set(cur["puts"]) == {0, 3} and len(set(cur["puts"].values())) == 1:
                ideal.img = [cur["pos"], cur["puts"][0]]
            elif cur["puts"] and (pr["run"] or not cur["reserve"]):
                ideal.unknown = True      # not a pass the model code performs
            ideal.check(st, si, 2, out)
            cur = None
        elif pr["op"] == "rm":
            ideal.remove(pr["b"], pr["e"])
            if cur is None:
                ideal.check(st, si, 2, out)
        elif pr["op"] == "resume" and not st.get("r"):
            out.append(({"class": "encoder-resume"}, "EncoderCache.CanResume answered false", {"step": si}))
    return out


def monitor_encwrap(case, obs):
    out = []
    ideal = IdealImage()
    seqpos = []
    for si, st in enumerate(obs.get("steps", [])):
        pr = st["prim"]
        if "panic" in st:
            break
        if pr["op"] == "fwd":
            if st.get("err"):
                if seqpos and min(pr["pos"]) <= max(seqpos):
                    ideal.unknown = True    # refused batch re-sending positions: the unwind is outside the protocol
            else:
                seqpos += pr["pos"]
                if pr.get("img"):
                    ideal.img = [pr["pos"][pr["img"]["at"]], pr["img"]["id"]]
        elif pr["op"] == "rm":
            if st.get("err"):
                ideal.unknown = True        # until the sequence is cleared
            else:
                ideal.remove(pr["b"], pr["e"])
                b, e = pr["b"], pr["e"]
                seqpos = [p for p in seqpos if p < b] + [p - (e - b) for p in seqpos if p >= e and e != MAXI32]
                if b <= 0 and e == MAXI32:
                    ideal.unknown, ideal.img = False, None
        ideal.check(st, si, 1, out)
    return out


def monitor_sub(case, obs, k, w):
    out = []
    wrapped = case["cfg"].get("kind") == "wrapper"
    tag = {"sub": k} if wrapped else {}
    ideal = Ideal(w)
    prev = None
    for si, st in enumerate(obs.get("steps", [])):
        pr = st["prim"]
        if "panic" in st:
            if k == 0:
                out.append(({"class": "panic", "op": pr["op"]}, "%s panicked: %s" % (pr["op"], st["panic"]), {"step": si}))
            break
        cache = st["caches"][k]
        if cache.get("layerdiff"):
            out.append(({"class": "layers-differ"}, "the layers of the cache hold different data after step %d" % si, {"step": si}))
        if pr["op"] == "fwd":
            batch = list(zip(pr["seqs"], pr["pos"], pr["toks"]))
            if st.get("err") == "backend":
                # the backend failed inside StartForward: the caller recovers with Remove(seq_k, pos_k, MaxInt32) (the next
                # steps); the window has moved as for a refused batch.  What matters is that every LATER history is exact.
                ideal.refused(batch)
                if wrapped:
                    for q in set(b[0] for b in batch):
                        if any(x[0] >= min(p for qq, p, _ in batch if qq == q) for x in ideal.entries(q)):
                            ideal.dirty.add(q)
            elif st.get("err") == "full":
                # a full cache is an error and leaves every live entry as it was (only sliding-window eviction may drop)
                before = live_entries(prev) if prev else {}
                after = live_entries(cache)
                low = {}
                for q, p, _ in batch:
                    low[q] = min(low.get(q, p), p)
                ideal.refused(batch)
                if wrapped:
                    # WrapperCache unwinds the caches that accepted the batch with Remove(seq, pos_k, MaxInt32).  With fresh
                    # positions (what the interface is used with) that removes the batch only; a batch that re-sends positions
                    # the sequence already holds is outside the protocol: the sequence counts as unspecified until cleared
                    for q in low:
                        if any(x[0] >= low[q] for x in ideal.entries(q)):
                            ideal.dirty.add(q)
                for q in set(before) | set(after):
                    if q in ideal.dirty:
                        continue
                    exp = [x for x in before.get(q, []) if not (w and q in low and x[0] < low[q] - w)]
                    if wrapped and k > 0 and after.get(q, []) == before.get(q, []):
                        continue      # an earlier cache of the wrapper refused the batch: this one was not asked
                    if exp != after.get(q, []):
                        out.append((dict({"class": "full-changed-live-entries", "window": bool(w)}, **tag),
                                    "StartForward returned ErrKvCacheFull but the live entries of sequence %d changed: %s -> %s" % (q, before.get(q), after.get(q)),
                                    {"step": si, "seq": q}))
                        break
            elif st.get("err"):
                if k == 0:
                    out.append(({"class": "forward-error", "err": st["err"][:40]}, "StartForward failed with %s" % st["err"], {"step": si}))
            else:
                ideal.forward(batch)
                f = st["fw"][k]
                if "length" not in f:
                    continue        # no layer of this configuration is stored in this cache
                if f.get("layerdiff"):
                    out.append(({"class": "layers-differ"}, "Get returned different histories for different layers at step %d" % si, {"step": si}))
                if f["length"] != f["max"] - f["min"] + 1 or f["cached"] != f["length"] or not f["padok"]:
                    out.append(({"class": "mask-shape"}, "mask/view shape inconsistent at step %d: %s" % (si, {x: f[x] for x in ("length", "cached", "min", "max", "rows", "padok")}), {"step": si}))
                for i, (q, p, t) in enumerate(batch):
                    if q in ideal.dirty:
                        continue
                    seen, bad = [], None
                    for j in f["vis"][i]:
                        v = f["view"][j - f["min"]] if 0 <= j - f["min"] < len(f["view"]) else "outside"
                        if not isinstance(v, list):
                            bad = (j, v)
                            break
                        if v[0] != v[2]:
                            bad = (j, "K holds token %d, V holds token %d" % (v[0], v[2]))
                            break
                        seen.append((v[1], v[0]))
                    if bad:
                        out.append((dict({"class": "exposed-garbage", "window": bool(w)}, **tag),
                                    "token %d of step %d (seq %d pos %d) attends to location %d which holds %s" % (i, si, q, p, bad[0], bad[1]), {"step": si, "token": i}))
                        continue
                    seen.sort()
                    exp = ideal.expected(q, p)
                    extra, missing = multiset_diff(seen, exp), multiset_diff(exp, seen)
                    if extra:
                        kind = classify_extra(ideal, q, p, extra, missing)
                        out.append((dict({"class": kind, "window": bool(w)}, **tag),
                                    "token %d of step %d (seq %d pos %d) attends to (kpos,token) %s which are not the entries stored for its sequence at positions <= %d%s; expected %s, exposed %s"
                                    % (i, si, q, p, extra, p, " in the window" if w else "", exp, seen), {"step": si, "token": i}))
                    elif missing and (w is None or ideal.st(q) == "ok"):
                        ft = ideal._f(q)
                        mid = ft["mid"] is not None and all(m[0] < ft["mid"] for m in missing)
                        out.append((dict({"class": "missing", "window": bool(w), "mid": bool(mid), "copy": bool(ft["copy"]), "trunc": bool(ft["trunc"])}, **tag),
                                    "token %d of step %d (seq %d pos %d) does not see the stored entries %s; expected %s, exposed %s"
                                    % (i, si, q, p, missing, exp, seen), {"step": si, "token": i}))
            # every mask that Get returns after a SetCausal call of this pass: tokens that are not exempt see exactly their
            # causal history, exempt tokens additionally the later entries of their own sequence (inside the window)
            if not st.get("err") and st.get("sc") and "length" in st["fw"][k]:
                f = st["fw"][k]
                for cj, (ex, per) in enumerate(zip(pr["sc"], st["sc"])):
                    r = per[k]
                    if r.get("layerdiff") or not r.get("padok", True) or r.get("length") != f["length"] or r.get("rows") != f["rows"]:
                        out.append((dict({"class": "mask-shape", "after": "setcausal"}, **tag), "mask after SetCausal call %d of step %d is inconsistent: %s"
                                    % (cj, si, {x: r.get(x) for x in ("length", "rows", "padok", "layerdiff")}), {"step": si}))
                        continue
                    for i, (q, p, t) in enumerate(batch):
                        if q in ideal.dirty:
                            continue
                        seen = []
                        for j in r["vis"][i]:
                            v = f["view"][j - f["min"]] if 0 <= j - f["min"] < len(f["view"]) else None
                            seen.append((v[1], v[0]) if isinstance(v, list) else ("?", j))
                        seen.sort(key=str)
                        if i in ex:
                            exp = sorted((x[0], x[1]) for x in ideal.entries(q) if w is None or x[0] >= p - w)
                        else:
                            exp = ideal.expected(q, p)
                        extra, missing = multiset_diff(seen, sorted(exp, key=str)), multiset_diff(sorted(exp, key=str), seen)
                        if extra:
                            later = all(isinstance(e[0], int) and e[0] > p for e in extra)
                            out.append((dict({"class": "setcausal-not-causal" if later and i not in ex else "setcausal-extra", "window": bool(w)}, **tag),
                                        "after SetCausal(Except=%s) (call %d of step %d) token %d (seq %d pos %d, %s) attends to %s; expected %s, exposed %s"
                                        % (ex, cj, si, i, q, p, "exempt" if i in ex else "not exempt", extra, exp, seen), {"step": si, "token": i}))
                        elif missing and (w is None or ideal.st(q) == "ok"):
                            ft = ideal._f(q)
                            mid = ft["mid"] is not None and all(m[0] < ft["mid"] for m in missing)
                            out.append((dict({"class": "missing", "after": "setcausal", "window": bool(w), "mid": bool(mid), "copy": bool(ft["copy"]), "trunc": bool(ft["trunc"])}, **tag),
                                        "after SetCausal(Except=%s) (call %d of step %d) token %d (seq %d pos %d) does not see %s"
                                        % (ex, cj, si, i, q, p, missing), {"step": si, "token": i}))
        elif pr["op"] == "reserve":
            if st.get("err"):
                out.append(({"class": "reserve-error"}, "StartForward(reserve) failed with %s" % st["err"], {"step": si}))
        elif pr["op"] == "copy":
            ideal.copy(pr["src"], pr["dst"], pr["len"])
        elif pr["op"] == "rm":
            ideal.remove(pr["seq"], pr["b"], pr["e"], not st.get("err"))
        elif pr["op"] == "resume":
            ideal.resume(pr["seq"], pr["pos"], st.get("r"))
        prev = cache
    return out


def classify_extra(ideal, q, p, extra, missing):
    own = {x[1]: x[0] for x in ideal.entries(q)}
    kinds = set()
    for kp, t in extra:
        if t in own:
            if any(m[1] == t for m in missing):
                kinds.add("wrong-position-data")      # right token, K carries another position than the entry has
            elif own[t] > p:
                kinds.add("later-position")
            else:
                kinds.add("outside-window")
        elif any(t == x[1] for qq, es in ideal.seq.items() if qq != q for x in es):
            kinds.add("foreign-sequence")
        else:
            kinds.add("removed-entry")
    return "exposes-" + "+".join(sorted(kinds))


# ------------------------------------------------------------------ generator

def cache_size(cfg):
    w, s, c, b = cfg["window"], cfg["maxseq"], cfg["capacity"], cfg["maxbatch"]
    if cfg.get("kind") == "wrapper":
        return min(cache_size(dict(cfg, kind="swa")), cache_size(dict(cfg, kind="causal", window=0)))
    raw = s * c if (not w or c < w) else s * w + b
    pad = cfg["cpad"] or 1
    return (raw + pad - 1) // pad * pad


def gen_cfg(rng, klass):
    cfg = {"kind": "causal", "window": 0, "layers": rng.choice([1, 2, 2, 3]), "permv": rng.random() < 0.4,
           "maskf16": rng.random() < 0.3, "shift": rng.random() < 0.85, "nodes": rng.choice([10, 16, 28, 40, 64, 8192]),
           "cpad": rng.choice([0, 1, 1, 1, 2, 4, 4, 32]), "bpad": rng.choice([0, 1, 1, 4, 32]),
           "maxseq": rng.choice([1, 2, 2, 3]), "capacity": rng.randint(2, 9), "maxbatch": rng.randint(1, 4)}
    if klass in SWA:
        cfg["window"] = rng.choice([1, 2, 2, 3, 3, 4, 5, 6, 7, 8])
        cfg["kind"] = "swa"
        cfg["capacity"] = rng.randint(2, 12)
    if klass == "wrapper":
        cfg["kind"] = "wrapper"
        cfg["layers"] = rng.choice([2, 2, 3, 4])
        cfg["window2"] = rng.choice([0, 0, 0, 1, 3, 5, 9])
    if klass == "encwrap":
        cfg.update({"kind": "encwrap", "window": 0, "maxseq": 1, "layers": 2, "capacity": rng.randint(4, 14), "cpad": rng.choice([0, 1])})
    if klass == "enc":
        cfg.update({"kind": "enc", "window": 0, "maxseq": 1, "cpad": rng.choice([0, 1])})
    if klass in ("defrag", "full"):
        cfg["cpad"] = rng.choice([0, 1, 1, 2])
        cfg["maxbatch"] = rng.randint(2, 4)
        cfg["capacity"] = rng.randint(4, 9)
    if cfg["cpad"] == 32:
        cfg["capacity"] = rng.randint(2, 5)
    return cfg


class Sim:
    """generation-time bookkeeping only (never used for verdicts): which positions each sequence has, roughly how
    many locations are in use"""

    def __init__(self, cfg):
        self.cfg = cfg
        self.n = cache_size(cfg)
        self.ent = []   # [pos, set(owners)]
        self.tok = 0

    def pos(self, q):
        return sorted(e[0] for e in self.ent if q in e[1])

    def used(self):
        return sum(1 for e in self.ent if e[1])

    def nexttok(self):
        self.tok += 1
        return self.tok

    def gc(self):
        self.ent = [e for e in self.ent if e[1]]

    def evict(self, batch):
        w = self.cfg["window"]
        if w:
            low = {}
            for q, p, _ in batch:
                low[q] = min(low.get(q, p), p)
            for e in self.ent:
                for q in list(e[1]):
                    if q in low and e[0] < low[q] - w:
                        e[1].discard(q)
            self.gc()

    def fwd(self, batch):
        w = self.cfg["window"]
        if w:
            low = {}
            for q, p, _ in batch:
                low[q] = min(low.get(q, p), p)
            for e in self.ent:
                for q in list(e[1]):
                    if q in low and e[0] < low[q] - w:
                        e[1].discard(q)
            self.gc()
        if self.n - self.used() >= len(batch):
            for q, p, _ in batch:
                self.ent.append([p, {q}])

    def copy(self, s, d, n):
        for e in self.ent:
            e[1].discard(d)
            if s in e[1] and e[0] < n:
                e[1].add(d)
        self.gc()

    def rm(self, q, b, e):
        for x in self.ent:
            if q in x[1]:
                if b <= x[0] < e:
                    x[1].discard(q)
                elif x[0] >= e and len(x[1]) == 1 and e != MAXI32:
                    x[0] -= e - b
        self.gc()


def gen_sc(rng, n):
    """the SetCausal calls of a pass: gemma3 calls SetCausal(ctx, Except) before every layer - an empty list for a text batch,
    the indices of the image tokens otherwise; also a reset to the empty list inside the pass, repeated and changed lists"""
    def ex():
        k = rng.randint(1, n)
        a = rng.randint(0, n - k)
        return list(range(a, a + k)) if rng.random() < 0.7 else sorted(rng.sample(range(n), k))
    r = rng.random()
    if r < 0.35:
        return [[]]
    if r < 0.55:
        return [ex()]
    if r < 0.8:
        return [ex(), []]
    if r < 0.9:
        e = ex()
        return [e, e, [], ex()]
    return [ex(), ex(), []]


def gen_fwd(rng, sim, seqs, n, style="append"):
    batch, nxt = [], {}
    q0 = rng.choice(seqs)
    mix = rng.random() < 0.35
    for _ in range(n):
        q = rng.choice(seqs) if mix else q0
        ps = sim.pos(q)
        base = nxt.get(q, (ps[-1] + 1) if ps else 0)
        r = rng.random()
        if style == "wild" and r < 0.15:
            p = base + rng.randint(1, 3)
        elif style == "wild" and r < 0.25 and base > 0:
            p = rng.randint(0, base - 1)
        else:
            p = base
        nxt[q] = p + 1
        batch.append((q, p, sim.nexttok()))
    o = {"op": "fwd", "seqs": [b[0] for b in batch], "pos": [b[1] for b in batch], "toks": [b[2] for b in batch]}
    if sim.cfg.get("kind") in ("causal", "swa", "wrapper") and rng.random() < 0.3:
        o["sc"] = gen_sc(rng, n)
    return o, batch


def gen_history(rng, cfg, klass, nops):
    sim = Sim(cfg)
    seqs = list(range(cfg["maxseq"])) + ([cfg["maxseq"]] if rng.random() < 0.2 else [])
    B = cfg["maxbatch"]
    ops = []

    def fwd(n, style="append", only=None):
        o, batch = gen_fwd(rng, sim, only or seqs, n, style)
        sim.fwd(batch)
        ops.append(o)

    def fwdf(n, only=None):
        """a forward pass during which the mask upload fails (then the batch is taken back by the recovery)"""
        o, batch = gen_fwd(rng, sim, only or seqs, n)
        o["op"] = "fwdf"
        o["fault"] = {"mask": rng.choice([1, 1, 2]) if cfg["kind"] == "wrapper" else 1}
        sim.evict(batch)
        ops.append(o)

    def rm(q, b, e, raw=False):
        o = {"op": "rm" if raw else "rmc", "seq": q, "b": b, "e": e}
        if e != MAXI32 and cfg["shift"] and rng.random() < 0.1:
            o["fault"] = {"shift": rng.choice(["alloc", "fn"])}
        ops.append(o)
        if not o.get("fault"):
            sim.rm(q, b, e)
        elif not raw:
            sim.rm(q, 0, MAXI32)

    if klass in ("defrag", "full"):
        # fill the cache sequence after sequence, punch holes at the front / in the middle, keep the tail live
        for q in seqs[:cfg["maxseq"]]:
            k = rng.randint(max(1, cfg["capacity"] - 2), cfg["capacity"])
            while k > 0 and sim.n - sim.used() > 0:
                n = min(k, rng.randint(1, B), sim.n - sim.used())
                fwd(n, only=[q])
                k -= n
        for _ in range(rng.randint(1, 3)):
            q = rng.choice(seqs[:cfg["maxseq"]])
            ps = sim.pos(q)
            if not ps:
                continue
            r = rng.random()
            if r < 0.45 and len(ps) >= 3:
                b = rng.randint(0, len(ps) - 2)
                e = min(len(ps), b + rng.randint(1, 3))
                rm(q, ps[b], ps[e - 1] + 1)
            elif r < 0.75:
                rm(q, ps[rng.randint(0, len(ps) - 1)], MAXI32)
            else:
                rm(q, 0, ps[rng.randint(0, len(ps) - 1)] + 1)
        free = sim.n - sim.used()
        if klass == "full":
            fwd(free + rng.randint(1, 2))
        elif free >= 1:
            if rng.random() < 0.35:
                fwdf(rng.randint(max(1, free - 1), free))      # the backend fails in the pass that had to defragment
            fwd(rng.randint(max(1, free - 1), free))
    if klass == "swa-shift":
        # what ShiftCacheSlot does on a sliding-window cache: keep a prefix, discard a middle range, continue at the end
        q = rng.choice(seqs[:cfg["maxseq"]])
        total = cfg["window"] + rng.randint(2, 6)
        k = 0
        while k < total:
            n = min(total - k, rng.randint(1, B))
            fwd(n, only=[q])
            k += n
        keep = rng.randint(0, 2)
        rm(q, keep, keep + rng.randint(1, max(1, total - keep - 1)))
        fwd(1, only=[q])
    if klass == "copy" and len(seqs) >= 2:
        a, b = rng.sample(seqs, 2)
        for _ in range(rng.randint(1, 3)):
            fwd(rng.randint(1, B), only=[a])
        pa = sim.pos(a)
        if pa:
            n = rng.choice(pa + [pa[-1] + 1])
            ops.append({"op": "copy", "src": a, "dst": b, "len": n})
            sim.copy(a, b, n)
            fwd(rng.randint(1, B), only=[b])
            fwd(rng.randint(1, B), only=[a])
            v = rng.choice([a, b])
            pv = sim.pos(v)
            if n >= 2 and rng.random() < 0.6:
                # a range that ends inside the shared prefix: the cells behind it are shared and cannot be shifted
                b0 = rng.randint(0, n - 2)
                rm(v, b0, rng.randint(b0 + 1, n - 1), raw=rng.random() < 0.3)
            elif len(pv) >= 2:
                x = rng.randint(0, len(pv) - 2)
                rm(v, pv[x], pv[rng.randint(x, len(pv) - 2)] + 1, raw=rng.random() < 0.3)
    style = "wild" if (klass == "wild" and not cfg["window"]) else "append"
    while len(ops) < nops:
        r = rng.random()
        have = [q for q in seqs if sim.pos(q)]
        free = sim.n - sim.used()
        if cfg["kind"] in ("causal", "swa") and rng.random() < 0.06:
            # a reservation pass (worst-case graph): must leave the cache as it is
            n = rng.randint(1, max(1, min(B, sim.n)))     # a reservation batch never exceeds the cache
            ops.append({"op": "reserve", "seqs": [rng.choice(seqs)] * n, "pos": list(range(n)), "toks": [9000 + i for i in range(n)]})
            continue
        if free < B and have and rng.random() < 0.6:
            r = 0.45 + 0.2 * rng.random()
        if klass in SWA and r < 0.55:
            fwd(rng.randint(1, B), only=[rng.choice(seqs)] if rng.random() < 0.7 else None)
        elif r < 0.45 or not have:
            n = rng.randint(1, B)
            if rng.random() < 0.08:
                n = free + 1
            if style == "append" and rng.random() < 0.06:
                fwdf(max(1, n))
            fwd(max(1, n), style)
        elif r < 0.65:
            q = rng.choice(have)
            ps = sim.pos(q)
            k = rng.random()
            raw = rng.random() < 0.25
            shared = sorted(x[0] for x in sim.ent if q in x[1] and len(x[1]) > 1 and x[0] > 0)
            if shared and rng.random() < 0.4:
                e0 = rng.choice(shared)
                rm(q, rng.randint(max(0, e0 - 2), e0 - 1), e0, raw)
            elif k < 0.35:
                rm(q, rng.choice(ps + [ps[-1] + 1]), MAXI32, raw)
            elif k < 0.55:
                rm(q, 0, rng.choice(ps) + 1, raw)
            elif k < 0.9 and len(ps) >= 2:
                b = rng.randint(0, len(ps) - 1)
                e = rng.randint(b, len(ps) - 1)
                rm(q, ps[b], ps[e] + 1, raw)
            else:
                rm(q, 0, MAXI32, raw)
        elif r < 0.75 and len(seqs) >= 2:
            s = rng.choice(have)
            d = rng.choice([x for x in seqs if x != s])
            n = rng.choice(sim.pos(s) + [sim.pos(s)[-1] + 1, 0])
            ops.append({"op": "copy", "src": s, "dst": d, "len": n})
            sim.copy(s, d, n)
            if rng.random() < 0.7:
                ops.append({"op": "load", "seq": d, "pos": rng.randint(max(0, n - 2), n)})
        elif r < 0.9:
            q = rng.choice(have)
            ps = sim.pos(q)
            p = rng.choice(ps + [ps[-1] + 1])
            if cfg["window"] and rng.random() < 0.6:
                p = max(0, ps[-1] + 1 - rng.randint(0, 2))
            ops.append({"op": "load", "seq": q, "pos": p})
            # the outcome depends on CanResume; the bookkeeping assumes the resume was granted
            sim.rm(q, p, MAXI32)
        else:
            q = rng.choice(have)
            ops.append({"op": "resume", "seq": q, "pos": rng.choice(sim.pos(q) + [sim.pos(q)[-1] + 1])})
    # probes: one more token for every sequence, so that whatever the history left behind gets exposed
    for q in seqs:
        ps = sim.pos(q)
        if ps:
            o, batch = gen_fwd(rng, sim, [q], 1)
            o["probe"] = True
            sim.fwd(batch)
            ops.append(o)
    return ops


SWA = ("swa", "swa-resume", "swa-copy", "swa-shift", "wrapper")
KLASSES = ["mixed", "mixed", "defrag", "defrag", "defrag", "full", "copy", "copy", "remove", "wild", "swa", "swa", "swa-resume", "swa-copy", "swa-shift", "wrapper", "wrapper", "enc", "encwrap", "encwrap"]


def gen_enc(rng, nops):
    """EncoderCache alone: forward passes (with / without an image, reservation passes), context shifts, truncations"""
    ops, n, img = [], 0, 0
    for _ in range(nops):
        r = rng.random()
        if r < 0.45 or n == 0:
            k = rng.randint(1, 4)
            pos = list(range(n, n + k))
            mm = sorted(rng.sample(range(k), rng.randint(1, min(2, k)))) if rng.random() < 0.5 else []
            reserve = rng.random() < 0.15
            ops.append({"op": "estart", "pos": pos, "mm": mm, "reserve": reserve})
            if mm or reserve:
                img += 1
                for l in (0, 3):
                    ops.append({"op": "eput", "layer": l, "img": 90 if reserve else img})
            ops.append({"op": "ecompute", "run": not reserve})
            if not reserve:
                n += k
        elif r < 0.9:
            k = rng.random()
            if k < 0.5 and n >= 2:
                b = rng.randint(0, n - 2)
                e = rng.randint(b + 1, n - 1)
                ops.append({"op": "rm", "seq": 0, "b": b, "e": e})
                n -= e - b
            elif k < 0.85:
                b = rng.randint(0, n)
                ops.append({"op": "rm", "seq": 0, "b": b, "e": MAXI32})
                n = b
            else:
                ops.append({"op": "rm", "seq": 0, "b": 0, "e": MAXI32})
                n = 0
        else:
            ops.append({"op": "resume", "seq": 0, "pos": rng.randint(0, n)})
    return ops


def gen_encwrap(rng, cfg, nops):
    """WrapperCache(EncoderCache, Causal), one sequence: stores with and without an image, context shifts, reloads"""
    sim = Sim(dict(cfg, kind="causal"))
    ops = []
    B = cfg["maxbatch"]
    while len(ops) < nops:
        r = rng.random()
        ps = sim.pos(0)
        free = sim.n - sim.used()
        if (r < 0.5 and free > 0) or not ps:
            o, batch = gen_fwd(rng, sim, [0], max(1, min(rng.randint(1, B), free if rng.random() < 0.9 else free + 1)))
            if rng.random() < 0.45:
                o["img"] = {"at": rng.randrange(len(batch)), "id": sim.nexttok()}
            sim.fwd(batch)
            ops.append(o)
        elif r < 0.8:
            k = rng.random()
            if k < 0.55 and len(ps) >= 2:
                b = rng.randint(0, len(ps) - 2)
                e = rng.randint(b + 1, len(ps) - 1)
                ops.append({"op": "rmc", "seq": 0, "b": ps[b], "e": ps[e]})
                sim.rm(0, ps[b], ps[e])
            else:
                b = rng.choice(ps + [ps[-1] + 1])
                ops.append({"op": "rmc", "seq": 0, "b": b, "e": MAXI32})
                sim.rm(0, b, MAXI32)
        elif r < 0.93:
            p = rng.choice(ps + [ps[-1] + 1])
            ops.append({"op": "load", "seq": 0, "pos": p})
            sim.rm(0, p, MAXI32)
        else:
            ops.append({"op": "resume", "seq": 0, "pos": rng.choice(ps)})
    if sim.pos(0) and sim.n - sim.used() > 0:
        o, batch = gen_fwd(rng, sim, [0], 1)
        o["probe"] = True
        ops.append(o)
    return ops


def gen_case(rng, klass=None, nops=None):
    klass = klass or rng.choice(KLASSES)
    cfg = gen_cfg(rng, klass)
    if klass == "enc":
        return {"cfg": cfg, "ops": gen_enc(rng, nops or rng.randint(4, 14)), "klass": klass}
    if klass == "encwrap":
        return {"cfg": cfg, "ops": gen_encwrap(rng, cfg, nops or rng.randint(5, 16)), "klass": klass}
    if klass in SWA and nops is None:
        nops = rng.randint(8, 22)
    if klass in ("copy", "swa-copy") and cfg["maxseq"] < 2:
        cfg["maxseq"] = 2
    return {"cfg": cfg, "ops": gen_history(rng, cfg, klass, nops or rng.randint(4, 14)), "klass": klass}


def corpus_cases():
    d = os.path.join(vlib.VERIF, "corpus", "C06")
    out = []
    if os.path.isdir(d):
        for f in sorted(os.listdir(d)):
            if f.endswith(".json"):
                c = json.load(open(os.path.join(d, f)))
                c.setdefault("klass", "corpus")
                out.append(c)
    return out


# ------------------------------------------------------------------ rendering into Coq

def zl(xs):
    return "[" + ";".join(str(x) if x >= 0 else "(%d)" % x for x in xs) + "]"


def zn(x):
    return str(x) if x >= 0 else "(%d)" % x


def r_op(pr):
    if pr["op"] == "reserve":
        return "ZV [" + ";".join("(%d,%s,%d)" % (q, zn(p), t) for q, p, t in zip(pr["seqs"], pr["pos"], pr["toks"])) + "]"
    if pr["op"] == "fwd" and pr.get("sc") is not None and not (pr.get("fault") or {}).get("mask"):
        return "ZF [" + ";".join("(%d,%s,%d)" % (q, zn(p), t) for q, p, t in zip(pr["seqs"], pr["pos"], pr["toks"])) + "]"
    if pr["op"] == "fwd" and (pr.get("fault") or {}).get("mask"):
        return "ZFf [" + ";".join("(%d,%s,%d)" % (q, zn(p), t) for q, p, t in zip(pr["seqs"], pr["pos"], pr["toks"])) + "] %d" % (pr["fault"]["mask"] - 1)
    if pr["op"] == "rm" and (pr.get("fault") or {}).get("shift"):
        return "ZRf %d %s %s" % (pr["seq"], zn(pr["b"]), zn(pr["e"]))
    if pr["op"] == "fwd":
        return "ZF [" + ";".join("(%d,%s,%d)" % (q, zn(p), t) for q, p, t in zip(pr["seqs"], pr["pos"], pr["toks"])) + "]"
    if pr["op"] == "copy":
        return "ZC %d %d %s" % (pr["src"], pr["dst"], zn(pr["len"]))
    if pr["op"] == "rm":
        return "ZR %d %s %s" % (pr["seq"], zn(pr["b"]), zn(pr["e"]))
    return "ZQ %d %s" % (pr["seq"], zn(pr["pos"]))


def r_out(st, k=0):
    pr = st["prim"]
    if "panic" in st:
        return "BPanic"
    if pr["op"] == "reserve":
        if st.get("err"):
            return "BPanic"
        f = st["fw"][k]
        return "(BFwd %d %s %s [])" % (f["loc"], zn(f["min"]), zn(f["max"]))
    if pr["op"] == "fwd":
        if st.get("err") == "full":
            return "BFull"
        if st.get("err") == "backend":
            return "BBackend"
        if st.get("err"):
            return "BPanic"
        f = st["fw"][k]
        return "(BFwd %d %s %s [%s])" % (f["loc"], zn(f["min"]), zn(f["max"]), ";".join(zl(v) for v in f["vis"]))
    if pr["op"] == "rm":
        if not st.get("err"):
            return "BOk"
        if st["err"] == "notsupported":
            return "BNotSupported"
        if st["err"] == "backend":
            return "BBackend"
        if "shared" in st["err"]:
            return "BShared"
        return "BPanic"
    if pr["op"] == "resume":
        return "(BBool %s)" % ("true" if st["r"] else "false")
    return "BOk"


def r_obs(st, k=0):
    if "panic" in st:
        return "(mkObs BPanic [] [] [] false)"
    c = st["caches"][k]
    cells = "[" + ";".join("(%s,%s)" % (zn(x[0]), zl(x[1])) for x in c["cells"]) + "]"
    ranges = "[" + ";".join("(%d,(%s,%s))" % (r[0], zn(r[1]), zn(r[2])) for r in c["ranges"]) + "]"
    phys = "[" + ";".join("None" if not isinstance(p, list) else "Some (%s,%s)" % (zn(p[0]), zn(p[1])) for p in c["phys"]) + "]"
    return "(mkObs %s %s %s %s %s)" % (r_out(st, k), cells, ranges, phys, "true" if c["nlayers"] > 0 else "false")


def r_bool(b):
    return "true" if b else "false"


def r_enc(st):
    if "panic" in st or "enc" not in st:
        return "None"
    e = st["enc"]
    if any(isinstance(g, str) for g in st["get"]):
        return "(Some (mkZE false (-7) 0 false []))"      # garbled data: cannot agree with the model
    get = "[" + ";".join("None" if g is None else "Some %d" % g for g in st["get"]) + "]"
    return "(Some (mkZE %s %s %s %s %s))" % (r_bool(e["cached"]), zn(e["pos"]), zn(e["cur"]), r_bool(e["reserve"]), get)


def r_eop(pr):
    if pr["op"] == "estart":
        return "ZES %s %s %s" % (zl(pr["pos"]), zl(pr["mm"]), r_bool(pr.get("reserve")))
    if pr["op"] == "eput":
        return "ZEP %d %d" % (pr["layer"], pr["img"])
    if pr["op"] == "ecompute":
        return "ZEC %s" % r_bool(pr["run"])
    if pr["op"] == "rm":
        return "ZER %s %s" % (zn(pr["b"]), zn(pr["e"]))
    return "ZEQ"


def r_ewop(pr):
    if pr["op"] == "fwd":
        img = "(Some (%d,%d))" % (pr["img"]["at"], pr["img"]["id"]) if pr.get("img") else "None"
        return "ZWF [" + ";".join("(%d,%s,%d)" % (q, zn(p), t) for q, p, t in zip(pr["seqs"], pr["pos"], pr["toks"])) + "] " + img
    if pr["op"] == "rm":
        return "ZWR %d %s %s" % (pr["seq"], zn(pr["b"]), zn(pr["e"]))
    return "ZWQ %d %s" % (pr["seq"], zn(pr["pos"]))


def r_fwd_sc(st):
    pr = st["prim"]
    batch = "[" + ";".join("(%d,%s,%d)" % (q, zn(p), t) for q, p, t in zip(pr["seqs"], pr["pos"], pr["toks"])) + "]"
    calls = "[" + ";".join(zl(ex) for ex in pr["sc"]) + "]"
    obs = []
    for k in range(2):
        rows = []
        for per in st.get("sc") or []:
            if k < len(per) and "vis" in per[k]:
                rows.append("[" + ";".join(zl(v) for v in per[k]["vis"]) + "]")
        obs.append("[" + ";".join(rows) + "]")
    if not st.get("sc"):
        calls = "[]"        # the pass failed before any SetCausal call
    return "ZFs %s %s %s %s" % (batch, calls, obs[0], obs[1])


def r_opx(st):
    pr = st["prim"]
    if pr["op"] == "fwd" and pr.get("sc") is not None and not (pr.get("fault") or {}).get("mask"):
        return r_fwd_sc(st)
    return r_op(pr)


def r_step(case, st):
    kind = case["cfg"].get("kind")
    if kind == "enc":
        return "(%s, %s)" % (r_eop(st["prim"]), r_enc(st))
    if kind == "encwrap":
        return "(%s, (%s, %s))" % (r_ewop(st["prim"]), r_enc(st), r_obs(st, 0))
    if kind == "wrapper":
        return "(%s, (%s, %s))" % (r_opx(st), r_obs(st, 0), r_obs(st, 1))
    return "(%s, %s)" % (r_opx(st), r_obs(st))


def r_cfg(cfg):
    return "(mkCfg %d %d %d %d %d %d %s)" % (cfg["window"], cfg["maxseq"], cfg["capacity"], cfg["maxbatch"], cfg["cpad"], cfg["bpad"],
                                            "true" if cfg["shift"] else "false")


def unrenderable(obs):
    """garbled physical data cannot be expressed as a model observation: the case then counts as a disagreement"""
    for st in obs.get("steps", []):
        for c in st.get("caches", []) or []:
            if any(isinstance(p, str) for p in c["phys"]):
                return True
    return False


def render(case, obs):
    if unrenderable(obs):
        return "false"
    steps = ";\n      ".join(r_step(case, st) for st in obs["steps"])
    kind = case["cfg"].get("kind")
    if kind == "enc":
        return "chk_ehistory %s\n     [%s]" % (FX, steps)
    if kind == "encwrap":
        return "chk_ewhistory %s %s %d\n     [%s]" % (FX, r_cfg(case["cfg"]), obs["ncells"][0], steps)
    if kind == "wrapper":
        return "chk_whistory2 %s %s %d %d %d\n     [%s]" % (FX, r_cfg(case["cfg"]), case["cfg"].get("window2", 0), obs["ncells"][0], obs["ncells"][1], steps)
    return "chk_history %s %s %d\n     [%s]" % (FX, r_cfg(case["cfg"]), obs["ncells"][0], steps)


def model_term(case, obs):
    if case["cfg"].get("kind") in ("enc", "encwrap"):
        return "tt"
    ops = ";".join(r_op(st["prim"]) for st in obs["steps"])
    steps = ";\n      ".join(r_step(case, st) for st in obs["steps"])
    sfx = "_w" if case["cfg"].get("kind") == "wrapper" else ""
    return "(where_diff%s %s %s [%s], model_trace%s %s %s [%s])" % (sfx, FX, r_cfg(case["cfg"]), steps, sfx, FX, r_cfg(case["cfg"]), ops)


# ------------------------------------------------------------------ running

def features(case, obs):
    fs = set()
    prev = None
    if case["cfg"].get("kind") == "enc":
        for st in obs.get("steps", []):
            if "panic" in st:
                fs.add("panic")
                break
            fs.add("enc-" + st["prim"]["op"])
            if st.get("enc", {}).get("public"):
                fs.add("history>=2")
            if st["prim"]["op"] == "rm" and st["prim"]["e"] != MAXI32:
                fs.add("enc-shift")
        return fs
    if case["cfg"].get("kind") == "encwrap" and any(st.get("enc", {}).get("public") for st in obs.get("steps", [])):
        fs.add("enc-cached")
    for st in obs.get("steps", []):
        pr = st["prim"]
        if "panic" in st:
            fs.add("panic")
            break
        c = st["caches"][0]
        if st.get("moves"):
            fs.add("defrag-moves")
            m = max(x[2] for x in st["moves"])
            if m >= 2:
                fs.add("defrag-merged>=2")
            if m >= 3:
                fs.add("defrag-merged>=3")
            if len(st["moves"]) >= 2:
                fs.add("defrag-several-moves")
        if st.get("err") == "backend":
            fs.add("fault-" + pr["op"])
            if st.get("moves"):
                fs.add("fault-fwd+defrag")
        if pr["op"] == "fwd" and st.get("sc"):
            fs.add("setcausal")
            if any(ex for ex in pr["sc"]):
                fs.add("setcausal-except")
            if any(a and not b for a, b in zip(pr["sc"], pr["sc"][1:])):
                fs.add("setcausal-reset-in-pass")
        if pr["op"] == "fwd":
            if st.get("err") == "full":
                fs.add("full")
            elif not st.get("err"):
                f = st["fw"][0]
                if any(len(v) >= 2 for v in f["vis"]):
                    fs.add("history>=2")
                if len(set(pr["seqs"])) > 1:
                    fs.add("mixed-batch")
            if prev is not None:
                moved = [i for i, (a, b) in enumerate(zip(prev["cells"], c["cells"])) if a[1] and a != b
                         and not (st.get("fw") and st["fw"][0]["loc"] <= i < st["fw"][0]["loc"] + len(pr["seqs"]))]
                gone = [i for i in moved if not c["cells"][i][1]]
                if gone and any(b[1] and not a[1] for a, b in zip(prev["cells"], c["cells"])):
                    fs.add("defrag")
                if case["cfg"]["window"] and any(len(b[1]) < len(a[1]) for a, b in zip(prev["cells"], c["cells"])):
                    fs.add("evict")
        elif pr["op"] == "rm":
            if st.get("err"):
                fs.add("rm-" + ("notsupported" if st["err"] == "notsupported" else "shared"))
            elif pr["e"] != MAXI32:
                fs.add("rm-shift")
            else:
                fs.add("rm-suffix")
        elif pr["op"] == "reserve":
            fs.add("reserve")
        elif pr["op"] == "copy":
            fs.add("copy")
        elif pr["op"] == "resume":
            fs.add("resume-" + str(st.get("r")).lower())
        prev = c
    return fs


def run_cases(ctx, binp, cases):
    obs, err = ctx.run_jsonl(binp, [{"cfg": c["cfg"], "ops": c["ops"]} for c in cases])
    if obs is None or len(obs) != len(cases):
        return None, err
    return obs, err


def shrink(ctx, binp, case, sig):
    """delta debugging on the operation list: smallest history on which the monitor still reports the same class"""
    def fails(ops):
        c = {"cfg": case["cfg"], "ops": ops}
        o, _ = run_cases(ctx, binp, [c])
        if not o:
            return False
        return any(v[0].get("class") == sig.get("class") for v in monitor_case(c, o[0]))
    ops = vlib.ddmin(case["ops"], fails, max_tests=150)
    c = {"cfg": dict(case["cfg"]), "ops": ops, "klass": case.get("klass")}
    # simplify the configuration where the failure does not depend on it
    for k, v in (("layers", 2 if case["cfg"].get("kind") == "wrapper" else 1), ("permv", False), ("maskf16", False), ("bpad", 1), ("cpad", 1), ("nodes", 8192)):
        if c["cfg"].get(k) != v:
            c2 = {"cfg": dict(c["cfg"], **{k: v}), "ops": ops}
            o, _ = run_cases(ctx, binp, [c2])
            if o and any(x[0].get("class") == sig.get("class") for x in monitor_case(c2, o[0])):
                c["cfg"][k] = v
    o, _ = run_cases(ctx, binp, [c])
    vs = [v for v in monitor_case(c, o[0]) if v[0].get("class") == sig.get("class")] if o else []
    return c, (o[0] if o else None), (vs[0] if vs else None)


def report(ctx, binp, case, obs, viols):
    seen = set()
    for sig, what, detail in viols:
        key = json.dumps(sig, sort_keys=True)
        if key in seen:
            continue
        seen.add(key)
        if key in ctx.extra.setdefault("_reported", set()):
            ctx.violation(sig, what, {"case": case, "note": "same signature as an earlier shrunk violation"})
            continue
        small, sobs, v = shrink(ctx, binp, case, sig)
        if v is None:
            small, sobs, v = case, obs, (sig, what, detail)
        ctx.extra["_reported"].add(json.dumps(v[0], sort_keys=True))
        ctx.violation(v[0], v[1], {"case": {"cfg": small["cfg"], "ops": small["ops"]}, "detail": v[2],
                                   "impl_steps": [{k: s.get(k) for k in ("prim", "err", "r", "fw", "panic")} | {"cells": s["caches"][0]["cells"], "phys": s["caches"][0]["phys"]}
                                                  if "caches" in s else s for s in (sobs or {}).get("steps", [])],
                                   "replay": "python3 check.py C06 --replay <this file>"})


def evaluate(ctx, binp, cases, search=True):
    obs, err = run_cases(ctx, binp, cases)
    if obs is None:
        ctx.obligation("harness c06 answered every case", False, err or "")
        ctx.proof_failures.append({"obligation": "correspondence: harness c06 did not answer every case", "detail": err})
        return
    items = []
    for c, o in zip(cases, obs):
        fs = features(c, o)
        ctx.note_case({"cfg": c["cfg"], "ops": c["ops"]}, "history>=2" in fs, c.get("klass"),
                      sample={"case": {"cfg": c["cfg"], "ops": c["ops"][:6]}, "features": sorted(fs)})
        for f in fs:
            ctx.count("feature:" + f)
        ctx.count("ops", len(o.get("steps", [])))
        viols = monitor_case(c, o)
        if viols:
            report(ctx, binp, c, o, viols)
        items.append(render(c, o))
    bad, log = ctx.coq_eval(HEADER, items, per_file=max(4, len(items) // (2 * vlib.NCPU) + 1))
    if bad is None:
        ctx.obligation("correspondence: model evaluated on all cases", False, log)
        ctx.proof_failures.append({"obligation": "correspondence evaluation failed in coqc", "detail": log})
        return
    ctx.disagreements_checked += len(items)
    ctx.obligation("correspondence: model = implementation after every operation of %d histories" % len(items), not bad)
    for i in bad[:12]:
        c, o = cases[i], obs[i]
        model = ctx.coq_print(HEADER, model_term(c, o)) if len(ctx.mismatches) < 2 and not unrenderable(o) else None
        found = False
        if search and not [v for v in ctx.violations if not vlib.match_known(ctx.known, v["sig"])] and c["cfg"].get("kind") not in ("enc", "encwrap"):
            found = search_around(ctx, binp, c)
        if not found:
            ctx.mismatch("KvCache/Corr.chk_*history (state and result after every operation, kind %s)" % c["cfg"].get("kind"), {"cfg": c["cfg"], "ops": c["ops"]},
                         [{k: s.get(k) for k in ("prim", "err", "r", "panic")} | ({"cells": s["caches"][0]["cells"], "ranges": s["caches"][0]["ranges"], "phys": s["caches"][0]["phys"]} if "caches" in s else {})
                          for s in o.get("steps", [])], model)


def search_around(ctx, binp, case):
    """model and implementation disagree but the monitor was silent: extend the history (more stores, removals,
    probes of every sequence) looking for a continuation on which the property itself fails on the implementation"""
    import random
    rng = random.Random(ctx.seed * 7919 + len(case["ops"]))
    tries = []
    for k in range(60):
        cfg = case["cfg"]
        sim = Sim(cfg)
        sim.tok = 5000 + 50 * k
        ops = [o for o in case["ops"] if not o.get("probe")]
        if k % 3 == 0 and len(ops) > 1:
            ops = ops[:rng.randint(1, len(ops))]
        for o in ops:     # bring the bookkeeping up to date
            if o["op"] == "fwd":
                sim.fwd(list(zip(o["seqs"], o["pos"], o["toks"])))
            elif o["op"] == "copy":
                sim.copy(o["src"], o["dst"], o["len"])
            elif o["op"] in ("rm", "rmc"):
                sim.rm(o["seq"], o["b"], o["e"])
            elif o["op"] == "load":
                sim.rm(o["seq"], o["pos"], MAXI32)
            elif o["op"] == "fwdf":
                sim.evict(list(zip(o["seqs"], o["pos"], o["toks"])))
        seqs = sorted({q for e in sim.ent for q in e[1]} | set(range(cfg["maxseq"])))
        ext = []
        for _ in range(rng.randint(1, 6)):
            r = rng.random()
            have = [q for q in seqs if sim.pos(q)]
            if r < 0.5 or not have:
                o, b = gen_fwd(rng, sim, seqs, rng.randint(1, max(1, cfg["maxbatch"])))
                sim.fwd(b)
                ext.append(o)
            elif r < 0.75:
                # what LoadCacheSlot does: ask CanResume, truncate there (or clear), continue
                q = rng.choice(have)
                ps = sim.pos(q)
                p = rng.choice(ps[-3:] + [ps[-1] + 1])
                ext.append({"op": "load", "seq": q, "pos": p})
                sim.rm(q, p, MAXI32)
                o, b = gen_fwd(rng, sim, [q], 1)
                sim.fwd(b)
                ext.append(o)
            else:
                q = rng.choice(have)
                ps = sim.pos(q)
                b = rng.choice(ps)
                e = rng.choice([MAXI32, b + 1, ps[-1] + 1])
                ext.append({"op": "rmc", "seq": q, "b": b, "e": e})
                sim.rm(q, b, e)
        for q in seqs:
            if sim.pos(q):
                o, b = gen_fwd(rng, sim, [q], 1)
                sim.fwd(b)
                ext.append(o)
        tries.append({"cfg": cfg, "ops": ops + ext, "klass": "search"})
    obs, _ = run_cases(ctx, binp, tries)
    if not obs:
        return False
    for c, o in zip(tries, obs):
        viols = monitor_case(c, o)
        if viols:
            report(ctx, binp, c, o, viols)
            return True
    return False


def describe(ctx):
    ctx.rule = ("cases: operation histories on one kvcache.Causal (plain or sliding window 1..8) or a WrapperCache(sliding window, plain); 1-3 sequences + an unannounced one; capacity 2..12; "
                "batch 1..4; CachePadding 1/2/4/32, MaskBatchPadding 1/4/32, permuted V, f16 mask, 1-3 layers, graph sizes forcing 0/1/2/many moves per "
                "compute): classes mixed / defrag (fill, punch holes at the front, keep the tail, store a batch larger than any hole) / full / copy-then-diverge / "
                "remove prefix-middle-suffix / wild (gaps, re-used positions) / swa (append beyond the window, LoadCacheSlot protocol, CopyPrefix); every history ends "
                "with one probe token per sequence; non-trivial = some token attended to >= 2 stored entries; distinct = canonical JSON of (config, operations)")
    ctx.trusted = ["Coq 8.16.1 kernel + vm_compute",
                   "hand-written model coq/KvCache/Model.v, tied to kvcache/causal.go by this differential run only (state compared after every operation)",
                   "fake ml.Backend of harness/cmd/c06 (strided views, deferred graph execution, (token,kpos) encoding) and the read-only overlay accessors harness/overlay/kvcache/c06.go",
                   "python generator and monitor (props/c06.py)"]
    ctx.assumptions = ["every successful StartForward is followed by Put on every layer (the runner does)",
                       "non-empty batches, positions >= 0 and < MaxInt32, Remove called with begin <= end",
                       "after a failed Remove the contents of that sequence are unspecified until Remove(seq, 0, MaxInt32) (kvcache/cache.go)",
                       "sliding-window caches: 'nothing missing' is required only for sequences continued exactly where they end (also when a batch was refused) or resumed after CanResume answered true (kvcache/cache.go); the known finding C06-swa-middle-remove is the exception"]


def run(ctx):
    describe(ctx)
    ctx.proof_stage(["KvCache"], "KvCache/Properties_C06.v", extra_targets=["KvCache/Corr.v"])
    binp = ctx.go_build("c06")
    if not binp:
        return
    cases = corpus_cases()
    n = 200 if ctx.quick() else 6000
    for i in range(n):
        cases.append(gen_case(ctx.rng, nops=None if ctx.quick() else ctx.rng.randint(4, 30)))
    chunk = 400
    for i in range(0, len(cases), chunk):
        evaluate(ctx, binp, cases[i:i + chunk])
    ctx.extra.pop("_reported", None)
    if not ctx.quick():
        ctx.coqchk(["V.KvCache.Properties_C06"])


def replay(ctx, path):
    r = json.load(open(path))
    describe(ctx)
    ctx.log("replaying", path)
    case = (r.get("replay") or {}).get("case") or (r.get("disagreements") or [{}])[0].get("case") or r.get("case")
    ctx.proof_stage(["KvCache"], "KvCache/Properties_C06.v", extra_targets=["KvCache/Corr.v"])
    binp = ctx.go_build("c06")
    if not binp or not case:
        return
    case.setdefault("klass", "replay")
    evaluate(ctx, binp, [case], search=False)
    ctx.extra.pop("_reported", None)


MANIFEST = {
    "property_id": "C06",
    "quick_cmd": "python3 check.py C06 --tier quick",
    "thorough_cmd": "python3 check.py C06 --tier thorough",
    "evidence_file": "evidence/C06.json",
    "replay_cmd_template": "python3 check.py C06 --replay {path}",
    "engine": "coq-model+go-differential",
    "level_claimed": {
        "category": "proof",
        "text": "Coq theorems (27, closed under the global context) about an executable model of kvcache/causal.go in which the cell metadata and "
                "the physical K/V rows per location are separate: for EVERY history of operations (forward batches mixing sequences, CopyPrefix, "
                "Remove of prefixes/middles/suffixes with shift and the prescribed clean-up on failure, CanResume), every capacity, padding and window, the "
                "cache state refines a multiset specification (C06_refines, by induction over the operation list; the defragmentation loop with its "
                "pending block moves is proved to keep every cell with its row and to compact the cache); after a successful StartForward+Put the rows at "
                "the unmasked locations are exactly the specified visible history of each batch token (C06_visible_exact); ErrKvCacheFull is returned "
                "exactly when the batch does not fit and leaves every live entry unchanged (C06_full_is_error). Against the ideal history that never "
                "forgets: exact for caches without a window (C06_complete_no_window); for sliding-window caches exact IFF nothing evicted lies in the "
                "token's window (C06_window_complete_partial), which holds for append/clear runs (C06_window_complete_appends) and fails after Remove of a "
                "middle range (C06_window_complete_refuted = known finding); the full caller protocol incl. truncate-and-resume after CanResume is "
                "complete (C06_window_complete_protocol). WrapperCache over two caches refines the pair of specifications, each layer type sees its "
                "own cache's history, a refused pass leaves both caches as they were (C06_wrapper_*); EncoderCache exposes its entry exactly while "
                "the image position is part of the sequence (C06_encoder_exact). The model is tied to the real kvcache.Causal / WrapperCache by replaying "
                "generated histories on both and comparing the complete state and result after every operation inside Coq (vm_compute); the property is "
                "monitored directly on the mask and the K/V views returned by Get.",
        "design_ref": "DESIGN.md section 5, C06",
    },
    "level_note": "Trusted: Coq kernel/vm_compute; the model-to-code tie is differential testing (generator-bounded) on a fake ml.Backend. Theorems describe the "
                  "code with fixes/C06-defrag-merge.patch, fixes/C06-canresume-window.patch and fixes/C06-encoder-shift.patch (the defects of the code as found are theorems about fx=false). "
                  "Hypotheses: non-empty batches, positions in [0,MaxInt32), Remove with begin<=end, failing Remove followed by Remove(seq,0,MaxInt32). Partial: "
                  "the WrapperCache(EncoderCache, Causal) pair has no theorem of its own (its components have); CopyPrefix is outside the sliding-window "
                  "protocol theorem; reserve=true is modelled and tied without theorem; SetCausal is modelled (C06_set_causal_exact). See notes/C06.md.",
    "technique": "Coq proof (invariants + refinement by induction over the operation list) + model/implementation differential check after every operation",
}
