"""C01 - the scheduler never unloads/closes a runner a request is still using; closed at most once; a closed
runner is never handed out.

This file also holds the machinery shared by the scheduler group (C01, C02, C11): building the steering harness
(instrumented copy of the CURRENT server/sched.go + in-package driver), the schedule generator, the monitors of the
three properties on the real trace, the rendering of observed runs for the Coq conformance check (Sched/Corr.v)
and shrinking.  props/c02.py and props/c11.py call run_group with their own property id.
"""
import hashlib
import json
import os
import subprocess
import threading
import time

from lib import vlib

GROUP = "Sched"
OVERLAYS = ["server/sched_vh.go", "server/sched_verif_test.go", "server/sched_http_test.go", "server/sched_env_test.go", "llm/sched_export.go"]
SETUP_BUILDS = [{"name": "sched"},
                {"name": "schedtest-plain", "test_pkg": "./server", "overlays": OVERLAYS, "extra_env": {"GOEXPERIMENT": "synctest"}}]
COQ_TARGETS = ["Sched/Properties_C01.v", "Sched/Corr.v"]
HEADER = ("From Coq Require Import List ZArith NArith Bool.\nFrom V Require Import Sched.Lts Sched.Corr.\n"
          "Import ListNotations.\nOpen Scope nat_scope.\n")
G = 24 * 10 ** 9


# ------------------------------------------------------------------ implementation side

def build_sched(ctx):
    """instrument the CURRENT <repo>/server/sched.go and build the in-package steering test binary.
    vlib.go_build cannot replace an existing file of /repo through the overlay, hence this local variant."""
    tool = ctx.go_build("sched")
    if not tool:
        return None
    t = time.time()
    repo = vlib.REPO
    with vlib.Lock("go"):
        tag = "" if repo == "/repo" else "-" + hashlib.sha1(repo.encode()).hexdigest()[:8]
        gen_dir = os.path.join(vlib.BUILD, "sched" + tag)
        os.makedirs(gen_dir, exist_ok=True)
        gen = os.path.join(gen_dir, "sched_instr.go")
        rc, out = vlib.sh([tool, "instr", os.path.join(repo, "server", "sched.go"), gen], timeout=60)
        if rc != 0:
            ctx.obligation("instrumenter accepts the current server/sched.go", False, out)
            ctx.proof_failures.append({"obligation": "correspondence: the steering instrumenter cannot process the current server/sched.go", "detail": out[-2000:]})
            return None
        try:
            ctx.extra["yield_sites"] = len(json.loads(out.strip().split("\n")[-1])["sites"])
        except Exception:
            pass
        repl = {os.path.join(repo, "server", "sched.go"): gen}
        for rel in OVERLAYS:
            pkg, f = os.path.split(rel)
            repl[os.path.join(repo, pkg, "zz_verif_" + f)] = os.path.join(vlib.HARNESS, "overlay", rel)
        ovj = os.path.join(gen_dir, "overlay.json")
        json.dump({"Replace": repl}, open(ovj, "w"))
        outp = os.path.join(vlib.BUILD, "bin", "schedtest" + tag)
        env = vlib.goenv()
        env["GOEXPERIMENT"] = "synctest"
        rc, out = vlib.sh(["go", "test", "-c", "-tags", "verif", "-overlay", ovj, "-o", outp, "./server"], cwd=repo, env=env, timeout=1500)
    ctx.extra["go_build_s"] = round(ctx.extra.get("go_build_s", 0) + time.time() - t, 1)
    name = "implementation builds with the steering harness (instrumented sched.go + in-package driver)"
    if rc != 0:
        ctx.obligation(name, False, out[-3000:])
        ctx.proof_failures.append({"obligation": "correspondence: steering harness no longer builds against /repo/server", "detail": out[-3000:]})
        return None
    ctx.obligation(name, True)
    return outp


def run_sched(ctx, binp, cases, timeout=900, shards=None):
    """run the cases through the test binary (sharded over processes); returns (observations, error text)"""
    if not cases:
        return [], ""
    shards = shards or min(vlib.NCPU, max(1, len(cases) // 6))
    env = vlib.goenv()
    env["VERIF_SCHED"] = "1"
    env["GOEXPERIMENT"] = "synctest"
    parts = [cases[i::shards] for i in range(shards)]
    procs = []
    for part in parts:
        inp = "".join(json.dumps(c) + "\n" for c in part)
        p = subprocess.Popen([binp, "-test.run", "^TestVerifSched$", "-test.count=1", "-test.timeout", "%ds" % timeout],
                             stdin=subprocess.PIPE, stdout=subprocess.PIPE, stderr=subprocess.PIPE, text=True, env=env, cwd=ctx.tmp)
        procs.append((p, inp))
    results = [None] * len(procs)

    def comm(k):
        p, inp = procs[k]
        try:
            results[k] = p.communicate(inp, timeout=timeout + 30)
        except subprocess.TimeoutExpired:
            p.kill()
            results[k] = ("", "timeout")
    ths = [threading.Thread(target=comm, args=(k,)) for k in range(len(procs))]
    for th in ths:
        th.start()
    for th in ths:
        th.join()
    by_id, errs = {}, []
    for k, (p, inp) in enumerate(procs):
        out, err = results[k]
        for line in out.split("\n"):
            line = line.strip()
            if line.startswith("{"):
                try:
                    o = json.loads(line)
                except Exception:
                    continue
                if "id" in o:
                    by_id[o["id"]] = o
                else:
                    errs.append(line[:500])
        if p.returncode not in (0, None):
            errs.append("rc=%s %s" % (p.returncode, (err or "")[-1500:]))
    return [by_id.get(c["id"]) for c in cases], "\n".join(errs)


# ------------------------------------------------------------------ generator

KAS = [None, 0, 5, 5, 50, 1000, -1]


def base_case(i, rng, nmodels=None, nreq=None, klass="random"):
    nm = nmodels or rng.choice([1, 2, 2, 3])
    nr = nreq or rng.randint(2, 6)
    models = []
    for k in range(nm):
        models.append({"name": "m%d" % k, "vram": G if rng.random() < 0.2 else 10 ** 9, "bad": rng.random() < 0.06})
    reqs = []
    for _ in range(nr):
        reqs.append({"m": rng.randrange(nm), "ka": rng.choice(KAS), "ctx": 4096 if rng.random() < 0.15 else 2048,
                     "ngpu": rng.choice([-1] * 12 + [99, 0]), "adapter": 1 if rng.random() < 0.12 else 0})
    return {"id": i, "klass": klass, "max": rng.choice([0, 1, 1, 2, 3]), "maxq": rng.choice([1, 2, 3, 8]), "par": 1,
            "gpus": [{"id": "0", "lib": "metal", "total": G, "free": G // 2}],
            "cpu": {"id": "cpu", "lib": "cpu", "total": G, "free": G},
            "models": models, "reqs": reqs, "mode": "random", "seed": rng.randrange(1 << 30),
            "steps": rng.choice([40, 70, 110]), "pint": rng.choice([0.6, 0.75, 0.85]), "pfail": rng.choice([0.0, 0.1, 0.25])}


def to_sr(c):
    """route the requests through the real Server.scheduleRunner (model store, capability check, option merge)"""
    c["via"] = "sr"
    for m in c["models"]:
        m["bad"] = False
    for q in c["reqs"]:
        q["adapter"] = 0
    return c


def gen_cases(ctx, n):
    rng = ctx.rng
    cases = []
    for i in range(n):
        r = rng.random()
        if r < 0.02:
            c = base_case(i, rng)
        elif r < 0.08:
            # ka0-reuse: keep-alive 0 (or a duration zeroed by an explicit unload / an eviction): the last holder finishes
            # exactly while the next request for the model goes through needsReload / useLoadedRunner
            c = base_case(i, rng, nmodels=rng.choice([1, 1, 2]), nreq=rng.randint(3, 5), klass="ka0-reuse")
            for q in c["reqs"]:
                q["m"], q["ka"], q["ngpu"], q["adapter"], q["ctx"] = 0, rng.choice([0, 0, 0, 5]), -1, 0, 2048
            if len(c["models"]) == 2:
                c["reqs"][-1]["m"] = 1
            for m in c["models"]:
                m["bad"], m["vram"] = False, 10 ** 9
            c["max"], c["maxq"], c["finish_hot"], c["expire_w"] = rng.choice([0, 1, 1]), 8, 0.7, rng.choice([0.6, 1.5])
            c["pint"], c["pfail"], c["steps"] = 0.75, 0.0, rng.choice([70, 110])
        elif r < 0.11:
            # self-close: the server process of a runner dies on its own while requests hold it (its Ping fails from
            # then on); further requests with the same options arrive
            c = base_case(i, rng, nmodels=1, nreq=rng.randint(3, 5), klass="self-close")
            for q in c["reqs"]:
                q["ka"], q["ngpu"], q["adapter"], q["ctx"] = rng.choice([None, -1, 1000]), -1, 0, 2048
            c["models"][0].update({"bad": False, "vram": 10 ** 9})
            c["max"], c["maxq"], c["self_close"] = rng.choice([0, 1, 3]), 8, True
            c["pint"], c["pfail"], c["steps"] = 0.75, 0.0, rng.choice([70, 110])
        elif r < 0.16:
            # admission: more GetRunner callers than queue slots, each call in its own goroutine (conc_submit) so that
            # the callers interleave inside GetRunner, while the pending loop is mostly kept parked (hold_sched): the
            # queue stands at capacity - 1 / at capacity when two or more callers race for it
            mq = rng.choice([1, 1, 2, 3])
            c = base_case(i, rng, nmodels=rng.choice([1, 2]), nreq=mq + rng.randint(2, 4), klass="admission")
            for q in c["reqs"]:
                q["ka"], q["ngpu"], q["adapter"], q["ctx"] = rng.choice([None, 5, 1000]), -1, 0, 2048
            for m in c["models"]:
                m["bad"], m["vram"] = False, 10 ** 9
            c["max"], c["maxq"], c["conc_submit"], c["hold_sched"] = rng.choice([0, 1, 3]), mq, True, rng.choice([0.8, 0.95])
            c["pint"], c["pfail"], c["steps"] = rng.choice([0.4, 0.6]), 0.0, rng.choice([50, 80])
            c["force_direct"] = True
        elif r < 0.21:
            # cycles: one model, sequential load / finish / expire / unload cycles, more of them than the internal
            # event queues have slots (OLLAMA_MAX_QUEUE); passive drain
            mq = rng.choice([1, 1, 2, 3])
            c = base_case(i, rng, nmodels=1, nreq=rng.randint(mq + 2, 3 * mq + 1), klass="cycles")
            for q in c["reqs"]:
                q["ka"], q["ngpu"], q["adapter"], q["ctx"] = rng.choice([0, 0, 5]), -1, 0, 2048
            c["models"][0].update({"bad": False, "vram": 10 ** 9})
            c["max"], c["maxq"], c["passive"], c["sequential"], c["cancel_hot"] = rng.choice([0, 1, 3]), mq, True, True, 0.9
            c["pint"], c["pfail"], c["steps"] = 0.9, 0.0, 60 * len(c["reqs"])
        elif r < 0.26:
            # dup-expiry-reload: one model, several unload reasons for the same idle runner (keep-alive timer, explicit
            # unload, eviction), the model loaded again while the completed loop is still busy with the first of them
            c = base_case(i, rng, nmodels=rng.choice([1, 1, 2]), nreq=rng.randint(3, 5), klass="dup-expiry-reload")
            for q in c["reqs"]:
                q["m"], q["ka"], q["ngpu"], q["adapter"], q["ctx"] = 0, rng.choice([0, 0, 5, 5, 10]), -1, 0, 2048
            if len(c["models"]) == 2:
                c["reqs"][-1]["m"] = 1
            for m in c["models"]:
                m["bad"], m["vram"] = False, 10 ** 9
            c["max"], c["maxq"], c["cancel_hot"] = rng.choice([0, 1, 1]), 8, 0.6
            c["pint"], c["pfail"], c["steps"] = 0.8, 0.0, rng.choice([110, 160])
            c["expire_w"] = 3.0
        elif r < 0.36:
            # handover-cancel: a request for a loaded, idle runner is cancelled while the pending loop is between
            # needsReload and the hand-over; finite keep-alives, no explicit unload anywhere (passive drain): whatever
            # is left registered after every keep-alive has elapsed is a leak
            c = base_case(i, rng, nmodels=rng.choice([1, 1, 1, 2]), nreq=rng.choice([2, 2, 3]), klass="handover-cancel")
            for q in c["reqs"]:
                q["ka"], q["ngpu"], q["adapter"], q["ctx"] = rng.choice([50, 1000, 1000]), -1, 0, 2048
            for m in c["models"]:
                m["bad"], m["vram"] = False, 10 ** 9
            c["max"], c["maxq"], c["passive"], c["cancel_hot"] = rng.choice([0, 3]), 8, True, 0.5
            c["pint"], c["pfail"] = 0.85, rng.choice([0.0, 0.0, 0.1])
        elif r < 0.48:
            # expiry races: one or two models, short keep-alives, few requests, many internal steps
            c = base_case(i, rng, nmodels=rng.choice([1, 2]), nreq=rng.randint(2, 4), klass="expiry-race")
            for q in c["reqs"]:
                q["ka"] = rng.choice([0, 5, 5, 10])
                q["ngpu"], q["adapter"], q["ctx"] = -1, 0, 2048
            c["max"] = rng.choice([0, 1, 3])
            for m in c["models"]:
                m["bad"], m["vram"] = False, 10 ** 9
            if rng.random() < 0.6:
                # the keep-alive elapses, the timer fires and the expired event is being handled exactly while the next
                # request for the model is between the lookup and the hand-over (expire_hot steering)
                c["expire_hot"], c["finish_early"], c["pfail"], c["pint"] = 1.0, 0.9, 0.0, 0.9
                c["passive"], c["sequential"], c["seq_keep"], c["no_ticks"] = True, True, True, True
                for q in c["reqs"]:
                    q["m"], q["ka"] = 0, rng.choice([50, 1000])
        elif r < 0.62:
            # reuse: every request is compatible with the runner of its model, nothing fails, nothing expires
            c = base_case(i, rng, klass="reuse")
            for q in c["reqs"]:
                q["ka"], q["ngpu"], q["adapter"], q["ctx"] = -1, -1, 0, 2048
            for m in c["models"]:
                m["bad"], m["vram"] = False, 10 ** 9
            c["max"], c["pfail"] = 0, 0.0
            if rng.random() < 0.5:
                c["par"] = rng.choice([2, 2, 0])
                c["gpus"] = two_gpus()
        elif r < 0.70:
            # queue pressure: tiny queue, many submits
            c = base_case(i, rng, nreq=6, klass="queue")
            c["maxq"] = rng.choice([1, 2])
            c["pint"] = 0.5
        elif r < 0.81:
            # two GPUs, parallelism > 1: loads in flight on one GPU, placement on the other, re-queued requests
            c = base_case(i, rng, nmodels=rng.choice([2, 3]), nreq=rng.randint(3, 6), klass="twogpu")
            c["gpus"] = two_gpus()
            c["par"] = rng.choice([1, 2, 2, 0])
            c["max"] = rng.choice([0, 0, 2, 3])
            for q in c["reqs"]:
                q["ngpu"], q["adapter"], q["ctx"] = -1, 0, 2048
                q["ka"] = rng.choice([None, -1, 1000, 50])
            for m in c["models"]:
                m["bad"] = False
                m["vram"] = G if rng.random() < 0.5 else 10 ** 9
            c["pint"], c["pfail"] = rng.choice([0.5, 0.7]), rng.choice([0.0, 0.1])
        elif r < 0.90:
            # join-during-load: two or three requests for one model; the load of the first is kept parked in
            # WaitUntilRunning while the others are dequeued, then it succeeds, fails, or its request is cancelled
            c = base_case(i, rng, nmodels=rng.choice([1, 1, 2]), nreq=rng.randint(2, 3), klass="join-during-load")
            for q in c["reqs"]:
                q["m"], q["ngpu"], q["adapter"], q["ctx"] = 0, -1, 0, 2048
                q["ka"] = rng.choice([None, -1, 5, 1000])
            if len(c["models"]) == 2 and len(c["reqs"]) == 3 and rng.random() < 0.5:
                c["reqs"][2]["m"] = 1
            for m in c["models"]:
                m["bad"], m["vram"] = False, 10 ** 9
            c["max"], c["maxq"] = rng.choice([0, 1, 3]), 8
            c["hold_load"], c["pint"], c["pfail"] = 0.9, 0.85, rng.choice([0.0, 0.3, 0.5])
            c["steps"] = rng.choice([40, 70])
        else:
            # fit: the first model leaves room for the blocks of the next one but not for its output layer
            c = base_case(i, rng, nmodels=2, nreq=rng.randint(2, 4), klass="fit")
            c["models"][0].update({"edge": True, "bad": False})
            c["models"][1].update({"vram": 10 ** 9, "bad": False})
            c["reqs"][0]["m"], c["reqs"][1]["m"] = 0, 1
            for q in c["reqs"]:
                q["ngpu"], q["adapter"], q["ctx"], q["ka"] = -1, 0, 2048, rng.choice([-1, 1000])
            c["max"], c["pfail"] = rng.choice([0, 2, 3]), 0.0
            v_ = rng.random()
            if v_ < 0.15:
                # a reserve per GPU (OLLAMA_GPU_OVERHEAD) larger than what the first model leaves free (incl. nothing)
                ov = rng.choice([256 * 1024 * 1024, 10 ** 9])
                c["overhead"] = ov
                c["models"][0].pop("edge", None)
                c["models"][0]["vram"] = G - rng.choice([0, 1, ov // 2, ov - 1])
            elif v_ < 0.30:
                # two GPUs of one library, the first without room for a single layer; the first model only fits
                # partially and is spread by the partial-fit path over both (all its bytes on the second), the next
                # request (num_gpu = 1) fits only where the first one is not; the mock servers report the REAL
                # per-GPU estimate through the real EstimatedVRAMByGPU (real_vram)
                MB = 1024 * 1024
                a_ = rng.randint(4, 24) * MB
                c["gpus"] = [{"id": "0", "lib": "metal", "total": a_, "free": a_}, {"id": "1", "lib": "metal", "total": G, "free": G}]
                c["last_gpu_edge"] = True       # the second GPU takes the blocks of a model but not its output layer
                c["models"][0].pop("edge", None)
                c["real_vram"], c["noconf"], c["par"] = True, True, 1
                for q in c["reqs"][1:]:
                    q["ngpu"] = 1               # one layer on a GPU is enough for these requests: a "full fit" where one layer fits
                c["force_direct"] = True
            elif v_ < 0.40:
                # the next model fits with one slot but not with the four the scheduler tries first
                c["models"][0]["edge_par"] = 4
                c["par"] = rng.choice([0, 0, 4])
            elif v_ < 0.45:
                # CPU inference: system memory left is enough for one slot but not for the slots the scheduler uses
                c["par"] = rng.choice([0, 0, 4, 2])
                c["models"][0].update({"edge_par": c["par"] or 4, "edge_cpu": True})
                for q in c["reqs"]:
                    q["ngpu"] = 0
                c["force_direct"] = True
            elif v_ < 0.8:
                # flash attention + quantised KV cache requested, GPUs support it, the second model cannot use it:
                # the memory left is enough with the quantised cache but not with the f16 cache it is started with
                kvt = rng.choice(["q8_0", "q4_0"])
                c["fa"], c["kv_type"], c["par"] = True, kvt, 1      # a model with a pooling_type is always started with one slot
                c["models"][0]["edge_kv"] = kvt
                c["models"][1].update({"name": "m1nofa", "nofa": True})
                if rng.random() < 0.2:
                    c["models"][1].update({"name": "m1", "nofa": False})      # a model that can: the quantised cache is right
                c["force_direct"] = True
        if rng.random() < 0.4:
            # equal option values in distinct allocations: every request carries use_mmap in a pointer of its own
            c["mmap"] = rng.choice(["true", "false"])
        if rng.random() < 0.35:
            # the limits are spelled the way env files and container runtimes pass them: quotes, padding, leading zeros
            sp = {}
            if c["max"] > 0:
                sp["OLLAMA_MAX_LOADED_MODELS"] = spell_number(rng, c["max"])
            sp["OLLAMA_MAX_QUEUE"] = spell_number(rng, c["maxq"])
            sp["OLLAMA_NUM_PARALLEL"] = spell_number(rng, c["par"])
            if c.get("overhead"):
                sp["OLLAMA_GPU_OVERHEAD"] = spell_number(rng, c["overhead"])
            c["spell"] = sp
        if c["klass"] != "queue" and not c.pop("force_direct", False) and rng.random() < 0.5:
            to_sr(c)
        else:
            c["via"] = "direct"
        cases.append(c)
    return cases


def two_gpus():
    return [{"id": "0", "lib": "metal", "total": G, "free": G // 2}, {"id": "1", "lib": "metal", "total": G, "free": G // 2}]


# ------------------------------------------------------------------ reading an observation

def flat_events(o):
    """[(step index, event)]"""
    out = []
    for i, s in enumerate(o["steps"]):
        for e in s["ev"]:
            out.append((i, e))
    return out


def compat_py(rk, qk):
    """needsReload's comparison on (ctx, ngpu, adapter)"""
    return rk[2] == qk[2] and rk[0] == qk[0] and (qk[1] < 0 or rk[1] == qk[1])


def qkey(case, q):
    r = case["reqs"][q]
    return (r["ctx"], r["ngpu"], r["adapter"])


# ------------------------------------------------------------------ monitors (the properties, on the real trace)

IDLE_SITES = ("processPending.select", "processCompleted.select")


def measure_components(o):
    """the components of the termination measure of coq/Sched/Term.v, read off the last observed state: what is
    still pending when a run did not quiesce (helps to read a replay)"""
    last = o["steps"][-1]["st"]
    fin = o.get("final") or {}
    rs = [r for r in last["rs"] if r]
    busy = [(i, r[0]) for i, r in enumerate(last["rs"]) if r and not r[4] and r[0] > 0]
    notidle = ["%s@%s%s" % (g["g"], g["at"], "" if g.get("enabled") else "(blocked)") for g in fin.get("parked", [])
               if not (str(g["at"]).startswith(IDLE_SITES) and not g.get("enabled"))]
    return ("measure components: A pending queue %d, sleeping retry/re-queue goroutines %s, unanswered %s; "
            "B runners not shut down %d, unloaded events queued %d; E finished events queued %d, expired events queued %d; "
            "R goroutines not at their idle point %s; runners with refCount > 0 %s"
            % (last["q"][0], fin.get("sleepers", "?"), fin.get("unreplied") or [], len([r for r in rs if not r[4]]), last["q"][3],
               last["q"][1], last["q"][2], notidle or "none", busy or "none"))


def monitor(case, o):
    """returns {pid: [(sig, what)]} for C01, C02, C11"""
    v = {"C01": [], "C02": [], "C11": []}
    if o is None:
        return v
    if o.get("panic"):
        v["C02"].append(({"class": "panic"}, "scheduler run panicked: %s" % o["panic"][:300]))
        return v
    closed = {}        # rid -> step of first close
    granted = {}       # q -> rid
    cancelled = set()
    replies = {}       # q -> count
    submitted = []
    started = {}       # rid -> (model, key)
    live = set()
    selfclosed = {}     # rid -> step at which its server process died on its own
    loaded_ok, load_failed = set(), {}      # rid: WaitUntilRunning returned nil / rid -> step at which it returned an error
    nmax = case["max"]
    for i, e in flat_events(o):
        k = e[0]
        if k == "selfclose":
            selfclosed[e[1]] = i
        if k == "wait":
            if e[2] == "ok":
                loaded_ok.add(e[1])
            else:
                load_failed[e[1]] = i
        if k == "newserver" and len(e) > 12 and e[9] > 0 and e[8] != 0 and e[12] == 0:
            v["C11"].append(({"class": "no-fit-start"}, "step %d: a runner for model %d is started on %s while %d other runner(s) are loaded; with the memory those runners "
                             "really occupy per GPU (free passed, bytes of this estimate, as reported by EstimatedVRAMByGPU, free by the harness' books: %s) "
                             "the memory estimate does not place all its layers there" % (i, e[1], e[6], e[9], e[11])))
        if k == "newserver" and len(e) > 11:
            for gi, row in enumerate(e[11]):
                if row[1] != row[2] or row[1] > row[0]:
                    v["C11"].append(({"class": "gpu-attribution"}, "step %d: the estimate of the runner started for model %d puts %d bytes on GPU #%d of %s (free memory %d) "
                                     "but EstimatedVRAMByGPU reports %d for it" % (i, e[1], row[1], gi, e[6], row[0], row[2])))
                    break
        if k == "newserver" and len(e) > 9 and e[9] > 0 and e[8] == 0:
            v["C11"].append(({"class": "no-fit-start"}, "step %d: a runner for model %d is started on %s while %d other runner(s) are loaded although "
                             "the memory estimate does not place all its layers there" % (i, e[1], e[6], e[9])))
        if k == "submit":
            submitted.append(e[1])
        elif k == "cancel":
            cancelled.add(e[1])
        elif k == "newserver":
            m, rid = e[1], e[2]
            waiting = [q for q in submitted if case["reqs"][q]["m"] == m and replies.get(q, 0) == 0]
            if m >= 0 and waiting and all(case["reqs"][q]["ctx"] * max(1, e[5]) != e[3] for q in waiting):
                v["C11"].append(({"class": "incompatible-options"}, "step %d: a runner for model %d is started with NumCtx %d and numParallel %d, which is not "
                                 "numParallel times the context size of any waiting request %s" % (i, m, e[3], e[5], waiting)))
            if rid >= 0:
                ad = 0
                if e[7]:
                    ad = int(e[7][0][2:])
                par = max(1, e[5])
                started[rid] = (m, (e[3] // par, e[4], ad))
                same = [r for r in live if started[r][0] == m]
                if same:
                    v["C11"].append(({"class": "two-per-model"}, "step %d: a runner for model %d is started while runner r%d of the same model is still running" % (i, m, same[0])))
                live.add(rid)
                cap = nmax if nmax > 0 else 3 * max(1, len(case["gpus"]))
                if len(live) > cap:
                    v["C11"].append(({"class": "bound"}, "step %d: %d runners are running, the maximum is %d" % (i, len(live), cap)))
        elif k == "close":
            rid = e[1]
            if rid in closed:
                v["C01"].append(({"class": "close-twice"}, "step %d: runner r%d is shut down a second time" % (i, rid)))
            closed.setdefault(rid, i)
            live.discard(rid)
            users = [q for q, r in granted.items() if r == rid and q not in cancelled]
            if users:
                v["C01"].append(({"class": "close-in-use"}, "step %d: runner r%d is shut down while request %d still uses it" % (i, rid, users[0])))
        elif k == "reply":
            q = e[1]
            replies[q] = replies.get(q, 0) + 1
            if replies[q] > 1:
                v["C02"].append(({"class": "two-replies"}, "step %d: request %d receives a second reply" % (i, q)))
            if e[2] == "ok":
                rid = e[3]
                granted[q] = rid
                if e[4] or rid in closed:
                    v["C01"].append(({"class": "grant-closed"}, "step %d: request %d is handed runner r%s, which was already shut down (llama == nil: %s)" % (i, q, rid, bool(e[4]))))
                if rid not in loaded_ok:
                    why = ("its load failed at step %d" % load_failed[rid]) if rid in load_failed else "its load (WaitUntilRunning) has not completed"
                    for pid in ("C01", "C02"):
                        v[pid].append(({"class": "grant-loading"}, "step %d: request %d is answered 'success' with runner r%s although %s: "
                                       "neither a usable runner nor an error" % (i, q, rid, why)))
                if rid in started and not compat_py(started[rid][1], qkey(case, q)):
                    v["C11"].append(({"class": "incompatible-options"}, "step %d: request %d (ctx,ngpu,adapter)=%s is served by runner r%d started with %s" % (i, q, qkey(case, q), rid, started[rid][1])))
                if rid in started and started[rid][0] != case["reqs"][q]["m"]:
                    v["C11"].append(({"class": "wrong-model"}, "step %d: request %d for model %d is served by a runner of model %d" % (i, q, case["reqs"][q]["m"], started[rid][0])))
    # queue full => busy, immediately; not full => no busy
    for i, s in enumerate(o["steps"]):
        if s["c"]["a"] == "submit" and i > 0 and not case.get("conc_submit"):
            before = o["steps"][i - 1]["st"]["q"][0]
            busy = any(e[0] == "reply" and e[2] == "busy" for e in s["ev"])
            if before >= case["maxq"] and not busy:
                v["C02"].append(({"class": "queue-full-no-busy"}, "step %d: submit with a full queue (%d) did not get the busy error at once" % (i, before)))
            if before < case["maxq"] and busy:
                v["C02"].append(({"class": "busy-not-full"}, "step %d: busy error although the queue held %d of %d" % (i, before, case["maxq"])))
    if case.get("conc_submit"):
        # every GetRunner call returns - queued or with the busy error - without ever waiting for room in the queue
        spawned, returned, full_seen = {}, set(), {}
        for i, s_ in enumerate(o["steps"]):
            for e in s_["ev"]:
                if e[0] == "spawn-submit":
                    spawned[e[1]] = i
                elif e[0] == "submit-ret":
                    returned.add(e[1])
            for q in spawned:
                if q not in returned and s_["st"]["q"][0] >= case["maxq"]:
                    full_seen[q] = True
            for e in s_["ev"]:
                if e[0] == "reply" and e[2] == "busy" and e[1] in spawned and not full_seen.get(e[1]) and s_["st"]["q"][0] < case["maxq"]:
                    v["C02"].append(({"class": "busy-not-full"}, "step %d: request %d gets the busy error although the queue (%d slots) was never full during its GetRunner call" % (i, e[1], case["maxq"])))
            if s_.get("blk"):
                v["C02"].append(({"class": "getrunner-blocks"}, "step %d: %s is blocked inside GetRunner on a full pending queue (%d of %d slots used): the caller gets neither a "
                                 "queued request nor the busy error until the scheduler happens to dequeue" % (i, ", ".join(s_["blk"]), s_["st"]["q"][0], case["maxq"])))
                break
        lost = sorted(q for q in spawned if q not in returned)
        if lost and not any(sig.get("class") == "getrunner-blocks" for sig, _ in v["C02"]):
            v["C02"].append(({"class": "getrunner-blocks"}, "GetRunner calls of requests %s never returned" % lost))
    if o.get("deadlock"):
        cyc = o["deadlock"]["cycle"]
        sites = sorted(set(c["at"] for c in cyc))
        v["C02"].append(({"class": "deadlock", "sites": "+".join(sites)},
                         "lock-order deadlock: " + "; ".join("%s at %s waits for %s held by %s" % (c["g"], c["at"], c["mutex"], c["waits_for_mutex_held_by"]) for c in cyc)
                         + "; unanswered requests: %s" % o["deadlock"].get("unreplied")))
    elif o.get("stuck"):
        v["C02"].append(({"class": "unanswered"}, "requests %s were never answered although every load finished and every earlier request completed; parked: %s; %s" % (o["stuck"]["unreplied"], o["stuck"]["parked"], measure_components(o))))
    elif not case.get("nodrain") and not o.get("truncated"):
        last = o["steps"][-1]["st"]
        if last["ld"]:
            v["C02"].append(({"class": "not-drained", "kind": "loaded-nonempty"}, "after the drain the scheduler still reports loaded models %s; %s" % (last["ld"], measure_components(o))))
        never = sorted(r for r in started if r not in closed)
        if never:
            v["C02"].append(({"class": "not-drained", "kind": "runner-never-closed"}, "after the drain runner(s) %s were started but never shut down; %s" % (never, measure_components(o))))
        leaked = [(i_, r_[0]) for i_, r_ in enumerate(last["rs"]) if r_ and r_[0] > 0]
        if leaked:
            v["C11"].append(({"class": "refcount-without-holder"}, "after the drain every request has finished, yet runner(s) %s still have refCount > 0 (runner, refCount): "
                             "such a runner never looks idle, is never expired and is passed over when room is made; %s" % (leaked, measure_components(o))))
        for q in submitted:
            if replies.get(q, 0) == 0 and q not in cancelled_before_reply(o, q):
                v["C02"].append(({"class": "unanswered"}, "request %d was never answered" % q))
    # a runner that a request is using stays in the scheduler's table: removing it ("unloading" it from the bookkeeping)
    # lets the next request start a second server for the model and books the holder's finish on the wrong runner
    g_, canc_, closed_ = {}, set(), set()
    for i, s_ in enumerate(o["steps"]):
        for e in s_["ev"]:
            if e[0] == "reply" and e[2] == "ok":
                g_[e[1]] = e[3]
            elif e[0] == "cancel":
                canc_.add(e[1])
            elif e[0] == "close":
                closed_.add(e[1])
        bad = [(q, rid) for q, rid in g_.items() if q not in canc_ and rid not in closed_ and rid in started
               and s_["st"]["ld"].get(str(started[rid][0])) != rid]
        if bad:
            q, rid = bad[0]
            v["C01"].append(({"class": "unregistered-in-use"}, "step %d: runner r%d is no longer in the scheduler's table of loaded runners (%s) while request %d still uses it"
                             % (i, rid, s_["st"]["ld"], q)))
            break
    # needless reload: the pending loop (goroutine Run.go1#k of the instrumented sched.go) zeroes the keep-alive of a live
    # runner r - which it only does to reload r or to make room - although no unanswered request is for another
    # model, every unanswered request for r's model is compatible with r, no ping of r failed for this request and r's
    # load was not abandoned
    answered, subm, ping_failed = set(), [], set()      # ping_failed: since the pending loop took its current request
    pinged, dead_at = set(), {}                         # pinged: runners health-checked since the pending loop took its current request
    for i, s_ in enumerate(o["steps"]):
        for e in s_["ev"]:
            if e[0] == "submit":
                subm.append(e[1])
            elif e[0] == "reply":
                answered.add(e[1])
            elif e[0] == "ping" and e[2] == "fail":
                ping_failed.add(e[1])
            if e[0] == "ping":
                pinged.add(e[1])
            elif e[0] == "selfclose":
                dead_at[e[1]] = i
            elif (e[0] == "reply" and e[2] == "ok" and e[3] in dead_at and e[3] not in pinged
                  and str(s_["c"].get("g", "")).startswith("Run.go1#")):
                v["C01"].append(({"class": "grant-dead"}, "step %d: request %d is handed the loaded runner r%s without a health check although its server process "
                                 "exited at step %d (other requests still hold it): a runner that has shut down must be reloaded, not handed out" % (i, e[1], e[3], dead_at[e[3]])))
        c_ = s_["c"]
        if i == 0 or c_.get("a") != "run" or not str(c_.get("g", "")).startswith("Run.go1#"):
            continue
        if s_["st"]["q"][0] < o["steps"][i - 1]["st"]["q"][0]:
            ping_failed = set()
            pinged = set()
        before, after = o["steps"][i - 1]["st"]["rs"], s_["st"]["rs"]
        for rid in range(min(len(before), len(after))):
            b, a = before[rid], after[rid]
            if not b or not a or rid not in started:
                continue
            if b[1] != 0 and a[1] == 0 and not a[4] and a[0] == b[0]:   # a[0] > b[0]: a grant with keep_alive 0
                m, key = started[rid]
                unanswered = [q for q in subm if q not in answered]
                other = [q for q in unanswered if case["reqs"][q]["m"] != m]
                incompat = [q for q in unanswered if case["reqs"][q]["m"] == m and not compat_py(key, qkey(case, q))]
                if not other and not incompat and rid not in ping_failed and unanswered and not (rid in load_failed and load_failed[rid] <= i):
                    v["C11"].append(({"class": "needless-reload"}, "step %d: the pending loop expires runner r%d of model %d to reload it although every waiting request %s "
                                     "is for that model with compatible options and the runner answered its ping" % (i, rid, m, unanswered)))
    # reuse class: every request is compatible with the first runner of its model, no load / ping / newServer
    # failure, keep-alive forever, room for every model: a second runner for a model is justified only by an explicit
    # unload of that model before it was started
    if case.get("klass") == "reuse" and not o.get("deadlock") and len(case["models"]) <= (case["max"] or 3 * max(1, len(case["gpus"]))):
        start_step = {}
        for i, e in flat_events(o):
            if e[0] == "newserver" and e[2] >= 0:
                start_step[e[2]] = i
        per = {}
        for rid, (m, _) in started.items():
            per.setdefault(m, []).append(rid)
        for m, rids in per.items():
            rids = sorted(rids, key=lambda r: start_step.get(r, 0))
            if len(rids) < 2:
                continue
            second = start_step.get(rids[1], 0)
            failed_before = any(i <= second and len(e) > 2 and ((e[0] in ("wait", "ping") and e[2] == "fail") or (e[0] == "newserver" and e[2] < 0))
                                for i, e in flat_events(o))
            if not failed_before and not api_expired_before(o, m, second):
                v["C11"].append(({"class": "not-reused"}, "model %d got runners %s although every request was compatible with the first one, nothing failed, "
                                 "nothing expired and there was room for every model" % (m, rids)))
    return v


def cancelled_before_reply(o, q):
    """{q} if q was cancelled at some point (a cancelled request may stay unanswered)"""
    for _, e in flat_events(o):
        if e[0] == "cancel" and e[1] == q:
            return {q}
    return set()


def api_expired_before(o, m, upto):
    for i, e in flat_events(o):
        if e[0] == "expire" and e[1] == m and i <= upto:
            return True
    return False


# ------------------------------------------------------------------ rendering for Coq

def cZ(z):
    return "(%d)%%Z" % z


def cb(b):
    return "true" if b else "false"


def render_event(e, qmap):
    k = e[0]
    if k == "reply":
        q = qmap.get(e[1], 999)
        if e[2] == "ok":
            rid = e[3] if e[3] >= 0 else 999
            return "EReply %d (ROk %d %s)" % (q, rid, cb(e[4]))
        return "EReply %d %s" % (q, "RBusy" if e[2] == "busy" else "RErr")
    if k == "newserver":
        return "ENew %d %s" % (e[1], "(Some %d)" % e[2] if e[2] >= 0 else "None")
    if k == "wait":
        return "EWait %d %s" % (e[1], cb(e[2] == "ok"))
    if k == "ping":
        return "EPing %d %s" % (e[1], cb(e[2] == "ok"))
    if k == "close":
        return "EClose %d" % e[1]
    return None


def render_spec(case, q):
    r = case["reqs"][q]
    ka = "None" if r["ka"] is None else "(Some %s)" % ("forever" if r["ka"] < 0 else cZ(r["ka"]))
    return "(mkSpec %d (mkK %s %s %d) %s %s)" % (r["m"], cZ(r["ctx"]), cZ(r["ngpu"]), r["adapter"], ka, cb(case["models"][r["m"]].get("bad", False)))


def render_proj(s):
    st = s["st"]
    ld = sorted((int(k), v) for k, v in st["ld"].items())
    rs = []
    for r in st["rs"]:
        if not r:
            rs.append("None")
        else:
            rs.append("(Some (mkRP %s %s %s %s %s %s))" % (cZ(r[0]), cZ(r[1]), cb(r[2]), cb(r[3]), cb(r[4]), cb(r[5])))
    return "(mkP %s %s %s %s %s)" % (vlib.cq_list(["(%d,%d)" % x for x in ld], "(nat*nat)"), vlib.cq_list(rs, "(option rproj)"),
                                     vlib.cq_list([str(x) for x in st["q"]], "nat"), cb(st["lm"]), cZ(s["t"]))


def render_trace(case, o):
    """the model numbers requests in the order they are submitted; an explicit (shrunk) schedule may submit any subset"""
    steps = []
    qmap = {}
    conc = bool(case.get("conc_submit"))
    gq, gidx = {}, []           # conc_submit: submitter goroutine -> request, creation indices of the submitter goroutines
    for s in o["steps"][1:]:
        c = s["c"]
        a = c["a"]
        inject = []
        if a == "selfclose":
            continue            # an event of the environment the model does not have (its effect: pings fail)
        if conc and a == "submit":
            # the call starts in a goroutine of its own; the model's atomic admission step is the goroutine's select
            for e in s["ev"]:
                if e[0] == "spawn-submit":
                    gq[e[2]] = e[1]
                    gidx.append(e[3])
            continue
        if conc and a == "run" and str(c.get("g", "")).startswith("api.submit#"):
            if c.get("site") != "GetRunner.select1":
                continue        # goroutine entry / the send of the busy error decided at the select
            q = gq.get(c["g"], 0)
            qmap[q] = len(qmap)
            lab = "(OEnv (LSubmit %s))" % render_spec(case, q)
            if c.get("alt") == -1:
                inject = ["EReply %d RBusy" % qmap[q]]
        elif a == "submit":
            qmap[c.get("q", 0)] = len(qmap)
            lab = "(OEnv (LSubmit %s))" % render_spec(case, c.get("q", 0))
        elif a == "cancel":
            lab = "(OEnv (LCancel %d))" % qmap.get(c.get("q", 0), 999)
        elif a == "expire":
            lab = "(OEnv (LExpire %d))" % c.get("m", 0)
        elif a == "tick":
            lab = "(OEnv (LTick %s))" % cZ(c["ms"])
        else:
            i_ = c.get("i", 0)
            lab = "(ORun %d)" % (i_ - sum(1 for x in gidx if x < i_))
        evs = inject + [x for x in (render_event(e, qmap) for e in s["ev"]) if x]
        steps.append("mkO %s %s %s" % (lab, vlib.cq_list(evs, "event"), render_proj(s)))
    return vlib.cq_list(steps, "ostep")


def render_cfg(case, fixes):
    return "(mkC %d (mkF %s %s %s) %d)" % (case["maxq"], cb(fixes[0]), cb(fixes[1]), cb(fixes[2]), len(case["gpus"]))


def conformance(ctx, cases, obs, fixes, name="conf"):
    """returns the indices of the traces the model variant `fixes` rejects (None, log on a Coq error)"""
    items = []
    for c, o in zip(cases, obs):
        items.append("chk_trace %s %d %s" % (render_cfg(c, fixes), c["max"], render_trace(c, o)))
    return ctx.coq_eval(HEADER, items, per_file=max(4, len(items) // (2 * vlib.NCPU) + 1), name=name)


def explicit_case(case, o, upto=None):
    """the same run as an explicit choice list (for replay / shrinking)"""
    c = dict(case)
    ch = [s["c"] for s in o["steps"][1:] if not s.get("ph")]
    if upto is not None:
        ch = ch[:upto]
    c["mode"] = "explicit"
    c["choices"] = [{k: v for k, v in x.items() if k not in ("site", "i")} for x in ch]
    return c


# ------------------------------------------------------------------ shrinking, corpus, variant detection

def classes_of(pid, case, o):
    return set(sig.get("class") for sig, _ in monitor(case, o)[pid])


def shrink(ctx, binp, pid, case, o, klass, max_tests=48):
    """smallest explicit choice list (ddmin) on which the monitor of `pid` still reports class `klass`"""
    ec = explicit_case(case, o)
    counter = [0]

    def fails(choices):
        counter[0] += 1
        c = dict(ec)
        c["choices"] = choices
        c["id"] = 900000 + counter[0]
        obs, _ = run_sched(ctx, binp, [c], shards=1, timeout=120)
        return obs and obs[0] is not None and klass in classes_of(pid, c, obs[0])
    if not fails(ec["choices"]):
        return ec, o      # not reproducible from the explicit list (should not happen: runs are deterministic)
    small = vlib.ddmin(ec["choices"], fails, max_tests=max_tests)
    c = dict(ec)
    c["choices"] = small
    c["id"] = 999999
    obs, _ = run_sched(ctx, binp, [c], shards=1, timeout=120)
    if obs and obs[0] is not None and klass in classes_of(pid, c, obs[0]):
        return c, obs[0]
    return ec, o


def load_corpus(pid):
    out = []
    d = os.path.join(vlib.VERIF, "corpus", pid)
    if os.path.isdir(d):
        for f in sorted(os.listdir(d)):
            if f.endswith(".json"):
                c = json.load(open(os.path.join(d, f)))
                c["klass"] = "corpus"
                c["corpus_file"] = f
                out.append(c)
    return out


VARIANTS = [(a, b, c) for a in (True, False) for b in (True, False) for c in (True, False)]   # most repaired first
NEEDS = {"C01": (True, True, False), "C02": (True, False, True), "C11": (True, False, False)}   # which repairs the theorems of a property rest on
FIXNAMES = ("fxA: stale expired events are ignored", "fxB: useLoadedRunner re-checks that the runner is still loaded",
            "fxC: loadedMu is taken before refMu in the expired branch")


def detect_variant(ctx, cases, obs):
    """Which model variant (repair switches) does the implementation conform to?  All runs are checked against the
    repaired model first; the runs it rejects are checked against the seven other variants and the most repaired
    variant accepting all of them is then checked against every run.  Returns (variant, rejected indices) or (None, log)."""
    bad, log = conformance(ctx, cases, obs, VARIANTS[0], name="conf111")
    if bad is None:
        return None, log
    if not bad:
        return VARIANTS[0], []
    probe = bad[:24]
    items = []
    for v in VARIANTS[1:]:
        for i in probe:
            items.append("chk_trace %s %d %s" % (render_cfg(cases[i], v), cases[i]["max"], render_trace(cases[i], obs[i])))
    pb, log = ctx.coq_eval(HEADER, items, per_file=max(2, len(items) // vlib.NCPU + 1), name="variant")
    if pb is None:
        return None, log
    pbs = set(pb)
    best, best_n = VARIANTS[0], len(probe) + 1
    for k, v in enumerate(VARIANTS[1:]):
        nrej = sum(1 for j in range(len(probe)) if (k * len(probe) + j) in pbs)
        if nrej < best_n:
            best, best_n = v, nrej
    bad2, log = conformance(ctx, cases, obs, best, name="confV")
    if bad2 is None:
        return None, log
    if len(bad2) < len(bad):
        return best, bad2
    return VARIANTS[0], bad


# ------------------------------------------------------------------ the check

def run_group(ctx, pid, ncases=None, only_cases=None):
    ctx.rule = ("cases: corpus of minimal past failures first, then random schedules of submit / cancel / load-ok / load-fail / ping-fail / tick / "
                "explicit unload and of the scheduler's own goroutines (one synchronisation operation at a time) over <= 3 models and <= 6 requests, "
                "classes random / ka0-reuse / self-close / admission (concurrent GetRunner callers) / cycles / dup-expiry-reload / handover-cancel / expiry-race / reuse / queue / join-during-load / twogpu / fit (GPU, CPU, KV-cache, GPU-overhead, two-GPU attribution variants); non-trivial = at least one runner was started and one request answered; "
                "distinct = by the observed choice sequence")
    ctx.trusted = ["Coq 8.16.1 kernel + vm_compute", "hand-written LTS coq/Sched/Lts.v tied to server/sched.go by the conformance run only",
                   "the instrumenter harness/instr (adds yield points, resolves select nondeterminism, swaps sync.Mutex for a channel-backed mutex)",
                   "Go harness harness/overlay/server/sched_verif_test.go + sched_vh.go (mock llm.LlamaServer, testing/synctest virtual time)",
                   "python generator, monitors and rendering (props/c01.py)"]
    ctx.assumptions = ["the three internal event queues (finished, expired, unloaded) never fill: the harness gives them 64 slots, the model treats them as unbounded (production: OLLAMA_MAX_QUEUE = 512 slots each)",
                       "GPU inventory: one 'metal' GPU (VRAM recovery wait is immediate); fit / no-fit is driven by the mock servers' reported VRAM through the real llm.PredictServerFit",
                       "OLLAMA_NUM_PARALLEL=1; requesters always receive their reply (as server/routes.go scheduleRunner does)"]
    binp = build_sched(ctx)
    if not binp:
        return
    if only_cases is not None:
        cases = only_cases
    else:
        n = ncases or (320 if ctx.quick() else 6000)
        corpus = load_corpus(pid)
        cases = corpus + gen_cases(ctx, n)
    for k, c in enumerate(cases):
        c["id"] = k
    t = time.time()
    obs, err = run_sched(ctx, binp, cases)
    ctx.extra["harness_s"] = round(time.time() - t, 1)
    missing = [c["id"] for c, o in zip(cases, obs) if o is None]
    if missing:
        ctx.obligation("steering harness answered every case", False, "missing %s\n%s" % (missing[:10], err))
        ctx.proof_failures.append({"obligation": "correspondence: steering harness did not answer every case", "detail": err[-2000:]})
        return
    ctx.obligation("steering harness answered every case (%d)" % len(cases), True)
    if not all(o.get("instr") for o in obs):
        ctx.obligation("the scheduler goroutines are under the controller's control", False)
        ctx.proof_failures.append({"obligation": "correspondence: instrumented sched.go registered no goroutine", "detail": ""})
        return
    found = {}
    for c, o in zip(cases, obs):
        evs = [e for _, e in flat_events(o)]
        nontriv = any(e[0] == "newserver" and e[2] >= 0 for e in evs) and any(e[0] == "reply" for e in evs)
        canon = [json.dumps(s["c"], sort_keys=True) for s in o["steps"]]
        ctx.note_case(canon, nontriv, c["klass"], sample={"case": {k: c[k] for k in ("max", "maxq", "models", "reqs")}, "steps": len(o["steps"]),
                                                           "events": evs[:12]})
        for k in ("deadlock", "stuck"):
            if o.get(k):
                ctx.count(k)
        for sig, what in monitor(c, o)[pid]:
            key = json.dumps(sig, sort_keys=True)
            ctx.count("violation:" + sig.get("class", "?"))
            if key not in found or len(o["steps"]) < len(found[key][1]["steps"]):
                found[key] = (c, o, sig, what)
    ctx.extra["steps_total"] = sum(len(o["steps"]) for o in obs)
    nshrunk = 0
    for key, (c, o, sig, what) in sorted(found.items()):
        rc, ro = explicit_case(c, o), o
        if nshrunk < (3 if ctx.quick() else 8) and c.get("klass") != "corpus":
            nshrunk += 1
            rc, ro = shrink(ctx, binp, pid, c, o, sig.get("class"))
            what2 = [w for s2, w in monitor(rc, ro)[pid] if s2.get("class") == sig.get("class")]
            what = what2[0] if what2 else what
        ctx.violation(sig, what, {"case": {k: v for k, v in rc.items() if k not in ("klass",)}, "what": what,
                                  "events": [[i, e] for i, e in flat_events(ro) if e[0] not in ("est", "getgpus", "waitcall")][:80],
                                  "how_to_replay": "python3 check.py %s --replay <this file>" % pid})
    if pid == "C02" and only_cases is None:
        http_stage(ctx, binp)
    if pid == "C01" and only_cases is None:
        llm_stage(ctx)
    if pid == "C11" and only_cases is None:
        env_stage(ctx, binp)
    # ---- conformance: which model variant does the implementation conform to, and is it the repaired one?
    t = time.time()
    v, bad = detect_variant(ctx, cases, obs)
    ctx.extra["conformance_s"] = round(time.time() - t, 1)
    if v is None:
        ctx.obligation("correspondence: model evaluated on all observed runs", False, bad)
        ctx.proof_failures.append({"obligation": "correspondence evaluation failed in coqc", "detail": bad})
        return
    ctx.disagreements_checked = len(cases)
    ctx.extra["model_variant"] = {"fxA": v[0], "fxB": v[1], "fxC": v[2]}
    # a run on which the monitor fired is allowed to leave the model (the model of record is the repaired scheduler)
    viol_ids = set()
    for c, o in zip(cases, obs):
        m = monitor(c, o)
        if any(m[p] for p in m):
            viol_ids.add(c["id"])
    # noconf: runs through code the model abstracts (a runner spread over two GPUs is unloaded through the real
    # waitForVRAMRecovery: real GPU discovery, a ticker goroutine) are monitored only
    bad = [i for i in bad if cases[i]["id"] not in viol_ids and not cases[i].get("noconf")]
    ctx.obligation("correspondence: the LTS variant %s accepts all %d observed runs (visible events + state projection after every step)" % (
        "fxA=%d fxB=%d fxC=%d" % tuple(int(x) for x in v), len(cases)), not bad)
    for i in bad[:10]:
        ctx.mismatch("Sched/Corr.chk_trace (variant fxA=%d fxB=%d fxC=%d)" % tuple(int(x) for x in v), explicit_case(cases[i], obs[i]),
                     {"steps": len(obs[i]["steps"]), "first_rejected_step": ctx.coq_print(HEADER, "first_reject %s %d %s" % (
                         render_cfg(cases[i], v), cases[i]["max"], render_trace(cases[i], obs[i])))[-120:] if len(ctx.mismatches) < 3 else None})
    missing_fix = [FIXNAMES[k] for k in range(3) if NEEDS[pid][k] and not v[k]]
    ok = not missing_fix
    ctx.obligation("the implementation conforms to the repaired model the theorems of %s are about" % pid, ok, "; ".join(missing_fix))
    if not ok and not ctx.violations:
        ctx.mismatch("the implementation conforms only to a model variant without [%s]; the theorems of %s are refuted for that variant (Sched/Refute.v)"
                     % ("; ".join(missing_fix), pid), {"variant": v}, {"variant": v})


def run(ctx):
    ctx.proof_stage([GROUP], "Sched/Properties_C01.v", extra_targets=["Sched/Corr.v"])
    if not ctx.quick():
        ctx.coqchk(["V.Sched.Properties_C01"])
    run_group(ctx, "C01")


WS = ["", " ", "\t", "  ", "\n", " \t "]
QS = ["", "\"", "'", "\"'", "''"]
ENV_UINT = {"OLLAMA_MAX_LOADED_MODELS": 0, "OLLAMA_NUM_PARALLEL": 0, "OLLAMA_MAX_QUEUE": 512, "OLLAMA_CONTEXT_LENGTH": 2048, "OLLAMA_GPU_OVERHEAD": 0}
ENV_BOOL = ["OLLAMA_SCHED_SPREAD", "OLLAMA_FLASH_ATTENTION"]


def spell_number(rng, n):
    """a spelling of n that means n to envconfig: padding outside, quotes inside, leading zeros"""
    d = "0" * rng.choice([0, 0, 1, 2]) + str(n)
    q = rng.choice(QS)
    return rng.choice(WS) + q + d + q[::-1] + rng.choice(WS)


def cstr(sv):
    return "[%s]" % "; ".join(str(b) for b in sv.encode())


def env_stage(ctx, binp):
    """C11, the scheduler's limits as the real envconfig readers see them, on generated spellings, against the model
    coq/Sched/EnvCfg.v (strip -> parse -> default)"""
    rng = ctx.rng
    t = time.time()
    unum = ["0", "1", "2", "3", "7", "007", "512", "4096", "1000000000", "18446744073709551615", "18446744073709551616", "+1", "-1", "1.0", "1e3",
            "0x10", "1_000", "", "abc", "1 0", "١"]
    bools = ["1", "0", "true", "false", "TRUE", "FALSE", "True", "False", "t", "f", "T", "F", "yes", "no", "on", "off", "", "2", "tRuE"]
    durs = ["5m", "300", "-1", "0", "30s", "1h", "-5m", "+10s", "10ms", "250us", "7ns", "abc", "5 m", "5x", "", "-0", "+300", "m", "00030s"]
    rows = []

    def deco(v):
        k = rng.random()
        q, q2 = rng.choice(QS), rng.choice(QS)
        if k < 0.55:
            return rng.choice(WS) + q + v + q[::-1] + rng.choice(WS)       # padding outside, quotes inside
        if k < 0.75:
            return q + rng.choice(WS) + v + rng.choice(WS) + q[::-1]       # quotes outside: the padding stays
        if k < 0.9:
            return rng.choice(WS) + q + v + q2 + rng.choice(WS)            # unbalanced quotes
        return v
    for key in ENV_UINT:
        for v in unum:
            for _ in range(3):
                rows.append((key, deco(v)))
    for key in ENV_BOOL:
        for v in bools:
            for _ in range(2):
                rows.append((key, deco(v)))
    for v in durs:
        for _ in range(4):
            rows.append(("OLLAMA_KEEP_ALIVE", deco(v)))
    rows = [(k, v) for k, v in rows if "\x00" not in v and all(ord(ch) < 128 for ch in v)]
    inp = "".join(json.dumps({"key": k, "val": v}) + "\n" for k, v in rows)
    env = dict(os.environ)
    env["VERIF_SCHED_ENV"] = "1"
    p = subprocess.run([binp, "-test.run", "^TestVerifSchedEnv$"], input=inp, env=env, capture_output=True, text=True, cwd=os.path.join(vlib.REPO, "server"), timeout=120)
    got = []
    for line in p.stdout.splitlines():
        if line.startswith("{"):
            try:
                got.append(json.loads(line))
            except ValueError:
                pass
    ok = len(got) == len(rows)
    ctx.obligation("environment stage: the real envconfig readers answered %d generated spellings" % len(rows), ok, (p.stdout[-800:] + p.stderr[-800:]))
    if not ok:
        ctx.proof_failures.append({"obligation": "correspondence: the environment stage of the scheduler harness did not answer every spelling", "detail": p.stderr[-1500:]})
        return
    items = []
    for r in got:
        sv = cstr(r["val"])
        if "u" in r:
            items.append("N.eqb (read_uint %d%%N %s) %s%%N" % (ENV_UINT[r["key"]], sv, r["u"]))
        elif "b" in r:
            items.append("Bool.eqb (read_bool %s) %s" % (sv, cb(r["b"])))
        else:
            items.append("Z.eqb (read_keep_alive %s) (%s)%%Z" % (sv, r["d"]))
    hdr = "From Coq Require Import List Bool NArith ZArith.\nFrom V Require Import Sched.EnvCfg.\nImport ListNotations.\n"
    bad, log = ctx.coq_eval(hdr, items, name="envcfg")
    ctx.extra["env_stage_s"] = round(time.time() - t, 1)
    if bad is None:
        ctx.obligation("environment stage: model evaluated", False, log)
        ctx.proof_failures.append({"obligation": "correspondence evaluation (EnvCfg) failed in coqc", "detail": log})
        return
    ctx.obligation("environment stage: envconfig's readers agree with the model (strip, parse, default) on all %d spellings" % len(rows), not bad)
    for i in bad[:6]:
        r = got[i]
        ctx.violation({"class": "env-spelling", "key": r["key"]},
                      "%s=%r: the real reader returns %s where strip -> parse -> default gives something else (a limit spelled with quotes / padding must mean the same as the "
                      "plain number; an unparsable one the default)" % (r["key"], r["val"], r.get("u", r.get("b", r.get("d")))),
                      {"stage": "env", "observation": r, "how_to_replay": "python3 check.py C11 --replay <this file>"})


LLM_OVERLAYS = ["llm/sched_llm_test.go", "llm/sched_export.go"]
HOP = {"ping": "HPing", "wait": "HWait", "crash": "HCrash", "close": "HClose", "exit": "HExit", "sleep": "HSleep"}


def llm_stage(ctx):
    """C01, the real llm.llmServer health check: no Ping / WaitUntilRunning succeeds once Close() has returned, the
    crash path of Completion has run or the process has exited (harness/overlay/llm/sched_llm_test.go); the probe
    results are compared, operation by operation, with the state machine of coq/Sched/LlmHealth.v"""
    t = time.time()
    repo = vlib.REPO
    with vlib.Lock("go"):
        tag = "" if repo == "/repo" else "-" + hashlib.sha1(repo.encode()).hexdigest()[:8]
        gen_dir = os.path.join(vlib.BUILD, "sched" + tag)
        os.makedirs(gen_dir, exist_ok=True)
        repl = {}
        for rel in LLM_OVERLAYS:
            pkg, f = os.path.split(rel)
            repl[os.path.join(repo, pkg, "zz_verif_" + f)] = os.path.join(vlib.HARNESS, "overlay", rel)
        ovj = os.path.join(gen_dir, "overlay_llm.json")
        json.dump({"Replace": repl}, open(ovj, "w"))
        outp = os.path.join(vlib.BUILD, "bin", "schedllm" + tag)
        rc, out = vlib.sh(["go", "test", "-c", "-tags", "verif", "-overlay", ovj, "-o", outp, "./llm"], cwd=repo, env=vlib.goenv(), timeout=900)
    if rc != 0:
        ctx.obligation("llm stage: the harness builds against the current llm package", False, out[-2000:])
        ctx.proof_failures.append({"obligation": "correspondence: the llm stage of the scheduler harness no longer builds", "detail": out[-2000:]})
        return
    env = dict(os.environ)
    env["VERIF_SCHED_LLM"] = "1"
    rc, out = vlib.sh([outp, "-test.run", "^TestVerifSchedLLM$", "-test.timeout", "120s"], cwd=os.path.join(repo, "llm"), env=env, timeout=150)
    ctx.extra["llm_stage_s"] = round(time.time() - t, 1)
    seqs, done = [], False
    for line in out.splitlines():
        line = line.strip()
        if line.startswith("{"):
            try:
                r = json.loads(line)
            except ValueError:
                continue
            if "seq" in r:
                seqs.append(r["seq"])
            elif r.get("done"):
                done = True
    ctx.obligation("llm stage: %d operation sequences on a real llmServer (dummy child process + httptest /health, /completion)" % len(seqs), done and bool(seqs), out[-1500:])
    if not (done and seqs):
        ctx.proof_failures.append({"obligation": "correspondence: the llm stage of the scheduler harness did not run to the end", "detail": out[-2000:]})
        return
    replay = {"stage": "llm", "how_to_replay": "cd <repo>/llm && VERIF_SCHED_LLM=1 %s -test.run '^TestVerifSchedLLM$'  (or: python3 check.py C01 --replay <this file>)" % outp}
    items = []
    for seq in seqs:
        down = None
        for i, o in enumerate(seq):
            if o["op"] in ("ping", "wait") and o.get("ok") and down is not None:
                ctx.violation({"class": "ping-after-close", "op": o["op"]},
                              "%s succeeds at position %d although the server was shut down at position %d (%s): needsReload would hand a shut-down runner to a request; sequence %s"
                              % (o["op"], i, down, seq[down]["op"], [(x["op"], x.get("ms", 0), x.get("ok")) for x in seq]), dict(replay, sequence=seq))
                break
            if o["op"] in ("close", "exit") or (o["op"] == "crash" and o.get("ok")):
                down = i if down is None else down
        ops = "[%s]" % "; ".join(HOP[o["op"]] for o in seq)
        obs = "[%s]" % "; ".join(("Some %s" % cb(bool(o.get("ok")))) if o["op"] in ("ping", "wait") else "None" for o in seq)
        items.append("chk_health %s %s" % (ops, obs))
    hdr = "From Coq Require Import List Bool.\nFrom V Require Import Sched.LlmHealth.\nImport ListNotations.\n"
    bad, log = ctx.coq_eval(hdr, items, name="llmhealth")
    if bad is None:
        ctx.obligation("llm stage: model evaluated on the observed sequences", False, log)
        ctx.proof_failures.append({"obligation": "correspondence evaluation (LlmHealth) failed in coqc", "detail": log})
        return
    ctx.obligation("llm stage: the health state machine (Sched/LlmHealth.v) predicts every probe result of the %d sequences" % len(seqs), not bad or bool(ctx.violations))
    for i in bad[:5]:
        if not ctx.violations:
            ctx.mismatch("Sched/LlmHealth.chk_health", {"sequence": seqs[i]}, {"sequence": seqs[i]})


RUNNER_ROUTES = ["/api/generate", "/api/chat", "/api/embed", "/api/embeddings", "/v1/chat/completions", "/v1/completions", "/v1/embeddings"]


def http_stage(ctx, binp):
    """C02, the handlers: every endpoint of the real route table that obtains a runner gives it back (real gin /
    net/http stack, real scheduler, mock llm servers; harness/overlay/server/sched_http_test.go)"""
    t = time.time()
    env = dict(os.environ)
    env["VERIF_SCHED_HTTP"] = "1"
    rc, out = vlib.sh([binp, "-test.run", "^TestVerifSchedHTTP$", "-test.timeout", "150s"], cwd=os.path.join(vlib.REPO, "server"), env=env, timeout=200)
    ctx.extra["http_stage_s"] = round(time.time() - t, 1)
    rows, routes, done, stopped = [], [], False, None
    for line in out.splitlines():
        line = line.strip()
        if not line.startswith("{"):
            continue
        try:
            r = json.loads(line)
        except ValueError:
            continue
        if "routes" in r:
            routes = r["routes"]
        elif "route" in r:
            rows.append(r)
        elif r.get("done"):
            done = True
        elif r.get("stopped"):
            stopped = r["stopped"]
    replay = {"stage": "http", "how_to_replay": "cd <repo>/server && VERIF_SCHED_HTTP=1 %s -test.run '^TestVerifSchedHTTP$'  (or: python3 check.py C02 --replay <this file>)" % binp}
    nviol = 0
    for r in rows:
        if not r.get("obtained"):
            continue
        probs = []
        if r.get("ref_after", 0) != 0:
            probs.append("the runner's refCount is still %d one second after the response" % r["ref_after"])
        if not r.get("evict_ok"):
            probs.append("a later request that has to evict the runner does not complete (status %s)" % r.get("evict_code"))
        if r.get("keep_alive") == "30ms" and not r.get("closed_by_ka") and r.get("ref_after", 0) == 0:
            probs.append("the runner is not shut down after its keep-alive")
        if r.get("loaded_end") or r.get("ps_end"):
            probs.append("in the end %d runner(s) are still loaded and /api/ps lists %d" % (r.get("loaded_end", 0), r.get("ps_end", 0)))
        if r.get("never_closed"):
            probs.append("server(s) %s were started but never shut down" % r["never_closed"])
        if probs:
            nviol += 1
            ctx.violation({"class": "handler-leaks-runner", "route": r["route"]},
                          "POST %s (stream=%s, %s, keep_alive %s): the handler obtained a runner and never gave it back: %s"
                          % (r["route"], r["stream"], r["mode"], r["keep_alive"], "; ".join(probs)), dict(replay, observation=r))
    got = sorted(set(r["route"] for r in rows if r.get("obtained")))
    missing = [x for x in RUNNER_ROUTES if x not in got]
    ctx.obligation("HTTP stage: every runner-obtaining endpoint of the route table was exercised through the real gin / net/http stack "
                   "(%d POST routes tried, %d obtained a runner, %d requests)" % (len(routes), len(got), len(rows)),
                   (done and not missing) or nviol > 0, "missing %s; rc %s; %s\n%s" % (missing, rc, stopped, out[-1500:]))
    if not ((done and not missing) or nviol > 0):
        ctx.proof_failures.append({"obligation": "correspondence: the HTTP stage of the scheduler harness did not run to the end", "detail": out[-2000:]})


def replay_group(ctx, pid, path):
    r = json.load(open(path))
    ctx.log("replaying", path)
    if (r.get("replay") or {}).get("stage") == "env":
        binp = build_sched(ctx)
        if binp:
            env_stage(ctx, binp)
        return True
    if (r.get("replay") or {}).get("stage") == "llm":
        llm_stage(ctx)
        return True
    if (r.get("replay") or {}).get("stage") == "http":
        binp = build_sched(ctx)
        if binp:
            http_stage(ctx, binp)
        return True
    case = (r.get("replay") or {}).get("case") or r.get("case")
    if not case and r.get("disagreements"):
        case = r["disagreements"][0].get("case")
    if not case:
        return False
    case = dict(case)
    case.setdefault("klass", "replay")
    run_group(ctx, pid, only_cases=[case])
    return True


def replay(ctx, path):
    ctx.proof_stage([GROUP], "Sched/Properties_C01.v", extra_targets=["Sched/Corr.v"])
    if not replay_group(ctx, "C01", path):
        run_group(ctx, "C01")


MANIFEST = {
    "property_id": "C01",
    "quick_cmd": "python3 check.py C01 --tier quick",
    "thorough_cmd": "python3 check.py C01 --tier thorough",
    "evidence_file": "evidence/C01.json",
    "replay_cmd_template": "python3 check.py C01 --replay {path}",
    "engine": "coq-model+go-differential",
    "level_claimed": {
        "category": "proof",
        "text": "Coq theorems over ALL reachable states of a labelled transition system of server/sched.go (one rule per synchronisation "
                "operation, any number of models/requests, any interleaving). The hand-written LTS is tied to the code on every run by steering the "
                "REAL scheduler (instrumented copy of the current sched.go, testing/synctest virtual time, mock runners) through random schedules and "
                "checking in Coq (vm_compute) that the LTS accepts every observed run (visible events + state projection after every step); the property "
                "is also monitored directly on the real traces.",
        "design_ref": "DESIGN.md section 5, C01; notes/C01.md",
    },
    "level_note": "Theorems hold for the repaired scheduler (fix commits 769ee6347, 27da3f16f, 840d0e442, 1035ca194, 6ba03e7c1; refuted for the code as found, Sched/Refute.v). "
                  "C02 liveness: the internal steps terminate in a quiescent state modulo Tick (C02_internal_terminates, C02_reaches_quiescence) and that state is complete and drained "
                  "if every holder has finished and time has passed (C02_answered_exactly_once, C02_drains); termination across Ticks (C02_drains_full) is stated, not proved, and monitored by the drain. "
                  "C11 memory fit: the model's placement is an oracle; C11_fit_before_start proves a server is started only after the oracle answered 'fits' or with "
                  "nothing loaded, the oracle's meaning (real PredictServerFit arithmetic) is monitored with an independent fit computation, not proved. "
                  
                  "The model-to-code tie is trace conformance on generated schedules (generator-bounded). See notes/C01.md.",
    "technique": "Coq proof (invariants over the reachable states of an LTS) + trace-conformance check against the steered real scheduler",
}
