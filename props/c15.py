"""C15 - concurrent API use causes no data race, panic or torn view of the running models.

Translator route (DESIGN 4 X): harness/cmd/lockx re-extracts, on every run, the table of shared-state accesses of
package ./server (function, goroutine classes, read/write, must-hold lockset) from the CURRENT source; the table is
compiled into Coq and the lockset obligation of coq/Race/Lockset.v is re-evaluated on it with vm_compute; the generic
theorem (lockset discipline => happens-before order of all conflicting accesses, for all interleavings) is
re-instantiated with the regenerated table.  Offending access pairs are the replay.  Dynamic support (not a proof): the
real router/handlers/scheduler with mock runners under the Go race detector; race reports, recovered panics, crashes
and torn /api/ps views are violations.
"""
import glob
import json
import os
import re
import subprocess
import time

from lib import vlib

SETUP_BUILDS = [{"name": "lockx"}, {"name": "c15", "race": True, "test_pkg": "./server"}, {"name": "c15llm", "race": True, "test_pkg": "./llm"}]
COQ_TARGETS = ["Race/Properties_C15.v", "Race/Generated_Accesses_llm.v", "Race/Lockset.v", "Race/Tight.v", "Race/Refcount.v", "Race/PsView.v", "Race/Generated_Accesses.v"]
CLASS = "unsynchronised-access"
SNAPSHOT = os.path.join(vlib.VERIF, "corpus", "C15", "snapshot.json")


# ------------------------------------------------------------------ static side

def known_waivers():
    out = []
    for k in vlib.load_known():
        if k.get("property") == "C15" and k.get("kind") == "known" and k.get("match", {}).get("class") == CLASS:
            out.append((k["match"]["fn"], k["match"]["loc"]))
    return out


def benign_waivers():
    """lockset-discipline violations that are ordered by something the table cannot express (go statement, channel,
    reference count); each has a written justification in corpus/C15/benign.json (one is backed by a theorem)"""
    try:
        return [(b["fn"], b["loc"]) for b in json.load(open(os.path.join(vlib.VERIF, "corpus", "C15", "benign.json")))["benign"]]
    except OSError:
        return []


def lockkey(l):
    return ("S:" if l["self"] else "G:") + l["name"]


def pair_ok(a, b, singles):
    """python mirror of Lockset.pair_ok (cross-checked against Coq's answer on every run)"""
    if a["loc"] != b["loc"]:
        return True
    if a["kind"] == "R" and b["kind"] == "R":
        return True
    if a["init"] or b["init"]:
        return True
    if not any((ca != cb or ca not in singles) for ca in a["classes"] for cb in b["classes"]):
        return True
    if {lockkey(l) for l in a["locks"]} & {lockkey(l) for l in b["locks"]}:
        return True
    return bool(set(a.get("before", [])) & set(b.get("after", []))) or bool(set(b.get("before", [])) & set(a.get("after", [])))


def guard_of(table, loc):
    """the mutex most accesses of the location hold (Self before Glob, then by name, on ties)"""
    cnt = {}
    for e in table["entries"]:
        if e["loc"] == loc and not e["init"]:
            for l in e["locks"]:
                cnt[lockkey(l)] = cnt.get(lockkey(l), 0) + 1
    if not cnt:
        return None
    return sorted(cnt, key=lambda k: (-cnt[k], k[0] != "S", k))[0]


def culprits(table, a, b):
    g = guard_of(table, a["loc"])
    la, lb = {lockkey(l) for l in a["locks"]}, {lockkey(l) for l in b["locks"]}
    out = []
    if g is None or g not in la:
        out.append(a)
    if g is None or g not in lb:
        out.append(b)
    return out or [a, b]


def parse_pairs(out, name):
    m = re.search(name + r"\s*=\s*(.*?)\s*:\s*list \(nat \* nat\)", out, flags=re.S)
    if not m:
        return None
    return [(int(x), int(y)) for x, y in re.findall(r"\(\s*(\d+)\s*,\s*(\d+)\s*\)", m.group(1))]


def canary(ctx, binp):
    """translator self-test: a small package with every construct the analysis claims to understand (branches with
    early unlock, loops with break/continue, defer, callee summaries, hand-off to a goroutine, timers, select/switch,
    reassignment, wrong object, sort callbacks, globals, singleton goroutines, sync.Map ownership + close/receive signals, writes through aliases of cached values); the table must be exactly the reviewed one"""
    d = os.path.join(vlib.HARNESS, "cmd", "lockx", "testdata", "canary")
    out = os.path.join(ctx.tmp, "canary.json")
    rc, log = vlib.sh([binp, "-pkg", "./cmd/lockx/testdata/canary", "-json", out, vlib.HARNESS], env=vlib.goenv(), timeout=300, cwd=ctx.tmp)
    ok, detail = False, log
    if rc == 0 and os.path.exists(out):
        t = json.load(open(out))
        exp = json.load(open(os.path.join(d, "expect.json")))
        got = [[e["fn"], e["loc"], e["kind"], e["init"], [lockkey(l) for l in e["locks"]], int(e["pos"].split(":")[1]), e["classes"], e["before"], e["after"]] for e in t["entries"]]
        singles = sorted(c["name"] for c in t["classes"] if c["single"])
        diff = [x for x in got if x not in exp["entries"]] + [x for x in exp["entries"] if x not in got]
        aw = [[a["fn"], a["op"], int(a["pos"].split(":")[1])] for a in t.get("alias_writes") or []]
        ok = not diff and singles == exp["singles"] and t["entry_locks"] == exp["entry_locks"] and t["signals"] == exp["signals"] and aw == exp.get("alias_writes") and not t["type_errors"]
        detail = str(diff[:6]) + str(singles) + str(t["type_errors"][:3])
    ctx.obligation("translator self-test: lockx reproduces the reviewed table of its canary package (%d sites)" % (len(exp["entries"]) if ok else 0), ok, detail)
    if not ok:
        ctx.proof_failures.append({"obligation": "translator self-test (harness/cmd/lockx/testdata/canary)", "detail": detail[-2000:]})


PKGS = [
    {"pkg": "./server", "args": [], "tag": "", "min": 50, "snapshot": SNAPSHOT},
    # the llmServer every concurrent request of one model shares (llm/server.go); its methods are called from package server
    {"pkg": "./llm", "args": ["-pkg", "./llm", "-prefix", "llm.", "-global", "", "-single", ""], "tag": "_llm", "min": 20,
     "snapshot": os.path.join(vlib.VERIF, "corpus", "C15", "snapshot_llm.json")},
]


def run_lockx(ctx, findings, spec=None):
    """regenerate the table from the current tree; evaluate and re-prove the obligations in Coq. -> table or None"""
    spec = spec or PKGS[0]
    server = spec["tag"] == ""
    binp = ctx.go_build("lockx")
    if not binp:
        return None
    if server:
        canary(ctx, binp)
    d = os.path.join(ctx.tmp, "coqrun" + spec["tag"])
    os.makedirs(d, exist_ok=True)
    waive = ";".join("%s|%s" % w for w in known_waivers() + benign_waivers())
    jpath, vpath = os.path.join(d, "table.json"), os.path.join(d, "Generated_Accesses.v")
    t = time.time()
    rc, out = vlib.sh([binp] + spec["args"] + ["-waive", waive, "-json", jpath, "-coq", vpath, vlib.REPO], env=vlib.goenv(), timeout=600, cwd=d)
    ctx.checker_cmds.append("lockx %s -json table.json -coq Generated_Accesses.v %s" % (" ".join(spec["args"]), vlib.REPO))
    if rc != 0 or not os.path.exists(jpath):
        ctx.obligation("translator lockx ran on the current %s" % spec["pkg"], False, out)
        ctx.proof_failures.append({"obligation": "translator: lockx failed on the current tree (package %s does not type-check?)" % spec["pkg"], "detail": out[-3000:]})
        return None
    table = json.load(open(jpath))
    ctx.extra["lockx_s"] = round(ctx.extra.get("lockx_s", 0) + time.time() - t, 1)
    ok = not table["type_errors"] and len(table["entries"]) > spec["min"]
    ctx.obligation("translator lockx ran on the current " + spec["pkg"] + " (%d access sites, %d goroutine classes, %d type errors)" % (
        len(table["entries"]), len(table["classes"]), len(table["type_errors"])), ok, str(table["type_errors"][:5]))
    if not ok:
        ctx.proof_failures.append({"obligation": "translator: incomplete type information or implausibly small table", "detail": str(table["type_errors"][:10])})
        return None
    ctx.extra["table" + spec["tag"]] = {"entries": len(table["entries"]), "tracked_types": table["tracked_types"], "tracked_vars": table["tracked_vars"],
                          "entry_locks": table["entry_locks"], "coarse_functions": table["coarse_functions"], "notes": table["notes"],
                          "classes": [c["name"] + ("*" if c["single"] else "") for c in table["classes"]]}
    # Coq: the regenerated table, the offending pairs, then the theorems against it
    hdr = "From Coq Require Import List NArith Bool.\nFrom V Require Import Race.Lockset.\nFrom R Require Import Generated_Accesses.\nImport ListNotations.\n"
    open(os.path.join(d, "Run.v"), "w").write(hdr + "Definition bad_all := Eval vm_compute in bad_pairs no_waiver accesses.\nPrint bad_all.\n"
                                              "Definition bad_w := Eval vm_compute in bad_pairs (waive waived) accesses.\nPrint bad_w.\n")
    coqc = ["coqc", "-Q", vlib.COQ, "V", "-Q", d, "R", "-w", "-notation-overridden"]
    rc, out = vlib.sh(coqc + [vpath], cwd=d, timeout=600)
    if rc == 0:
        rc, out = vlib.sh(coqc + [os.path.join(d, "Run.v")], cwd=d, timeout=900)
    ctx.checker_cmds.append("coqc Generated_Accesses.v (regenerated) ; coqc Run.v (bad_pairs by vm_compute)")
    bad_all, bad_w = (parse_pairs(out, "bad_all"), parse_pairs(out, "bad_w")) if rc == 0 else (None, None)
    if bad_all is None or bad_w is None:
        ctx.obligation("regenerated table compiles and is evaluated in Coq", False, out)
        ctx.proof_failures.append({"obligation": "regenerated Generated_Accesses.v does not compile / evaluate", "detail": out[-3000:]})
        return None
    ctx.obligation("regenerated table compiles and is evaluated in Coq (vm_compute)", True)
    E = table["entries"]
    singles = {c["name"] for c in table["classes"] if c["single"]}
    mirror = sorted((i, j) for i in range(len(E)) for j in range(i, len(E)) if not pair_ok(E[i], E[j], singles))
    ctx.obligation("python mirror of pair_ok agrees with Coq on the offending pairs (%d)" % len(bad_all), mirror == sorted(bad_all), str((mirror[:5], bad_all[:5])))
    if mirror != sorted(bad_all):
        ctx.proof_failures.append({"obligation": "python mirror of Lockset.pair_ok disagrees with Coq", "detail": str((mirror[:20], bad_all[:20]))})
    # theorems re-instantiated with the regenerated table
    thm = hdr + ("Theorem run_lockset_partial : lockset_ok_except (waive waived) accesses = true.\nProof. apply bad_pairs_nil. vm_compute. reflexivity. Qed.\n"
                 "Theorem run_race_free : forall cls_of tr, wf_trace tr -> conforms accesses cls_of tr -> safe_init accesses tr ->\n"
                 "  race_free_on tr (fun s1 s2 => forall e1 e2, nth_error (entries accesses) s1 = Some e1 -> nth_error (entries accesses) s2 = Some e2 -> waive waived e1 = false /\\ waive waived e2 = false).\n"
                 "Proof. intros c tr H1 H2 H3. exact (lockset_sound_except accesses c (waive waived) tr H1 H2 H3 run_lockset_partial). Qed.\nPrint Assumptions run_race_free.\n")
    if not bad_all:
        thm += ("Theorem run_lockset_full : lockset_ok accesses = true.\nProof. apply bad_pairs_nil. vm_compute. reflexivity. Qed.\n"
                "Theorem run_race_free_full : forall cls_of tr, wf_trace tr -> conforms accesses cls_of tr -> safe_init accesses tr -> race_free tr.\n"
                "Proof. intros c tr H1 H2 H3. exact (lockset_sound accesses c tr H1 H2 H3 run_lockset_full). Qed.\nPrint Assumptions run_race_free_full.\n")
    open(os.path.join(d, "Thm.v"), "w").write(thm)
    rc, out2 = vlib.sh(coqc + [os.path.join(d, "Thm.v")], cwd=d, timeout=900)
    closed, axioms = vlib.parse_assumptions(out2)
    ctx.axioms |= axioms
    ctx.obligation("C15%s_race_free re-proved against the regenerated table of %s (lockset_ok_except waived = true by vm_compute; %d recorded findings and %d justified orderings excluded)" % ("_sched" if server else "_llm", spec["pkg"], len(known_waivers()), len(benign_waivers())),
                   rc == 0 and not axioms, out2)
    ctx.extra["bad_pairs" + spec["tag"]] = len(bad_all)
    ctx.extra["bad_pairs_not_waived" + spec["tag"]] = len(bad_w)
    # offending pairs -> findings keyed by (function, location)
    for i, j in bad_all:
        a, b = E[i], E[j]
        for c in culprits(table, a, b):
            o = b if c is a else a
            f = findings.setdefault((c["fn"], c["loc"]), {"pairs": [], "races": [], "guard": guard_of(table, c["loc"])})
            f["pairs"].append({"access": "%s %s at %s holding %s" % (c["fn"], "writes" if c["kind"] == "W" else "reads", c["pos"], [lockkey(l) for l in c["locks"]] or "no mutex"),
                               "conflicts_with": "%s %s at %s holding %s" % (o["fn"], "writes" if o["kind"] == "W" else "reads", o["pos"], [lockkey(l) for l in o["locks"]] or "no mutex"),
                               "classes": [c["classes"], o["classes"]]})
    # values handed out by shared containers and then written through (no lock of the container covers the element)
    ctx.extra["alias_writes" + spec["tag"]] = len(table.get("alias_writes") or [])
    for a in table.get("alias_writes") or []:
        ctx.violation({"class": "shared-alias-write", "fn": a["fn"], "op": a["op"]},
                      "%s writes (%s) through a value it obtained from / stored in %s: every goroutine that gets the value from the container shares "
                      "one backing store, and the container's own synchronisation does not cover its elements (%s)" % (a["fn"], a["op"], a["source"], a["pos"]),
                      {"site": a, "how_to_replay": "python3 check.py C15 (static); dynamic: class sibling-capabilities"})
    if rc != 0 and not findings:
        ctx.proof_failures.append({"obligation": "C15_sched_race_free against the regenerated table", "detail": out2[-3000:]})
    if not server:
        # the dynamic harness builds its llmServer in an overlay shim (VerifNewServer) instead of NewLlamaServer (which
        # starts a runner subprocess): the shim must set every field the real constructor sets
        SHIM_FIELDS = {"port", "cmd", "status", "options", "modelPath", "llamaModel", "textProcessor", "estimate", "numParallel", "sem", "totalLayers", "gpus", "done"}
        ctor = {e["loc"].split(".")[-1] for e in E if e["fn"] == "llm.NewLlamaServer" and e["kind"] == "W"}
        extra = sorted(ctor - SHIM_FIELDS)
        ctx.obligation("overlay shim llm.VerifNewServer initialises every llmServer field NewLlamaServer initialises (%d)" % len(ctor), bool(ctor) and not extra, str(extra))
        if extra or not ctor:
            ctx.mismatch("harness/overlay/llm/c15.go: NewLlamaServer now initialises llmServer fields the shim does not (%s): the dynamic runs no longer exercise the real object" % extra,
                         {}, {"constructor_fields": sorted(ctor)})
        try:
            snap = json.load(open(spec["snapshot"]))
            key = lambda e: (e["fn"], e["loc"], e["kind"], tuple(lockkey(l) for l in e["locks"]), e["init"])
            s0, s1 = {key(e) for e in snap["entries"]}, {key(e) for e in E}
            ctx.extra["table_vs_snapshot" + spec["tag"]] = {"added": sorted(map(str, s1 - s0))[:40], "removed": sorted(map(str, s0 - s1))[:40]}
        except Exception as ex:  # noqa
            ctx.extra["table_vs_snapshot" + spec["tag"]] = "no snapshot: %s" % ex
        return table
    # torn-view preconditions of C15_ps_no_torn_view, read off the table
    need = []
    for e in E:
        glob = {l["name"] for l in e["locks"] if not l["self"]}
        if e["init"]:
            continue
        if e["fn"] == "Server.PsHandler" and e["loc"] in ("Scheduler.loaded", "runnerRef.model") and "Scheduler.loadedMu" not in glob:
            need.append("PsHandler %s %s without loadedMu" % (e["loc"], e["pos"]))
        if e["kind"] == "W" and e["loc"] in ("Scheduler.loaded", "runnerRef.model") and "Scheduler.loadedMu" not in glob:
            need.append("%s writes %s at %s without loadedMu" % (e["fn"], e["loc"], e["pos"]))
    # ... and atomicity: each teardown (runner.model = nil) shares its loadedMu critical section with a delete from
    # `loaded`, and PsHandler's walk + field reads are one section (the granularity of PsView.Teardown / snapshot)
    MU = "Scheduler.loadedMu"

    def sections(fn, acq, depth=0):
        a = acq.get(MU)
        if a is None:
            return {None}
        if a != "entry":
            return {a}
        out = set()
        for c in table.get("calls", []):
            if c["callee"] == fn and not c["async"] and depth < 4:
                out |= sections(c["caller"], c["acq"], depth + 1)
        return out or {None}
    del_sections = set()
    for e in E:
        if e["loc"] == "Scheduler.loaded" and e["kind"] == "W" and not e["init"]:
            del_sections |= sections(e["fn"], e["acq"])
    for e in E:
        if e["loc"] == "runnerRef.model" and e["kind"] == "W" and not e["init"]:
            for sec in sections(e["fn"], e["acq"]):
                if sec is None or sec not in del_sections:
                    need.append("teardown %s (%s) is not in one loadedMu critical section with a delete from `loaded` (section %s)" % (e["fn"], e["pos"], sec))
    ps_secs = set()
    for e in E:
        if e["fn"] == "Server.PsHandler" and e["loc"] in ("Scheduler.loaded", "runnerRef.model"):
            ps_secs |= sections(e["fn"], e["acq"])
    if len(ps_secs) > 1:
        need.append("PsHandler reads the map and the runners in different critical sections %s" % sorted(map(str, ps_secs)))
    ps_seen = any(e["fn"] == "Server.PsHandler" and e["loc"] == "Scheduler.loaded" for e in E)
    ctx.obligation("torn-view preconditions: PsHandler walks `loaded` and every teardown/insert runs under loadedMu", ps_seen and not need, str(need))
    unknown = [k for k in findings if k not in set(benign_waivers()) and not vlib.match_known(ctx.known, {"class": CLASS, "loc": k[1], "fn": k[0]})]
    if need and not unknown:
        ctx.mismatch("Race/PsView: the atomic Teardown/snapshot steps of the model no longer match the critical sections of the code (torn /api/ps view possible)", {}, {"need": need})
    if not ps_seen:
        ctx.mismatch("translator: PsHandler's walk of Scheduler.loaded not found in the table (model PsView no longer matches the handler)", {}, {"need": need})
    ctx.extra["torn_view_preconditions_missing"] = need
    # drift against the committed snapshot (information only)
    try:
        snap = json.load(open(SNAPSHOT))
        key = lambda e: (e["fn"], e["loc"], e["kind"], tuple(lockkey(l) for l in e["locks"]), e["init"])
        s0, s1 = {key(e) for e in snap["entries"]}, {key(e) for e in E}
        ctx.extra["table_vs_snapshot"] = {"added": sorted(map(str, s1 - s0))[:40], "removed": sorted(map(str, s0 - s1))[:40]}
    except Exception as ex:  # noqa
        ctx.extra["table_vs_snapshot"] = "no snapshot: %s" % ex
    return table


# ------------------------------------------------------------------ dynamic side

def gen(m, ka, prompt="hi"):
    return {"method": "POST", "path": "/api/generate", "body": {"model": "m%d" % m, "prompt": prompt, "stream": False, "keep_alive": ka}}


def chat(m, ka):
    return {"method": "POST", "path": "/api/chat", "body": {"model": "m%d" % m, "messages": [{"role": "user", "content": "hi"}], "stream": False, "keep_alive": ka}}


def embed(m, ka):
    return {"method": "POST", "path": "/api/embed", "body": {"model": "m%d" % m, "input": "hi", "keep_alive": ka}}


def unload(m):
    return {"method": "POST", "path": "/api/generate", "body": {"model": "m%d" % m, "keep_alive": 0}}


PS = {"method": "GET", "path": "/api/ps"}
TAGS = {"method": "GET", "path": "/api/tags"}


def show(m):
    return {"method": "POST", "path": "/api/show", "body": {"model": "m%d" % m}}


def show_name(name):
    return {"method": "POST", "path": "/api/show", "body": {"model": name}}


def gen_name(name):
    return {"method": "POST", "path": "/api/generate", "body": {"model": name, "prompt": "hi", "stream": False, "keep_alive": 0}}


def copy(m, dst):
    return {"method": "POST", "path": "/api/copy", "body": {"source": "m%d" % m, "destination": dst}}


def delete(name):
    return {"method": "DELETE", "path": "/api/delete", "body": {"model": name}}


def create(name, m):
    return {"method": "POST", "path": "/api/create", "body": {"model": name, "from": "m%d" % m, "stream": False}}


def pull(i, cancel_us=0):
    r = {"method": "POST", "path": "/api/pull", "body": {"model": "reg.test/library/p%d" % i, "insecure": True, "stream": False}}
    if cancel_us:
        r["cancel_us"] = cancel_us
    return r


def push(name, cancel_us=0):
    r = {"method": "POST", "path": "/api/push", "body": {"model": name, "insecure": True, "stream": False}}
    if cancel_us:
        r["cancel_us"] = cancel_us
    return r


def blob_post(content):
    import hashlib
    return {"method": "POST", "path": "/api/blobs/sha256:" + hashlib.sha256(content.encode()).hexdigest(), "raw": content}


def blob_head(rng):
    return {"method": "HEAD", "path": "/api/blobs/sha256:" + "".join(rng.choice("0123456789abcdef") for _ in range(64))}


def hunt_cases(ctx, rounds, locs=()):
    """escalation when the static side found something new: hammer /api/ps while runners are torn down, or - for the
    transfer structures - concurrent pulls / pushes of a shared layer with impatient clients"""
    rng = ctx.rng
    out = []
    if any(l.startswith("blob") for l in locs):
        for i in range(max(2, rounds // 2)):
            head = rng.choice([5000, 20000, 30000])
            reg = {"models": 4, "layer_kb": 128, "head_us": head, "chunk_us": 2000}
            w = [[pull(j % 2)] for j in range(3)] + [[pull(j % 4, int(head * rng.uniform(1.1, 2.2)))] for j in range(5)]
            out.append({"id": "hunt-pull-%d" % i, "klass": "hunt-transfer", "rounds": 1, "timeout_ms": 8000, "deadline_ms": 12000, "models": 1, "max_loaded": 1,
                        "gpu": "cpu", "load_us": 100, "comp_us": 100, "workers": w, "registry": reg})
            w = [[copy(0, "reg.test/library/q%d" % j), push("reg.test/library/q%d" % j, 0 if j < 3 else int(head * rng.uniform(1.1, 2.5)))] for j in range(7)]
            out.append({"id": "hunt-push-%d" % i, "klass": "hunt-transfer", "rounds": 1, "timeout_ms": 8000, "deadline_ms": 12000, "models": 1, "max_loaded": 1,
                        "gpu": "cpu", "load_us": 100, "comp_us": 100, "workers": w, "registry": dict(reg, models=1, layer_kb=64)})
        return out
    for i in range(rounds):
        k = rng.randint(1, 3)
        w = [[gen((j + x) % k, 0) for x in range(40)] for j in range(3)] + [[PS] * 300] * 6
        out.append({"id": "hunt-%d" % i, "klass": "hunt-ps-teardown", "rounds": 1, "timeout_ms": 1500, "deadline_ms": 6000, "models": k, "max_loaded": k,
                    "gpu": "cpu", "load_us": rng.choice([50, 200]), "comp_us": 50, "workers": w})
    return out


def gen_cases(ctx):
    rng = ctx.rng
    q = ctx.quick()
    cases = []

    def add(klass, **kw):
        c = {"id": "%s-%d" % (klass, len(cases)), "klass": klass, "rounds": 1, "timeout_ms": 1500, "deadline_ms": 4000 if q else 8000}
        c.update(kw)
        cases.append(c)
    try:  # corpus first: request mixes that once exposed a race
        for line in open(os.path.join(vlib.VERIF, "corpus", "C15", "cases.jsonl")):
            if line.strip():
                cases.append(json.loads(line))
    except OSError:
        pass
    reps = 2 if q else 40
    n = 12 if q else 24
    for _ in range(reps):
        k = rng.randint(2, 3)
        # /api/ps while requests finish, runners expire and are torn down (classes of the proof: PsHandler x every writer)
        w = [[gen((j + i) % k, rng.choice([0, "2ms", "20ms", "1s"])) for i in range(n)] for j in range(k)]
        w += [[PS] * (6 * n)] * 2 + [[unload(rng.randrange(k)) for _ in range(2 * n)]]
        add("ps-vs-teardown", models=k, max_loaded=k, gpu=rng.choice(["cpu", "metal"]), load_us=rng.choice([100, 300, 1000]), comp_us=200, workers=w)
        # eviction (findRunnerToUnload + sort) against unload requests
        k = rng.randint(3, 4)
        w = [[gen((j + i) % k, "1s") for i in range(n)] for j in range(k)] + [[dict(unload(rng.randrange(k)), pause_us=rng.choice([200, 1000, 3000])) for _ in range(n)]] + [[PS] * n]
        add("evict-vs-unload", models=k, max_loaded=2, gpu="metal", load_us=200, comp_us=100, workers=w)
        # several models loading at once on a GPU system (filterGPUsWithoutLoadingModels / updateFreeSpace); no expiry
        k = rng.randint(3, 5)
        w = [[rng.choice([gen, chat])((j + i) % k, "5s") for i in range(n)] for j in range(k)] + [[PS] * (2 * n)]
        add("concurrent-loads", models=k, max_loaded=k, gpu="metal2", load_us=rng.choice([1000, 3000]), comp_us=100, workers=w)
        # the rest of the API in parallel with inference
        k = 2
        w = [[gen(i % k, "10ms") for i in range(n)], [embed(i % k, "10ms") for i in range(n)],
             [rng.choice([TAGS, show(rng.randrange(k)), PS, blob_head(rng)]) for _ in range(3 * n)],
             [x for i in range(n // 2) for x in (copy(i % k, "c%d" % i), show(i % k), delete("c%d" % i))],
             [x for i in range(n // 2) for x in (create("n%d" % i, i % k), gen(i % k, 0), delete("n%d" % i))],
             [blob_post("blob-%d" % (i % 3)) for i in range(n)], [blob_post("blob-%d" % (i % 3)) for i in range(n)]]
        add("admin-mix", models=k, max_loaded=2, gpu="cpu", load_us=200, comp_us=100, workers=w)
        # the same few names created / copied / shown / listed / deleted from several connections at once
        names = ["x", "y"]
        w = [[x for i in range(n // 2) for x in (copy(rng.randrange(k), rng.choice(names)), show_name(rng.choice(names)), TAGS, delete(rng.choice(names)))] for _ in range(3)]
        w += [[x for i in range(n // 3) for x in (create(rng.choice(names), rng.randrange(k)), gen_name(rng.choice(names)), delete(rng.choice(names)))] for _ in range(2)]
        add("names-overlap", models=k, max_loaded=2, gpu="cpu", load_us=100, comp_us=50, workers=w)
    # sibling models: created FROM the same weights blob with different templates (one with .Tools, one with .Suffix, one plain):
    # whatever the server caches per blob must not leak between them.  Every request is first answered sequentially (the
    # reference); a concurrent answer that differs from it is a torn view.
    for i in range(1 if q else 8):
        sib = {"t0": "{{ if .Tools }}{{ .Tools }}{{ end }}{{ .Prompt }}", "s0": "{{ .Prompt }}{{ .Suffix }}", "p0": "{{ .Prompt }}"}
        setup = [{"method": "POST", "path": "/api/create", "body": {"model": nm, "from": "m0", "template": tp, "stream": False}} for nm, tp in sib.items()]
        tools = [{"type": "function", "function": {"name": "f", "description": "d", "parameters": {"type": "object", "properties": {}}}}]

        def chat_tools(nm):
            return {"method": "POST", "path": "/api/chat", "body": {"model": nm, "messages": [{"role": "user", "content": "hi"}], "tools": tools, "stream": False, "keep_alive": "5s"}}

        def gen_suffix(nm):
            return {"method": "POST", "path": "/api/generate", "body": {"model": nm, "prompt": "a", "suffix": "b", "stream": False, "keep_alive": "5s"}}
        names = list(sib)
        reqs = [chat_tools(x) for x in names] + [gen_suffix(x) for x in names] + [show_name(x) for x in names] + \
               [{"method": "POST", "path": "/api/embed", "body": {"model": x, "input": "hi"}} for x in names]
        w = [[rng.choice(reqs) for _ in range(2 * n)] for _ in range(6)]
        add("sibling-capabilities", models=1, max_loaded=3, gpu="cpu", load_us=100, comp_us=50, workers=w, setup=setup, baseline=True, timeout_ms=5000, deadline_ms=10000)
    # concurrent generate requests streamed by ONE real llmServer (parallel > 1) through the real handlers
    for i in range(1 if q else 8):
        par = rng.randint(2, 4)
        size = rng.choice([20000, 100000, 300000])
        w = [[gen(0, "5s", "please sid=w%dq%d n=%d size=%d thanks" % (j, x, rng.randint(6, 16), size + 13 * j + x)) for x in range(4)] for j in range(par + 2)] + [[PS] * 10]
        add("real-llm-parallel", models=1, max_loaded=1, gpu="cpu", load_us=100, comp_us=rng.choice([0, 100]), workers=w, real_llm=True, parallel=par, timeout_ms=8000, deadline_ms=12000)
    # transfers (server/download.go, upload.go): fake registry + CDN; every pulled model shares one layer
    for _ in range(1 if q else 10):
        head = rng.choice([2000, 10000, 30000])
        reg = {"models": 4, "layer_kb": rng.choice([64, 512]), "head_us": head, "chunk_us": rng.choice([1000, 5000])}
        w = [[pull(j % 4)] for j in range(6)]
        add("pull-shared-layer", models=1, max_loaded=1, gpu="cpu", load_us=100, comp_us=100, workers=w, registry=reg, timeout_ms=8000, deadline_ms=12000)
        head = rng.choice([20000, 30000])
        reg = {"models": 4, "layer_kb": 128, "head_us": head, "chunk_us": 2000}
        w = [[pull(0)], [pull(1)]] + [[pull(2 + j % 2, int(head * rng.uniform(1.1, 2.2)))] for j in range(6)]
        add("pull-cancel", models=1, max_loaded=1, gpu="cpu", load_us=100, comp_us=100, workers=w, registry=reg, timeout_ms=8000, deadline_ms=12000)
        reg = {"models": 1, "layer_kb": 64, "head_us": head, "chunk_us": 3000}
        w = [[copy(0, "reg.test/library/q%d" % j), push("reg.test/library/q%d" % j, 0 if j < 3 else int(head * rng.uniform(1.1, 2.5)))] for j in range(7)]
        add("push-shared-layer", models=1, max_loaded=1, gpu="cpu", load_us=100, comp_us=100, workers=w, registry=reg, timeout_ms=8000, deadline_ms=12000)
        # a second push of the same layer gives up while the first is still preparing (the last waiter's release() cancels
        # the run context before Run has started any part)
        head2 = rng.choice([60000, 100000])
        k = rng.randint(3, 6)
        w2 = []
        for j in range(k):
            w2.append([push("m%d" % j)])
            w2.append([dict(push("m%d" % j, int(head2 * rng.uniform(1.3, 1.7))), pause_us=3000)])
        add("push-cancel-during-prepare", models=k, max_loaded=1, gpu="cpu", load_us=100, comp_us=100, workers=w2, registry=dict(reg, head_us=head2), timeout_ms=8000, deadline_ms=12000)
    return cases


def go_fn(name):
    """server.(*Scheduler).load.func1 -> Scheduler.load.func1"""
    name = name.split("/")[-1]
    name = re.sub(r"^server\.", "", name)
    return name.replace("(*", "").replace(")", "")


def parse_races(txt):
    reps = []
    for rep in txt.split("WARNING: DATA RACE")[1:]:
        rep = rep.split("==================")[0]
        sides = []
        for blk in re.split(r"\n\n", rep):
            m = re.match(r"\s*(Previous )?(write|read|atomic write|atomic read|Write|Read|Atomic write|Atomic read) at 0x[0-9a-f]+ by ", blk)
            if not m:
                continue
            frames = re.findall(r"\n\s+(\S+)\(\)\n\s+(\S+):(\d+)", blk)
            top = None
            for fn, file, line in frames:
                if file.startswith(vlib.REPO + "/") and "zz_verif" not in file and "_test.go" not in file:
                    rel = file[len(vlib.REPO) + 1:]
                    # positions of package server are bare file names in the table, other packages carry their directory
                    top = {"fn": go_fn(fn), "file": rel.split("/")[-1] if rel.startswith("server/") and rel.count("/") == 1 else rel, "line": int(line)}
                    break
            sides.append({"kind": "W" if "rite" in m.group(2) else "R", "top": top, "first": [go_fn(f[0]) + " " + f[1].split("/")[-1] + ":" + f[2] for f in frames[:4]]})
        if len(sides) >= 2:
            reps.append({"sides": sides[:2], "text": rep.strip()[:2500]})
    return reps


def classify_race(table, r):
    """-> list of (fn, loc) culprit keys in the table's vocabulary, or None when the location is not a tracked one"""
    cands = []
    for s in r["sides"]:
        if not s["top"]:
            return None
        pref = "%s:%d:" % (s["top"]["file"], s["top"]["line"])
        es = [e for e in table["entries"] if e["pos"].startswith(pref) and (e["kind"] == s["kind"] or (s["kind"] == "W" and e["init"]))]
        if not es:
            es = [e for e in table["entries"] if e["pos"].startswith(pref)]
        # a composite literal spans lines: the report names the line of `&T{`
        if not es and s["kind"] == "W":
            es = [e for e in table["entries"] if e["init"] and e["pos"].startswith(s["top"]["file"]) and
                  0 <= int(e["pos"].split(":")[1]) - s["top"]["line"] <= 15]
        if not es:
            return None
        cands.append(es)
    locs = {e["loc"] for e in cands[0]} & {e["loc"] for e in cands[1]}
    if not locs:
        # the allocation `&T{...}` zeroes every field: a report naming that line conflicts with any field of T
        for k in (0, 1):
            if all(e["init"] for e in cands[k]):
                typ = cands[k][0]["loc"].split(".")[0] + "."
                other = [e for e in cands[1 - k] if e["loc"].startswith(typ)]
                if other:
                    return sorted({(e["fn"], e["loc"]) for e in other})
        return None
    out = []
    for loc in sorted(locs):
        a = [e for e in cands[0] if e["loc"] == loc][0]
        b = [e for e in cands[1] if e["loc"] == loc][0]
        for c in culprits(table, a, b):
            if not c["init"] or len(culprits(table, a, b)) == 1:
                out.append((c["fn"], loc))
        if not out:
            out += [(a["fn"], loc), (b["fn"], loc)]
    return out


def absorb_races(ctx, table, findings, pattern):
    files = sorted(glob.glob(pattern))
    races = parse_races("".join(open(f, errors="replace").read() for f in files))
    for f in files:
        os.remove(f)
    ctx.extra["race_reports"] = ctx.extra.get("race_reports", 0) + len(races)
    untracked = {}
    for r in races:
        if all(s["top"] is None for s in r["sides"]) and all(any("zz_verif" in f or "_test.go" in f for f in s["first"]) for s in r["sides"]):
            ctx.log("race inside the test harness itself (ignored):", r["sides"])
            continue
        keys = classify_race(table, r) if table else None
        if keys:
            for k in keys:
                f = findings.setdefault(k, {"pairs": [], "races": [], "guard": guard_of(table, k[1])})
                if len(f["races"]) < 2:
                    f["races"].append(r["text"])
        else:
            fns = sorted((s["top"]["fn"] if s["top"] else s["first"][0].split(" ")[0]) for s in r["sides"])
            untracked.setdefault(" | ".join(fns), r)
    for k, r in untracked.items():
        ctx.violation({"class": "data-race", "between": k}, "the race detector reports a data race between " + k, {"report": r["text"], "sides": r["sides"]})


def llm_cases(ctx):
    """concurrent calls on ONE real llmServer (fake runner endpoint): parallel 2-4, big chunks that fill the scanner buffer"""
    rng = ctx.rng
    out = []
    for i in range(3 if ctx.quick() else 30):
        par = rng.randint(2, 4)
        out.append({"id": "llm-%d" % i, "parallel": par, "streams": par + rng.randint(1, 4), "chunks": rng.randint(8, 30),
                    "size": rng.choice([2000, 60000, 200000, 400000]), "embeds": rng.randint(0, 3), "toks": rng.randint(0, 3), "pings": rng.randint(0, 2),
                    "delay_us": rng.choice([0, 50, 300]), "rounds": 2})
    return out


def run_llm(ctx, table, findings, cases=None):
    binp = ctx.go_build("c15llm", race=True, test_pkg="./llm")
    if not binp:
        return
    cases = cases or llm_cases(ctx)
    cpath, opath = os.path.join(ctx.tmp, "llmcases.jsonl"), os.path.join(ctx.tmp, "llmout.jsonl")
    open(cpath, "w").write("".join(json.dumps(c) + "\n" for c in cases))
    env = vlib.goenv()
    env.update({"C15_CASES": cpath, "C15_OUT": opath, "GORACE": "log_path=%s halt_on_error=0" % os.path.join(ctx.tmp, "racellm")})
    t = time.time()
    try:
        p = subprocess.run([binp, "-test.run", "^TestVerifC15LLM$", "-test.timeout", "10m"], env=env, cwd=ctx.tmp, stdout=subprocess.PIPE, stderr=subprocess.PIPE,
                           text=True, errors="replace", timeout=900)
        err, rc = p.stderr + p.stdout, p.returncode
    except subprocess.TimeoutExpired as ex:
        err, rc = "timeout " + str(ex), 124
    ctx.extra["llm_dynamic_s"] = round(time.time() - t, 1)
    obs = []
    if os.path.exists(opath):
        for line in open(opath):
            try:
                obs.append(json.loads(line))
            except Exception:  # noqa
                pass
    if len(obs) < len(cases):
        fatal = re.search(r"(fatal error: [^\n]*|panic: [^\n]*)", err)
        where = re.findall(r"\n(github\.com/ollama/ollama/[^\s]+)\(", err)
        where = [w for w in where if "zz_verif" not in w and "c15LLM" not in w]
        sig = {"class": "crash", "what": re.sub(r"0x[0-9a-f]+", "", fatal.group(1)) if fatal else "process ended early rc=%s" % rc, "fn": go_fn(where[0]) if where else ""}
        ctx.violation(sig, "concurrent calls on one llmServer crashed the process: %s" % sig["what"], {"case": cases[min(len(obs), len(cases) - 1)], "stderr_tail": err[-4000:]})
    ctx.obligation("llmServer race harness answered every case (%d/%d)" % (len(obs), len(cases)), len(obs) == len(cases), err[-2000:])
    absorb_races(ctx, table, findings, os.path.join(ctx.tmp, "racellm.*"))
    for c, o in zip(cases, obs):
        ctx.note_case({"id": o["id"], "calls": o["calls"], "nbad": o["nbad"], "inflight": o["max_in_flight"]}, o["max_in_flight"] >= 2, "llm-server-shared",
                      sample={"case": c, "calls": o["calls"], "max_streams_in_flight": o["max_in_flight"]})
        if o["nbad"]:
            kind = "foreign-chunks" if any("not its own" in b for b in o["bad"]) else "call-failed"
            ctx.violation({"class": "stream-integrity", "kind": kind},
                          "concurrent requests on one runner did not each get their own result (%d of %d calls): %s" % (o["nbad"], o["calls"], o["bad"][0]),
                          {"case": c, "failures": o["bad"], "how_to_replay": "python3 check.py C15 (llm-level cases are regenerated from the seed)"})


def run_dynamic(ctx, table, findings, cases=None, repeat=1):
    binp = ctx.go_build("c15", race=True, test_pkg="./server")
    if not binp:
        return
    cases = cases if cases is not None else gen_cases(ctx)
    cpath, opath = os.path.join(ctx.tmp, "c15cases.jsonl"), os.path.join(ctx.tmp, "c15out.jsonl")
    open(cpath, "w").write("".join(json.dumps(c) + "\n" for c in cases for _ in range(repeat)))
    env = vlib.goenv()
    env.update({"C15_CASES": cpath, "C15_OUT": opath, "GORACE": "log_path=%s halt_on_error=0" % os.path.join(ctx.tmp, "race"), "OLLAMA_DEBUG": "0"})
    t = time.time()
    try:
        p = subprocess.run([binp, "-test.run", "^TestVerifC15$", "-test.timeout", "20m"], env=env, cwd=ctx.tmp, stdout=subprocess.PIPE, stderr=subprocess.PIPE,
                           text=True, errors="replace", timeout=1500)
        err, rc = p.stderr + p.stdout, p.returncode
    except subprocess.TimeoutExpired as ex:
        err, rc = "timeout " + str(ex), 124
    ctx.extra["dynamic_s"] = round(time.time() - t, 1)
    obs = []
    if os.path.exists(opath):
        for line in open(opath):
            try:
                obs.append(json.loads(line))
            except Exception:  # noqa
                pass
    expected = len(cases) * repeat
    err = "\n".join(l for l in err.split("\n") if not l.startswith("time=") and "[GIN]" not in l)
    if len(obs) < expected:
        # the process died (e.g. `fatal error: concurrent map iteration and map write` cannot be recovered)
        fatal = re.search(r"(fatal error: [^\n]*|panic: [^\n]*)", err)
        where = re.findall(r"\n(github\.com/ollama/ollama/server\.[^\s]+)\(", err)
        sig = {"class": "crash", "what": re.sub(r"0x[0-9a-f]+", "", fatal.group(1)) if fatal else "process ended early rc=%s" % rc,
               "fn": go_fn(where[0]) if where else ""}
        ctx.violation(sig, "the server process crashed while serving concurrent requests: %s" % sig["what"],
                      {"case": cases[min(len(obs) // repeat, len(cases) - 1)], "stderr_tail": err[-4000:], "cases_completed": len(obs)})
    ctx.obligation("race-detector harness answered every case (%d/%d)" % (len(obs), expected), len(obs) == expected, err[-2000:])
    absorb_races(ctx, table, findings, os.path.join(ctx.tmp, "race.*"))
    stalls = 0
    names = {}
    for ci, o in enumerate(obs):
        c = cases[min(ci // repeat, len(cases) - 1)]
        codes = {}
        for r in o.get("resps") or []:
            codes[r["code"]] = codes.get(r["code"], 0) + 1
        nontrivial = len(o.get("lives") or []) >= 2 and len(o.get("resps") or []) > 10
        ctx.note_case({"id": o.get("id"), "n": ci, "codes": sorted(codes.items()), "lives": len(o.get("lives") or [])}, nontrivial, c.get("klass"),
                      sample={"case": {k: v for k, v in c.items() if k != "workers"}, "codes": codes, "runners_started": len(o.get("lives") or [])})
        for code, n_ in codes.items():
            ctx.count("http-%s" % code, n_)
        for r in o.get("resps") or []:
            if r["code"] >= 500 and len(ctx.extra.setdefault("http_5xx_samples", [])) < 8:
                ctx.extra["http_5xx_samples"].append({"case": o.get("id"), "path": r["path"], "code": r["code"], "body": (r.get("err") or "")[:200]})
        if o.get("setup"):
            ctx.log("case", o.get("id"), "setup:", o["setup"])
        if o.get("skipped"):
            stalls += 1
        if c.get("baseline"):
            ref = {r["key"]: r["digest"] for r in o.get("resps") or [] if r.get("w") == -1}
            ctx.count("answers-compared-with-sequential", sum(1 for r in o.get("resps") or [] if r.get("w", 0) >= 0 and r.get("key") in ref))
            for r in o.get("resps") or []:
                if r.get("w", 0) >= 0 and r.get("key") in ref and r.get("digest") != ref[r["key"]] and "context" not in (r.get("digest") or ""):
                    ctx.violation({"class": "answer-differs-from-sequential", "path": r["path"]},
                                  "under concurrent load a request got an answer about its model that it does not get on its own: %s -> %r, sequentially %r" % (
                                      r["key"][:160], r["digest"][:200], ref[r["key"]][:200]),
                                  {"case": {k: v for k, v in c.items() if k != "workers"}, "request": r["key"], "concurrent": r["digest"], "sequential": ref[r["key"]]})
                    break
        bad = [r for r in o.get("resps") or [] if (r.get("integrity") or "").startswith("mismatch")]
        if c.get("real_llm"):
            ctx.count("streams-checked", sum(1 for r in o.get("resps") or [] if r.get("integrity")))
        if bad:
            ctx.violation({"class": "stream-integrity", "kind": "foreign-chunks"},
                          "concurrent /api/generate requests served by one runner did not each get their own stream: %s" % bad[0]["integrity"],
                          {"case": c, "responses": bad[:5]})
        # recovered panics (gin Recovery answers 500 and logs the panic)
        rec = o.get("recovery") or ""
        if "panic recovered" in rec or "[Recovery]" in rec:
            m = re.search(r"panic recovered:\s*\n?([^\n]*(?:\n[^\n]*)?)", rec)
            where = re.findall(r"/server/(\w+\.go):\d+ \(0x[0-9a-f]+\)\n\s+([^\n:]*)", rec)
            what = re.sub(r"0x[0-9a-f]+|\x1b\[[0-9;]*m", "", (m.group(1) if m else rec[:200])).strip()
            what = [l for l in what.split("\n") if "runtime error" in l or "panic" in l.lower()] or [what.split("\n")[-1]]
            fn = where[0][1].strip() if where else ""
            ctx.violation({"class": "panic", "what": what[0][:120], "fn": fn.split(":")[0][:60]},
                          "a request made the server panic (recovered by gin, HTTP 500): %s in %s" % (what[0], fn),
                          {"case": c, "recovery_log": rec[:4000], "responses_5xx": [r for r in o["resps"] if r["code"] >= 500][:5]})
        # torn view: /api/ps names a model none of whose runners is alive at any moment of the request
        blobs = o.get("blobs") or []
        lives = o.get("lives") or []
        for r in o.get("resps") or []:
            for nm in r.get("models") or []:
                base = nm.split(":")[0]
                if not re.match(r"^m\d+$", base) or int(base[1:]) >= len(blobs):
                    continue
                mine = [l for l in lives if l["model"] == blobs[int(base[1:])]]
                alive = [l for l in mine if l["created"] <= r["t1"] and (l["closed"] == 0 or l["closed"] >= r["t0"])]
                if mine and not alive:
                    ctx.violation({"class": "torn-view"}, "/api/ps listed %s although every runner of that model had already been closed" % nm,
                                  {"case": c, "response": r, "runner_lifetimes_ns": mine})
                names[nm] = names.get(nm, 0) + 1
    ctx.extra["cases_with_stall"] = stalls
    ctx.extra["ps_models_listed"] = sum(names.values())


# ------------------------------------------------------------------ the check

def report(ctx, findings):
    benign = set(benign_waivers())
    for (fn, loc), f in sorted(findings.items()):
        if (fn, loc) in benign and not f["races"]:
            ctx.count("finding:benign-justified")
            ctx.extra.setdefault("benign_seen", []).append("%s x %s" % (fn, loc))
            continue
        confirmed = bool(f["races"])
        static = bool(f["pairs"])
        what = "%s accesses %s without the mutex that guards it (%s)%s%s" % (
            fn, loc, f["guard"] or "none of the other accesses holds a common mutex",
            "; lockset obligation fails for %d access pair(s)" % len(f["pairs"]) if static else "; not flagged statically",
            "; CONFIRMED by the race detector on the running server" if confirmed else "; race detector silent in this run")
        ctx.violation({"class": CLASS, "loc": loc, "fn": fn}, what,
                      {"function": fn, "location": loc, "guard": f["guard"], "offending_pairs": f["pairs"][:12], "race_reports": f["races"],
                       "how_to_replay": "python3 check.py C15  (static part is deterministic; dynamic part: rerun, races are schedule dependent)"})
        ctx.count("finding:" + ("static+dynamic" if static and confirmed else "static" if static else "dynamic"))


def run(ctx, cases=None, repeat=1):
    ctx.rule = ("static: every read/write site of a shared location of package server (fields of mutex-carrying structs, package-level maps/assigned variables) "
                "extracted from the current source, all pairs checked in Coq; dynamic: request mixes (generate/chat/embed/ps/unload/tags/show/copy/delete/create/blobs) "
                "against the real router+scheduler with mock runners under -race; a case is non-trivial when >= 2 runners were started and > 10 requests answered; "
                "distinct by case id, status-code histogram and number of runners")
    ctx.trusted = ["Coq 8.16.1 kernel + vm_compute", "the translator harness/cmd/lockx (go/ast + go/types must-hold analysis) - its table is assumed to over-approximate the accesses and under-approximate the held locks",
                   "Go memory model as happens-before (program order, unlock->lock, go statement)", "Go race detector and the mock runners (dynamic part)", "props/c15.py"]
    ctx.assumptions = ["conforms: every executed access comes from a site of the table with the table's lockset held (translator soundness)",
                       "safe_init: accesses to a freshly allocated object before its publication happen-before all accesses by other goroutines (publication through a lock/channel)",
                       "one Scheduler per process; Scheduler.Run is called once (checked: exactly one call site) so processPending/processCompleted are single goroutines",
                       "standard-library callees do not publish their arguments to other goroutines",
                       "the goroutine for which sync.Map.LoadOrStore returns loaded=false is the only owner of the stored object until it hands it on with `go x.M()`; a channel field that is never sent to is only ever closed by that owner",
                       "corpus/C15/benign.json: pairs ordered by a go statement / channel round trip / reference count that the table cannot express (written justification each; scheduleRunner x llama by theorem C15_refcount_read_ordered under C01's invariant)",
                       "locations outside the tracked set (structs without any sync/atomic/channel field, e.g. Model, Layer, registryOptions) are covered only by the race-detector runs; atomics and sync.Map are synchronised by construction"]
    ctx.proof_stage(["Race"], "Race/Properties_C15.v", extra_targets=["Race/PsView.v", "Race/Lockset.v", "Race/Tight.v"])
    findings = {}
    table = run_lockx(ctx, findings)
    table_llm = run_lockx(ctx, findings, PKGS[1])
    if table and table_llm:  # one vocabulary for the classification of race reports
        table = dict(table, entries=table["entries"] + table_llm["entries"])
    if cases is None:
        run_llm(ctx, table, findings)
    run_dynamic(ctx, table, findings, cases, repeat)
    new = [k for k in findings if k not in set(benign_waivers()) and not vlib.match_known(ctx.known, {"class": CLASS, "loc": k[1], "fn": k[0]})]
    if cases is None and ([m for m in ctx.mismatches if "overlay/llm" not in m["obligation"]] or [k for k in new if not findings[k]["races"]]) and not [v for v in ctx.violations if v["sig"].get("class") in ("panic", "crash", "torn-view")]:
        ctx.log("static side found something new: searching dynamically for a concrete schedule")
        run_dynamic(ctx, table, findings, hunt_cases(ctx, 6 if ctx.quick() else 30, [k[1] for k in new]), 1)
    report(ctx, findings)
    if not ctx.quick():
        ctx.coqchk(["V.Race.Properties_C15"])


def replay(ctx, path):
    r = json.load(open(path))
    ctx.log("replaying", path)
    rp = r.get("replay") or {}
    case = rp.get("case") if isinstance(rp, dict) else None
    if case:
        run(ctx, cases=[case], repeat=5)  # races are schedule dependent: the recorded request mix is run five times
    else:
        run(ctx)


MANIFEST = {
    "property_id": "C15",
    "quick_cmd": "python3 check.py C15 --tier quick",
    "thorough_cmd": "python3 check.py C15 --tier thorough",
    "evidence_file": "evidence/C15.json",
    "replay_cmd_template": "python3 check.py C15 --replay {path}",
    "engine": "coq-lockset-theorem+translator+race-detector",
    "level_claimed": {
        "category": "proof",
        "text": "Coq theorem (proved once, all interleavings): in any well-formed trace of goroutines doing lock/unlock/fork-with-lock-hand-off/read/write, if every pair of "
                "conflicting accesses from goroutines that can run concurrently holds a common mutex (real, or the ownership token of a sync.Map entry handed on by `go`) or is "
                "separated by a close()/receive signal of the accessed object, then every such pair is ordered by happens-before (no data race); converse (tightness) and a "
                "reference-count ordering theorem (hypothesis: C01's refcount invariant) also proved. "
                "The access table (site, goroutine classes, must-hold lockset) is regenerated from server/*.go by a go/ast+go/types translator on every run and the executable "
                "lockset check is re-evaluated on it inside Coq (vm_compute); the theorem is re-instantiated with the regenerated table. /api/ps torn view: invariant over all "
                "publish/teardown sequences of the loaded map. Partial by nature: the translator and the safe-publication hypothesis are trusted, recorded findings are excluded by "
                "a decidable guard (_full/_refuted/_partial), untracked structures are covered by race-detector runs only.",
        "design_ref": "DESIGN.md section 5, C15; section 4 (X)",
    },
    "level_note": "Trusted: Coq kernel/vm_compute; translator lockx (must-hold analysis) ; Go memory model as HB; race detector for the dynamic part. Schedules found dynamically are not exhaustive.",
    "technique": "Coq proof (lockset => happens-before, invariant scanned along the trace) + source-to-table translator re-run on every check + race-detector stress of the real handlers",
}
