"""C03 - a successful pull leaves exactly the published, digest-verified model.

Tie (S): the real `POST /api/pull` handler (server.GenerateRoutes) runs in child processes on a temp OLLAMA_MODELS
against an in-process fake registry (127.0.0.1:p) + fake CDN (localhost:p2) that follow a fault script; the harness
reports every response it served and a snapshot of the store after every step.  The Coq model (Pull/Download.v:
Prepare / run / downloadChunk / downloadBlob / PullModel / makeRequestWithRetry / redirect policy) is run by
vm_compute on the responses that were actually served, from the observed store before the step, and must predict
the observed store after it, the result, and the requests (HEAD, GET, byte ranges of every retry).
Tie (P): getValue / parseRegistryChallenge on exhaustive short and random long headers.
Monitor: the property itself on the observations (layers present with manifest size and SHA-256, stored manifest =
served, every name sound after every step, clean retries succeed, process alive).
"""
import hashlib
import itertools
import json
import os
import re
import urllib.parse

from lib import vlib
from lib.vlib import cq_bytes, cq_list, cq_bool, cq_Z, cq_N

SETUP_BUILDS = [{"name": "c03"}]
COQ_TARGETS = ["Pull/Properties_C03.v", "Pull/Corr.v"]
HEADER = ("From Coq Require Import List NArith ZArith Bool.\n"
          "From V Require Import Common.Bytes Pull.Challenge Pull.Download Pull.Corr.\n"
          "Import ListNotations.\nOpen Scope Z_scope.\n")
FX = True   # the model describes the tree after fixes/C03-verify-before-rename.patch and fixes/C03-getvalue-bounds.patch

DIGEST_RE = re.compile(r"^sha256[:-][0-9a-fA-F]{64}$")
CANON_RE = re.compile(r"^sha256:[0-9a-f]{64}$")


def hx(b):
    return b.hex()


def sha(b):
    return hashlib.sha256(b).hexdigest()


# ------------------------------------------------------------------ pure cases (challenge parser)

def gen_pure(ctx):
    rng = ctx.rng
    cases = []

    def gv(h, k, klass):
        cases.append({"op": "getvalue", "header": hx(h), "key": hx(k), "klass": klass})

    cases.append({"op": "consts", "klass": "consts"})
    # corpus
    gv(b"realm=", b"realm", "gv-corpus")
    gv(b'realm="x', b"realm", "gv-corpus")
    # exhaustive: every header up to length L over {r = " , x} with key r
    L = 5 if ctx.quick() else 7
    for n in range(0, L + 1):
        for t in itertools.product(b'r=",x', repeat=n):
            gv(bytes(t), b"r", "gv-exhaustive")
    keys = [b"realm", b"service", b"scope"]
    words = [b"realm", b"service", b"scope", b"=", b'"', b",", b" ", b"Bearer ", b"https://r.example/token", b"repository:ns/m:pull", b"x", b'="', b'",']
    n = 300 if ctx.quick() else 6000
    for _ in range(n):
        h = b"".join(rng.choice(words) for _ in range(rng.randint(0, 9)))
        if rng.random() < 0.3:
            h = h + rng.choice(keys) + b"="
        if rng.random() < 0.2:
            h = h + rng.choice(keys) + b'="'
        gv(h, rng.choice(keys), "gv-random")
        cases.append({"op": "challenge", "auth": hx(h), "klass": "challenge-random"})
    for realm, svc, scope in [(b"https://r/t", b"s", b"repository:a/b:pull"), (b"", b"", b""), (b'a"b', b"x,y", b"p q")]:
        h = b'Bearer realm="%s",service="%s",scope="%s"' % (realm, svc, scope)
        cases.append({"op": "challenge", "auth": hx(h), "klass": "challenge-wellformed"})
        for cut in range(len(h) - 12, len(h) + 1):
            cases.append({"op": "challenge", "auth": hx(h[:cut]), "klass": "challenge-truncated"})
    return cases


def monitor_pure(ctx, c, o):
    if "panic" in o and c["op"] != "consts":
        what = "getValue" if c["op"] == "getvalue" else "parseRegistryChallenge"
        inp = bytes.fromhex(c.get("header") or c.get("auth"))
        ctx.violation({"class": "crash", "where": "server.getValue"},
                      "%s panics on the header %r: %s (in the pull goroutine this kills the server)" % (what, inp, o["panic"]),
                      {"case": c, "impl": o})


def render_pure(c, o):
    def bl(h):
        return cq_bytes(bytes.fromhex(h))
    if "panic" in o:
        return "false"
    if c["op"] == "consts":
        return "chk_consts %s %s %s %d%%nat" % (cq_Z(o["num"]), cq_Z(o["min"]), cq_Z(o["max"]), o["retries"])
    if c["op"] == "getvalue":
        return "chk_getvalue %s %s %s" % (bl(c["header"]), bl(c["key"]), bl(o["v"]))
    return "chk_challenge %s %s %s %s" % (bl(c["auth"]), bl(o["realm"]), bl(o["service"]), bl(o["scope"]))


# ------------------------------------------------------------------ histories

GOOD_AUTH = 'Bearer realm="$REG/token",service="svc",scope="repository:ns/m:pull"'


def rnd_blob(rng, lo=1, hi=40):
    return bytes(rng.randrange(256) for _ in range(rng.randint(lo, hi)))


def pull_step(name, layers, config=None, script=None, **kw):
    m = {"layers": [dict(l) for l in layers]}
    if config is not None:
        m["config"] = dict(config)
    st = {"t": "pull", "name": name, "manifest": m, "script": script or {}}
    st.update(kw)
    return st


def clean_tail(steps, n=None):
    """the retry clause: clean attempts for the last pulled name/manifest at the end of the history"""
    last = [s for s in steps if s["t"] == "pull" and "raw" not in s["manifest"]]
    if not last:
        return steps
    last = last[-1]
    nl = len(last["manifest"]["layers"]) + (1 if last["manifest"].get("config") else 0)
    out = list(steps)
    for _ in range(n if n is not None else 1):
        out.append({"t": "pull", "name": last["name"], "manifest": json.loads(json.dumps(last["manifest"])), "script": {}, "clean": True})
    return out


def chunk_fault(rng, blob_len, kinds=None):
    k = rng.choice(kinds or ["flip", "cut-unexp", "cut-clean", "reset", "full", "status500", "long", "cdn2", "nohdr", "short-cl"])
    cut = rng.randrange(0, max(1, blob_len))
    if k == "flip":
        return {"flip": rng.randrange(0, max(1, blob_len))}, k
    if k == "cut-unexp":
        return {"cut": cut, "end": "unexp", "cl": blob_len}, k
    if k == "cut-clean":
        return {"cut": cut}, k
    if k == "reset":
        return {"cut": cut, "end": "reset", "cl": blob_len}, k
    if k == "full":
        return {"mode": "full"}, k
    if k == "status500":
        return {"status": 500, "raw": hx(b"internal error")}, k
    if k == "long":
        return {"raw": hx(rnd_blob(rng, blob_len + 1, blob_len + 9))}, k
    if k == "cdn2":
        return {"to": "cdn2"}, k
    if k == "nohdr":
        return {"nohdr": True}, k
    if k == "short-cl":
        return {"cl": cut}, k
    raise ValueError(k)


def req_fault(rng, kinds=None):
    """faults of a request that goes through makeRequestWithRetry"""
    k = rng.choice(kinds or ["500", "503", "404", "401-good", "401-good-401", "401-tokfail", "401-weird", "nohdr", "400"])
    if k in ("500", "503", "400"):
        return [{"status": int(k), "raw": hx(b"oops")}], k
    if k == "404":
        return [{"status": 404}], k
    if k == "401-good":
        return [{"status": 401, "hdr": {"Www-Authenticate": GOOD_AUTH}}], k
    if k == "401-good-401":
        return [{"status": 401, "hdr": {"Www-Authenticate": GOOD_AUTH}}, {"status": 401, "hdr": {"Www-Authenticate": GOOD_AUTH}}], k
    if k == "401-tokfail":
        return [{"status": 401, "hdr": {"Www-Authenticate": GOOD_AUTH}, "_tok": {"status": 403, "raw": hx(b"denied")}}], k
    if k == "401-weird":
        h = rng.choice(['Bearer realm="$REG/token"', 'realm="$REG/token",service="a b",scope="x y z"', 'Basic realm="x"', "", 'Bearer realm="$REG/token",service="s"x",scope="',
                        'Bearer service="svc",realm="$REG/token"', 'Bearer realm="', 'Bearer realm="$REG/token",scope="repository:ns/m:pull",service="svc"'])
        return [{"status": 401, "hdr": {"Www-Authenticate": h}}], k
    if k == "nohdr":
        return [{"nohdr": True}], k
    raise ValueError(k)


def add_req_fault(script, key, specs):
    for s in specs:
        s = dict(s)
        tok = s.pop("_tok", None)
        script.setdefault(key, []).append(s)
        if tok:
            script.setdefault("token", []).append(tok)


BAD_HEADERS = ["realm=", "Bearer realm=", 'Bearer realm="x",service=', "scope=", 'Bearer realm="$REG/token",scope=', "xrealm=", "service=", "realm=\""]


def gen_hist(ctx):
    rng = ctx.rng
    H = []

    def add(klass, blobs, steps, tail=1, cost=None, **kw):
        steps = clean_tail(steps, tail) if tail else steps
        c = {"op": "hist", "klass": klass, "blobs": [hx(b) for b in blobs], "steps": steps}
        c["cost"] = cost if cost is not None else sum(2 + len(s.get("script", {})) for s in steps if s["t"] in ("pull", "par"))
        c.update(kw)
        H.append(c)

    q = ctx.quick()
    rep = 2 if q else 6

    # --- corpus first: minimal histories that once violated the property (corpus/C03/*.json)
    cdir = os.path.join(vlib.VERIF, "corpus", "C03")
    for fn in sorted(os.listdir(cdir)) if os.path.isdir(cdir) else []:
        if fn.endswith(".json"):
            H.append(json.load(open(os.path.join(cdir, fn))))

    for _ in range(rep):
        # --- A: clean pulls, re-pulls, replaced manifests (prune), two names sharing layers
        b = [rnd_blob(rng) for _ in range(4)]
        add("clean", b, [pull_step("ns/m:t", [{"blob": 0}, {"blob": 1}], {"blob": 2})], tail=1)
        add("clean-empty-blob", [b"", b[0]], [pull_step("ns/m:t", [{"blob": 0}, {"blob": 1}])], tail=1)
        add("replace-prune", b, [pull_step("ns/m:t", [{"blob": 0}, {"blob": 1}], {"blob": 2}),
                                 pull_step("ns/m:t", [{"blob": 1}, {"blob": 3}], {"blob": 2})], tail=0)
        add("two-names-shared", b, [pull_step("ns/m:t", [{"blob": 0}, {"blob": 1}], {"blob": 2}),
                                    pull_step("ns/other:t", [{"blob": 1}, {"blob": 3}]),
                                    pull_step("ns/m:t", [{"blob": 3}], {"blob": 2})], tail=0)
        add("replace-fails-midway", b, [pull_step("ns/m:t", [{"blob": 0}, {"blob": 1}], {"blob": 2}),
                                        pull_step("ns/m:t", [{"blob": 3}, {"blob": 1}], None, {"head:3": [{"status": 500}]})], tail=1)
        add("no-layers", b[:1], [pull_step("ns/m:t", [], None)], tail=0)

        # --- B: manifest request faults and malformed manifests
        for k in ["500", "404", "401-good", "401-good-401", "401-tokfail", "401-weird", "nohdr"]:
            sc = {}
            f, kk = req_fault(rng, [k])
            add_req_fault(sc, "manifest", f)
            add("manifest-" + kk, b[:2], [pull_step("ns/m:t", [{"blob": 0}], {"blob": 1}, sc)], tail=1)
        for raw in [b"", b"{", b"null", b"[]", b'"x"', b"{}", b'{"layers":null}', b'{"layers":[{"digest":"","size":1}]}', b'{"layers":[{"digest":"sha256:zz","size":1}]}',
                    b'{"layers":[{"digest":"../../etc/passwd"}]}', b'{"layers":[{"digest":"sha256:' + b"0" * 64 + b'","size":"1"}]}', b'{"layers":[{"digest":5}]}',
                    b'{"config":{"digest":"sha256:' + b"a" * 63 + b'"},"layers":[]}', b"<html>502</html>", b'{"layers":[{}]}', b'{"schemaVersion":2,"layers":[],"extra":{"a":[1,2]}} trailing']:
            H.append({"op": "hist", "klass": "manifest-malformed", "blobs": [hx(b[0])], "cost": 1,
                      "steps": [{"t": "pull", "name": "ns/m:t", "manifest": {"raw": hx(raw)}, "script": {}}]})

        # --- J: 401 with headers of the family on which the unguarded getValue indexes past the end
        for h in (BAD_HEADERS if not q else rng.sample(BAD_HEADERS, 4)):
            key = rng.choice(["manifest", "head:0", "get:0"])
            add("auth-header-" + key.split(":")[0], b[:1], [pull_step("ns/m:t", [{"blob": 0}], None, {key: [{"status": 401, "hdr": {"Www-Authenticate": h}}]})], tail=0)

        # --- N: a registry that wants a bearer token on every request (challenge -> signed token request -> replay);
        #        tokens stop being accepted when the script rotates them (between attempts, or in the middle of one)
        L2 = [{"blob": 0}, {"blob": 1}]

        def cleanstep(rotate):
            return {"t": "pull", "name": "ns/m:t", "manifest": {"layers": json.loads(json.dumps(L2))}, "script": {}, "clean": True, "rotate": rotate}
        add("auth-clean", b[:2], [pull_step("ns/m:t", L2, {"blob": 2})] if False else [pull_step("ns/m:t", L2)], tail=1, auth=True)
        for where, sc in [("head", {"head:1": [{"status": 500, "raw": hx(b"oops")}]}), ("get", {"get:1": [{"status": 302}]}), ("head-first-layer", {"head:0": [{"status": 503}]}),
                          ("corrupt-layer", {"cdn:1:%d" % (len(b[1]) - 1): [{"flip": 0}]}), ("truncated-manifest", {"manifest": [{"cut": 20}]})]:
            add("auth-fail-after-token-then-rotate-" + where, b[:2], [pull_step("ns/m:t", L2, None, sc), cleanstep(True), cleanstep(True)], tail=0, auth=True)
        add("auth-fail-then-same-tokens", b[:2], [pull_step("ns/m:t", L2, None, {"head:1": [{"status": 500}]}), cleanstep(False)], tail=0, auth=True)
        for key in ["manifest", "head:0", "get:0", "head:1", "get:1"]:
            add("auth-token-expires-after-" + key.split(":")[0], b[:2], [pull_step("ns/m:t", L2, None, {key: [{"rotate_after": True}]}), cleanstep(False)], tail=0, auth=True)
        add("auth-token-stale-when-issued", b[:2], [pull_step("ns/m:t", L2, None, {"token": [{"stale": True}]}), cleanstep(False)], tail=0, auth=True)
        for kind, tsp in [("500", {"status": 500, "raw": hx(b"down")}), ("403-empty", {"status": 403, "raw": ""}), ("bad-json", {"raw": hx(b"<html>")}), ("no-token-field", {"raw": hx(b"{}")}),
                          ("null", {"raw": hx(b"null")}), ("garbage", {"nohdr": True}), ("truncated", {"cut": 5, "end": "unexp", "cl": 30})]:
            add("auth-token-endpoint-" + kind, b[:2], [pull_step("ns/m:t", L2, None, {"token": [tsp]}), cleanstep(True)], tail=0, auth=True)
        add("auth-no-key", b[:2], [pull_step("ns/m:t", L2)], tail=0, auth=True, nokey=True)
        add("auth-resume-planted", b[:2], [{"t": "plant", "blob": 0, "data": hx(b[0][:1] + bytes(len(b[0]) - 1)), "parts": [{"N": 0, "Offset": 0, "Size": len(b[0]), "Completed": 1}]},
                                           pull_step("ns/m:t", L2)], tail=1, auth=True)

        # --- C: HEAD faults
        for k in ["500", "404", "401-good", "401-tokfail", "nohdr"]:
            sc = {}
            f, kk = req_fault(rng, [k])
            add_req_fault(sc, "head:1", f)
            add("head-" + kk, b[:2], [pull_step("ns/m:t", [{"blob": 0}, {"blob": 1}], None, sc)], tail=1)
        n0 = len(b[0])
        add("head-cl-smaller", b[:2], [pull_step("ns/m:t", [{"blob": 0}, {"blob": 1}], None, {"head:0": [{"cl": rng.randrange(0, n0)}]})], tail=1)
        # a Content-Length larger than the blob is persisted in the part record (known finding: poisons every retry);
        # the clean retry costs 63 s of back-off sleeps on the implementation: thorough tier only
        add("head-cl-larger", b[:1], [pull_step("ns/m:t", [{"blob": 0}], None, {"head:0": [{"cl": n0 + rng.randint(1, 9)}], "get:0": [{"status": 302}]})], tail=0 if q else 1, cost=80, timeout=200)
        add("head-cl-zero", b[:1], [pull_step("ns/m:t", [{"blob": 0}], None, {"head:0": [{"cl": 0}]})], tail=1)

        # --- D: faults while resolving the direct URL
        for k in ["500", "404", "401-good", "nohdr", "503"]:
            sc = {}
            for _i in range(rng.randint(1, 3)):
                f, kk = req_fault(rng, [k])
                add_req_fault(sc, "get:0", f)
            add("get-transient-" + k, b[:2], [pull_step("ns/m:t", [{"blob": 0}, {"blob": 1}], None, sc)], tail=1)
        add("get-same-host-redirect", b[:1], [pull_step("ns/m:t", [{"blob": 0}], None, {"get:0": [{"to": "same"}]})], tail=0)
        add("get-same-host-then-500", b[:1], [pull_step("ns/m:t", [{"blob": 0}], None, {"get:0": [{"to": "same"}], "alt:0": [{"status": 500}]})], tail=1)
        add("get-direct-200", b[:1], [pull_step("ns/m:t", [{"blob": 0}], None, {"get:0": [{"to": "direct"}]})], tail=1)
        add("get-cross-302", b[:1], [pull_step("ns/m:t", [{"blob": 0}], None, {"get:0": [{"status": 302}]})], tail=1)
        add("get-cross-308", b[:1], [pull_step("ns/m:t", [{"blob": 0}], None, {"get:0": [{"status": 308}]})], tail=1)
        add("get-200-with-location", b[:1], [pull_step("ns/m:t", [{"blob": 0}], None, {"get:0": [{"status": 200}]})], tail=0)
        add("get-307-no-location", b[:1], [pull_step("ns/m:t", [{"blob": 0}], None, {"get:0": [{"status": 307, "to": "direct", "raw": ""}]})], tail=1)
        add("get-too-many-redirects", b[:1], [pull_step("ns/m:t", [{"blob": 0}], None, {"get:0": [{"to": "same"}], "alt:0": [{"to": "same"} for _ in range(11)]})], tail=0)
        add("get-ten-redirects", b[:1], [pull_step("ns/m:t", [{"blob": 0}], None, {"get:0": [{"to": "same"}], "alt:0": [{"to": "same"} for _ in range(9)]})], tail=0)
        add("no-key-401", b[:1], [pull_step("ns/m:t", [{"blob": 0}], None, {rng.choice(["manifest", "head:0", "get:0"]): [{"status": 401, "hdr": {"Www-Authenticate": GOOD_AUTH}}]})], tail=1, nokey=True)
        add("get-204", b[:1], [pull_step("ns/m:t", [{"blob": 0}], None, {"get:0": [{"status": 204, "to": "direct", "raw": ""}]})], tail=1)

        # --- E: faults of the ranged GETs (at most two failing tries per part: the back-off sleeps are 1 s, 2 s, ...)
        for k in ["flip", "cut-unexp", "cut-clean", "reset", "full", "status500", "long", "cdn2", "nohdr", "short-cl"]:
            n0 = len(b[0])
            f, kk = chunk_fault(rng, n0, [k])
            add("chunk-" + kk, b[:2], [pull_step("ns/m:t", [{"blob": 0}, {"blob": 1}], None, {"cdn:0:%d" % (n0 - 1): [f]})], tail=2)
        for _i in range(2 if q else 4):
            n0 = len(b[0])
            f1, k1 = chunk_fault(rng, n0, ["cut-unexp", "cut-clean", "reset", "nohdr", "short-cl"])
            f2, k2 = chunk_fault(rng, n0)
            add("chunk-two-faults", b[:2], [pull_step("ns/m:t", [{"blob": 0}, {"blob": 1}], None, {"cdn:0:%d" % (n0 - 1): [f1, f2]})], tail=2, cost=9)
        # corrupt layer then a later layer fails; then clean (the cache-hit shortcut)
        for k2 in ["head", "get", "manifest-next"]:
            n0 = len(b[0])
            sc = {"cdn:0:%d" % (n0 - 1): [{"flip": rng.randrange(n0)}]}
            if k2 == "head":
                sc["head:1"] = [{"status": 503}]
            elif k2 == "get":
                sc["get:1"] = [{"status": 302}]
            add("corrupt-then-later-layer-fails", b[:3], [pull_step("ns/m:t", [{"blob": 0}, {"blob": 1}] if k2 != "manifest-next" else [{"blob": 0}, {"digest": "sha256:zz"}], {"blob": 2}, sc),
                                                          pull_step("ns/m:t", [{"blob": 0}, {"blob": 1}], {"blob": 2})], tail=1)
        add("duplicate-digest-corrupt", b[:2], [pull_step("ns/m:t", [{"blob": 0}, {"blob": 1}, {"blob": 0}], None, {"cdn:0:%d" % (len(b[0]) - 1): [{"mode": "full", "flip": 0}]})], tail=1)
        add("config-equals-layer-corrupt", b[:2], [pull_step("ns/m:t", [{"blob": 0}], {"blob": 0}, {"cdn:0:%d" % (len(b[0]) - 1): [{"flip": 1}]})], tail=1)

        # --- F: resume state left by an interrupted attempt (planted part records + -partial file): this is how
        #        layouts of several parts are reached with small blobs (minDownloadPartSize is a 100 MB constant)
        for _i in range(3 if q else 8):
            blob = rnd_blob(rng, 8, 48)
            nparts = rng.randint(1, 4)
            cuts = sorted(rng.sample(range(1, len(blob)), nparts - 1)) if nparts > 1 else []
            offs = [0] + cuts
            ends = cuts + [len(blob)]
            data = bytearray(len(blob))
            parts = []
            corrupt = rng.random() < 0.3
            for i, (o, e) in enumerate(zip(offs, ends)):
                done = rng.choice([0, e - o, rng.randint(0, e - o)])
                data[o:o + done] = blob[o:o + done]
                parts.append({"N": i, "Offset": o, "Size": e - o, "Completed": done})
            if corrupt:
                cand = [p for p in parts if p["Completed"] > 0]
                if cand:
                    p = rng.choice(cand)
                    data[p["Offset"] + rng.randrange(p["Completed"])] ^= 0x40
            sc = {}
            if rng.random() < 0.6:
                p = rng.choice(parts)
                if p["Completed"] < p["Size"]:
                    f, _k = chunk_fault(rng, p["Size"] - p["Completed"], ["cut-unexp", "cut-clean", "full", "flip", "nohdr"])
                    sc["cdn:0:%d" % (p["Offset"] + p["Size"] - 1)] = [f]
            plant = {"t": "plant", "blob": 0, "parts": parts}
            if rng.random() < 0.85:
                plant["data"] = hx(bytes(data))
            add("resume-planted" + ("-corrupt" if corrupt else ""), [blob, b[1]], [plant, pull_step("ns/m:t", [{"blob": 0}, {"blob": 1}], None, sc)], tail=2, cost=8)

        # resume state that no interrupted attempt can have written: a gap between parts, progress beyond the part size
        blob = rnd_blob(rng, 12, 30)
        h = len(blob) // 2
        add("resume-planted-gap", [blob], [{"t": "plant", "blob": 0, "data": hx(blob), "parts": [{"N": 0, "Offset": 0, "Size": h - 2, "Completed": h - 2}, {"N": 1, "Offset": h, "Size": len(blob) - h, "Completed": 0}]},
                                           pull_step("ns/m:t", [{"blob": 0}])], tail=2)
        add("resume-planted-overdone", [blob], [{"t": "plant", "blob": 0, "data": hx(blob), "parts": [{"N": 0, "Offset": 0, "Size": h, "Completed": h + 3}, {"N": 1, "Offset": h, "Size": len(blob) - h, "Completed": 1}]},
                                                pull_step("ns/m:t", [{"blob": 0}])], tail=2)
        add("resume-planted-all-done", [blob], [{"t": "plant", "blob": 0, "data": hx(blob), "parts": [{"N": 0, "Offset": 0, "Size": len(blob), "Completed": len(blob)}]},
                                                pull_step("ns/m:t", [{"blob": 0}])], tail=1)

        # what a crash can leave (Prepare resumes only if every record is readable and they add up to the -partial file)
        q3 = len(blob) // 3
        three = [{"N": 0, "Offset": 0, "Size": q3, "Completed": q3}, {"N": 1, "Offset": q3, "Size": q3, "Completed": rng.randint(0, q3)}, {"N": 2, "Offset": 2 * q3, "Size": len(blob) - 2 * q3, "Completed": 0}]
        half = bytearray(len(blob))
        half[:q3] = blob[:q3]
        half[q3:q3 + three[1]["Completed"]] = blob[q3:q3 + three[1]["Completed"]]
        add("resume-crash-record-missing", [blob], [{"t": "plant", "blob": 0, "data": hx(bytes(half)), "parts": [three[0], three[2]]}, pull_step("ns/m:t", [{"blob": 0}])], tail=1)
        add("resume-crash-first-record-missing", [blob], [{"t": "plant", "blob": 0, "data": hx(bytes(half)), "parts": three[1:]}, pull_step("ns/m:t", [{"blob": 0}])], tail=1)
        add("resume-crash-record-empty", [blob], [{"t": "plant", "blob": 0, "data": hx(bytes(half)), "parts": [three[0], {"N": 1, "raw": ""}, three[2]]}, pull_step("ns/m:t", [{"blob": 0}])], tail=1)
        add("resume-crash-record-cut-off", [blob], [{"t": "plant", "blob": 0, "data": hx(bytes(half)), "parts": [three[0], three[1], {"N": 2, "raw": hx(b'{"N":2,"Offs')}]}, pull_step("ns/m:t", [{"blob": 0}])], tail=1)
        add("resume-crash-partial-file-missing", [blob], [{"t": "plant", "blob": 0, "parts": three}, pull_step("ns/m:t", [{"blob": 0}])], tail=1)
        add("resume-crash-partial-file-shorter", [blob], [{"t": "plant", "blob": 0, "data": hx(bytes(half[:q3])), "parts": three}, pull_step("ns/m:t", [{"blob": 0}])], tail=1)
        add("resume-crash-partial-file-longer", [blob], [{"t": "plant", "blob": 0, "data": hx(bytes(half) + b"xx"), "parts": three}, pull_step("ns/m:t", [{"blob": 0}])], tail=1)
        add("resume-crash-partial-file-only", [blob], [{"t": "plant", "blob": 0, "data": hx(bytes(half))}, pull_step("ns/m:t", [{"blob": 0}])], tail=1)
        add("resume-crash-discard-then-head-fails", [blob], [{"t": "plant", "blob": 0, "data": hx(bytes(half) + b"x"), "parts": three}, pull_step("ns/m:t", [{"blob": 0}], None, {"head:0": [{"status": 500}]})], tail=1)
        add("resume-consistent-three-parts", [blob], [{"t": "plant", "blob": 0, "data": hx(bytes(half)), "parts": three}, pull_step("ns/m:t", [{"blob": 0}])], tail=1)

        # an installed model is updated: the tag is republished with one new layer and a stale (wrong but positive) size for
        # the unchanged, cached layer, while that blob's requests fail; the cached blob must survive a failed attempt
        n0 = len(b[0])
        for kind, sc, cancel in [("head-503", {"head:0": [{"status": 503}]}, None), ("head-garbage", {"head:0": [{"nohdr": True}]}, None),
                                 ("get-302", {"get:0": [{"status": 302}]}, None), ("cdn-reset-then-cancel", {"cdn:0:%d" % (n0 - 1): [{"cut": 0, "end": "reset", "cl": n0}]}, {"key": "cdn:0:%d" % (n0 - 1), "n": 2}),
                                 ("cancel-at-head", {}, {"key": "head:0", "n": 1})]:
            for shared in (False, True):
                stale = rng.choice([n0 + rng.randint(1, 9), max(1, n0 - rng.randint(1, n0))]) if n0 > 1 else n0 + 1
                if stale == n0:
                    stale = n0 + 1
                upd = pull_step("ns/m:t", [{"blob": 0, "size": stale}, {"blob": 2}], None, dict(sc))
                if cancel:
                    upd["cancel"] = dict(cancel)
                steps = [pull_step("ns/m:t", [{"blob": 0}, {"blob": 1}])] + ([pull_step("ns/other:t", [{"blob": 0}, {"blob": 3}])] if shared else []) + \
                        [upd, {"t": "pull", "name": "ns/m:t", "manifest": {"layers": [{"blob": 0}, {"blob": 2}]}, "script": {}, "clean": True}]
                add("update-stale-size-refetch-fails-" + kind + ("-shared" if shared else ""), b[:4], steps, tail=0)

        # --- I: a manifest that lies about a layer's size
        add("manifest-size-lie", b[:2], [pull_step("ns/m:t", [{"blob": 0, "size": len(b[0]) + 1}, {"blob": 1}])], tail=0)
        # --- non-canonical digest spellings (monitor only)
        d0 = "sha256:" + sha(b[0])
        add("digest-dash", b[:1], [pull_step("ns/m:t", [{"digest": d0.replace(":", "-"), "size": len(b[0])}])], tail=0, nomodel=True)
        add("digest-upper", b[:1], [pull_step("ns/m:t", [{"digest": "sha256:" + sha(b[0]).upper(), "size": len(b[0])}])], tail=0, nomodel=True)

        # --- K: server restart (PruneLayers) between attempts: resume state is gone, referenced blobs stay
        n0 = len(b[0])
        add("restart-after-poisoned-record", b[:1], [pull_step("ns/m:t", [{"blob": 0}], None, {"head:0": [{"cl": n0 + 3}], "get:0": [{"status": 302}]}), {"t": "prune"},
                                                     {"t": "pull", "name": "ns/m:t", "manifest": {"layers": [{"blob": 0}]}, "script": {}, "clean": True}], tail=0)
        add("restart-keeps-models", b[:3], [pull_step("ns/m:t", [{"blob": 0}], {"blob": 1}), pull_step("ns/n:t", [{"blob": 2}, {"blob": 0}], None, {"get:2": [{"status": 302}]}), {"t": "prune"},
                                            {"t": "pull", "name": "ns/n:t", "manifest": {"layers": [{"blob": 2}, {"blob": 0}]}, "script": {}, "clean": True}], tail=0)
        # --- L: pulls at the same time (shared layers go through one blobDownload); monitor only
        n1 = len(b[1])
        slow = {"cdn:1:%d" % (n1 - 1): [{"cut": rng.randrange(0, n1), "end": "unexp", "cl": n1}]}
        add("concurrent-shared-layer", b[:3], [{"t": "par", "script": dict(slow), "pulls": [{"name": "ns/m:t", "manifest": {"layers": [{"blob": 1}, {"blob": 0}]}},
                                                                                              {"name": "ns/n:t", "manifest": {"layers": [{"blob": 1}, {"blob": 2}]}}]}], tail=0)
        add("concurrent-same-name", b[:2], [{"t": "par", "script": dict(slow), "pulls": [{"name": "ns/m:t", "manifest": {"layers": [{"blob": 1}, {"blob": 0}]}},
                                                                                           {"name": "ns/m:t", "manifest": {"layers": [{"blob": 1}, {"blob": 0}]}}]}], tail=0)
        add("concurrent-shared-layer-corrupt", b[:3], [{"t": "par", "script": {"cdn:1:%d" % (n1 - 1): [{"flip": rng.randrange(n1)}]},
                                                        "pulls": [{"name": "ns/m:t", "manifest": {"layers": [{"blob": 1}, {"blob": 0}]}}, {"name": "ns/n:t", "manifest": {"layers": [{"blob": 1}, {"blob": 2}]}}]},
                                                       {"t": "pull", "name": "ns/m:t", "manifest": {"layers": [{"blob": 1}, {"blob": 0}]}, "script": {}, "clean": True},
                                                       {"t": "pull", "name": "ns/n:t", "manifest": {"layers": [{"blob": 1}, {"blob": 2}]}, "script": {}, "clean": True}], tail=0)

        # --- M: a second pull JOINS the in-flight download of a shared layer (the CDN holds that layer's body until the
        #        second pull's manifest GET has been seen + a grace period), then the body arrives corrupt / truncated / clean
        hold = {"key": "manifest", "n": 2, "extra_ms": 350}
        n1 = len(b[1])
        k1 = "cdn:1:%d" % (n1 - 1)
        two = [{"name": "ns/m:t", "manifest": {"layers": [{"blob": 1}, {"blob": 0}]}}, {"name": "ns/n:t", "manifest": {"layers": [{"blob": 1}, {"blob": 2}]}}]
        tails = [{"t": "pull", "name": p["name"], "manifest": json.loads(json.dumps(p["manifest"])), "script": {}, "clean": True} for p in two]
        for kind, f in [("corrupt", {"flip": rng.randrange(n1)}), ("truncated", {"cut": rng.randrange(0, n1), "end": "unexp", "cl": n1}), ("clean", {}),
                        ("range-ignored-long", {"raw": hx(rnd_blob(rng, n1 + 1, n1 + 5))}), ("short-clean", {"cut": rng.randrange(0, n1)})]:
            add("join-inflight-" + kind, b[:3], [{"t": "par", "script": {k1: [dict(f, wait=hold)]}, "pulls": json.loads(json.dumps(two))}] + json.loads(json.dumps(tails)), tail=0, cost=9)
        # previous intact model under the joiner's name, corrupt shared layer of the new one
        add("join-inflight-corrupt-replaces", b[:4], [pull_step("ns/n:t", [{"blob": 3}]),
                                                       {"t": "par", "script": {k1: [{"flip": rng.randrange(n1), "wait": hold}]}, "pulls": json.loads(json.dumps(two))}] + json.loads(json.dumps(tails)), tail=0, cost=9)
        # the joiner reaches the shared layer after a layer of its own
        n2 = len(b[2])
        add("join-inflight-late-corrupt", b[:3], [{"t": "par", "script": {k1: [{"flip": rng.randrange(n1), "wait": {"key": "cdn:2:%d" % (n2 - 1), "n": 1, "extra_ms": 1500}}]},
                                                   "pulls": [two[0], {"name": "ns/n:t", "manifest": {"layers": [{"blob": 2}, {"blob": 1}]}}]}] + json.loads(json.dumps(tails)), tail=0, cost=10)
        # mirror: the joined download fails before any byte (direct URL cannot be resolved), resume state stays
        add("join-inflight-direct-url-fails", b[:3], [{"t": "par", "script": {"get:1": [{"status": 302, "wait": hold}]}, "pulls": json.loads(json.dumps(two))}] + json.loads(json.dumps(tails)), tail=0, cost=9)
        # the joined download's Prepare fails (HEAD held until the second pull has joined, then 500): the error reaches both
        add("join-inflight-prepare-fails", b[:3], [{"t": "par", "script": {"head:1": [{"status": 500, "raw": hx(b"oops"), "wait": hold}]}, "pulls": json.loads(json.dumps(two))}] + json.loads(json.dumps(tails)), tail=0, cost=9)
        # the starter's part request fails with a non-resumable error, the part goroutine sleeps in its back-off (1 s, not
        # cancellable), the starter's client goes away 100 ms later (release cancels the run context, the entry stays in
        # blobDownloadManager until the sleep ends); a second pull of the layer arrives inside that window and joins the
        # cancelled transfer (or, last variant, arrives after it and resumes)
        for kind, f, extra, other in [("garbage", {"nohdr": True}, 400, True), ("500-short", {"status": 500, "raw": hx(b"err")}, 500, False),
                                      ("short-clean", {"cut": 0}, 600, True), ("reset", {"cut": 0, "end": "reset", "cl": n1}, 700, False), ("late", {"nohdr": True}, 1800, True)]:
            pulls = [{"name": "ns/m:t", "manifest": {"layers": [{"blob": 1}, {"blob": 0}]}},
                     {"name": "ns/n:t" if other else "ns/m:t", "manifest": {"layers": [{"blob": 1}, {"blob": 2}]} if other else {"layers": [{"blob": 1}, {"blob": 0}]},
                      "after": {"key": k1, "n": 1, "extra_ms": extra}}]
            tl = [{"t": "pull", "name": p["name"], "manifest": json.loads(json.dumps(p["manifest"])), "script": {}, "clean": True} for p in pulls]
            add("join-during-backoff-" + kind, b[:3], [{"t": "par", "split": True, "script": {k1: [dict(f, cancel_after_ms=250, cancel_pull=0)]}, "pulls": pulls}] + tl, tail=0, cost=10)
        # one of the two clients goes away while both wait for the held layer (monitor only)
        for who in (0, 1):
            add("join-inflight-%s-cancelled" % ("starter", "joiner")[who], b[:3], [{"t": "par", "script": {k1: [{"wait": hold, "flip": rng.randrange(n1)} if rng.random() < 0.5 else {"wait": hold}]},
                                                                                     "cancel": {"pull": who, "key": k1, "n": 1}, "pulls": json.loads(json.dumps(two))}] + json.loads(json.dumps(tails)), tail=0, cost=9)

        # --- H: the client goes away in the middle of the pull
        for key in ["head:0", "get:0", "cdn:0:%d" % (len(b[0]) - 1), "head:1", "cdn:1:%d" % (len(b[1]) - 1)]:
            st = pull_step("ns/m:t", [{"blob": 0}, {"blob": 1}], None, {})
            st["cancel"] = {"key": key, "n": 1}
            add("cancel-at-" + key.split(":")[0], b[:2], [st], tail=2)
        # progress persisted by an interrupted transfer, then the client goes away at the retry
        n0 = len(b[0])
        st = pull_step("ns/m:t", [{"blob": 0}, {"blob": 1}], None, {"cdn:0:%d" % (n0 - 1): [{"cut": rng.randrange(1, n0) if n0 > 1 else 0, "end": "unexp", "cl": n0}]})
        st["cancel"] = {"key": "cdn:0:%d" % (n0 - 1), "n": 2}
        add("progress-then-cancel", b[:2], [st], tail=2)

    # --- G: random multi-attempt histories
    n = 30 if q else 150
    for _ in range(n):
        nb = rng.randint(1, 3)
        blobs = [rnd_blob(rng, 1, 32) for _ in range(nb)]
        steps = []
        for _a in range(rng.randint(1, 3)):
            layers = [{"blob": i} for i in rng.sample(range(nb), rng.randint(1, nb))]
            sc = {}
            for _f in range(rng.randint(0, 2)):
                i = rng.choice(layers)["blob"]
                kind = rng.choice(["head", "get", "cdn", "cdn", "manifest"])
                if kind == "cdn":
                    key = "cdn:%d:%d" % (i, len(blobs[i]) - 1)
                    if key not in sc:
                        sc[key] = [chunk_fault(rng, len(blobs[i]))[0]]
                elif kind == "manifest":
                    add_req_fault(sc, "manifest", req_fault(rng)[0])
                else:
                    add_req_fault(sc, "%s:%d" % (kind, i), req_fault(rng, ["500", "404", "401-good", "nohdr", "401-weird"] if kind == "head" else ["500", "401-good", "nohdr"])[0])
            steps.append(pull_step(rng.choice(["ns/m:t", "ns/m:t", "ns/n:u"]), layers, None, sc))
        add("random-history", blobs, steps, tail=2, cost=12)
    return H


def gen_client2(ctx, hist):
    """the other /api/pull endpoint (registry.Local.handlePull in front of the legacy handler under OLLAMA_EXPERIMENT=client2,
    ollama.Registry.Pull inside a back-off loop that retries retryable failures without bound): the same pull histories
    (those made of plain pull steps), streaming and stream=false, plus k consecutive 5xx / resets with and without recovery.
    Monitor only: the model of that client is C08/C09's."""
    rng = ctx.rng
    q = ctx.quick()
    out = []

    def conv(c, stream):
        steps = []
        for st in c["steps"]:
            if st["t"] != "pull" or st.get("cancel") or st.get("rotate"):
                return None
            st = json.loads(json.dumps(st))
            # this client asks for whole blobs (no Range header): the CDN key has no last byte
            st["script"] = {(":".join(k.split(":")[:2] + ["none"]) if k.startswith("cdn:") else k): v for k, v in st.get("script", {}).items()}
            st["timeout_ms"] = 6000
            if stream is False:
                st["stream"] = False
            steps.append(st)
        return dict(c, steps=steps, client2=True, klass="client2-" + c["klass"], cost=c.get("cost", 4) + 6, timeout=200)
    skip = ("layout", "head-cl-larger", "auth-", "resume-", "corpus-oversize")
    pool = [c for c in hist if c["op"] == "hist" and not c.get("auth") and not c.get("nokey") and not c.get("big") and not any(c["klass"].startswith(p) for p in skip)]
    seen = set()
    for c in pool:
        if q and c["klass"] in seen:
            continue
        seen.add(c["klass"])
        cc = conv(c, False if rng.random() < 0.35 else None)
        if cc:
            out.append(cc)
    # deterministic part, in every run: k consecutive retryable failures with k in {4,5,6,8} (the back-off of the handler is
    # n^2 * 10 ms * (0.5..1.5): eight iterations take at most about 3 s), streaming, with a client deadline long enough for
    # a handler that gives up by itself to say so; the terminal status line of the stream is the verdict
    A0, A1 = b"client2 layer zero", b"client2 layer one, new in v2"
    for k in (4, 5, 6, 8):
        for where in ("manifest", "get:1"):
            for recover in (True, False):
                n = k if recover else 80
                upd = pull_step("ns/m:t", [{"blob": 0}, {"blob": 1}], None, {where: [{"status": 503, "raw": hx(b"unavailable")} for _ in range(n)]})
                upd["timeout_ms"] = 9000 if recover else 5500
                steps = [pull_step("ns/m:t", [{"blob": 0}], None), upd,
                         {"t": "pull", "name": "ns/m:t", "manifest": {"layers": [{"blob": 0}, {"blob": 1}]}, "script": {}, "clean": True, "timeout_ms": 9000}]
                out.append({"op": "hist", "klass": "client2-corpus-%d-consecutive-%s-%s" % (k, where.split(":")[0], "recovers-late" if recover else "never-recovers"), "client2": True,
                            "blobs": [hx(A0), hx(A1)], "steps": steps, "cost": 40, "timeout": 200})
    # a layer fetched by this client is removed by an OLD handler (legacy pull that prunes the replaced layer, legacy delete);
    # this client's per-chunk records (blobs named by the digest of "v1 pull chunksum ...") stay behind; then client2 pulls
    # of the original model, k retries, a restart (PruneLayers), one more attempt
    R0, R1, R2 = b"records layer zero", b"records layer one (gets removed)", b"records layer two"
    orig = {"layers": [{"blob": 0}, {"blob": 1}]}

    def c2pull(clean=False, **kw):
        st = {"t": "pull", "name": "ns/m:t", "manifest": json.loads(json.dumps(orig)), "script": {}, "timeout_ms": 4000}
        if clean:
            st["clean"] = True
        st.update(kw)
        return st
    for kind, removal in [("legacy-pull-prunes", [dict(pull_step("ns/m:t", [{"blob": 0}, {"blob": 2}]), endpoint="legacy")]),
                          ("legacy-delete", [{"t": "delete", "name": "ns/m:t"}])]:
        steps = [c2pull()] + removal + [c2pull(), c2pull(stream=False), c2pull(), {"t": "prune"}, c2pull(clean=True)]
        out.append({"op": "hist", "klass": "client2-layer-removed-by-old-handler-" + kind, "client2": True, "blobs": [hx(R0), hx(R1), hx(R2)], "steps": steps, "cost": 30, "timeout": 200})
        steps = [c2pull()] + removal + [c2pull(), c2pull(), c2pull(clean=True)]
        out.append({"op": "hist", "klass": "client2-layer-removed-by-old-handler-" + kind + "-no-restart", "client2": True, "blobs": [hx(R0), hx(R1), hx(R2)], "steps": steps, "cost": 30, "timeout": 200})
    # k consecutive retryable failures within one request, then recovery (the handler must end in success with the model
    # stored) or not (the client gives up: failure, the old model still resolves)
    b = [rnd_blob(rng) for _ in range(3)]
    v1 = pull_step("ns/m:t", [{"blob": 0}], None)
    for k in (range(1, 9) if not q else [1, 2, 3, 5, 8]):
        where = rng.choice(["manifest", "get:1", "cdn:1:none"])
        fault = rng.choice([{"status": 500, "raw": hx(b"oops")}, {"status": 503}, {"status": 502, "raw": hx(b"<html>bad gateway</html>")}]) if where != "cdn:1:none" or rng.random() < 0.5 else {"cut": 0, "end": "reset", "cl": len(b[1])}
        for recover in (True, False):
            for stream in (None, False):
                if q and rng.random() < 0.5:
                    continue
                n = k if recover else 60
                upd = pull_step("ns/m:t", [{"blob": 0}, {"blob": 1}], None, {where: [dict(fault) for _ in range(n)]})
                upd["timeout_ms"] = 9000 if recover else 2500
                if stream is False:
                    upd["stream"] = False
                steps = [json.loads(json.dumps(v1)), upd, {"t": "pull", "name": "ns/m:t", "manifest": {"layers": [{"blob": 0}, {"blob": 1}]}, "script": {}, "clean": True, "timeout_ms": 9000}]
                out.append({"op": "hist", "klass": "client2-%d-consecutive-%s-%s" % (k, where.split(":")[0], "recovers" if recover else "never-recovers"), "client2": True,
                            "blobs": [hx(x) for x in b], "steps": steps, "cost": 14, "timeout": 200})
    return out


def gen_layout(ctx):
    """Prepare's part arithmetic for real sizes: HEAD announces the size, the direct URL then fails at once, the part
    records stay behind.  No byte is transferred; the -partial file is sparse."""
    rng = ctx.rng
    MB = 1000 * 1000
    totals = [1, 99 * MB, 100 * MB, 100 * MB + 1, 200 * MB, 1599 * MB, 1600 * MB, 1600 * MB + 15, 1600 * MB + 16, 1601 * MB, 15999 * MB + 7, 16000 * MB, 16000 * MB + 16, 16016 * MB, 17000 * MB + 3, 40000 * MB + 12345]
    for _ in range(6 if ctx.quick() else 60):
        totals.append(rng.choice([rng.randrange(1, 300 * MB), rng.randrange(1500 * MB, 1700 * MB), rng.randrange(15900 * MB, 16100 * MB), rng.randrange(1, 50000 * MB)]))
    out = []
    for t in totals:
        out.append({"op": "hist", "klass": "layout", "blobs": [hx(b"x")], "big": True, "cost": 1, "layout_total": t,
                    "steps": [{"t": "pull", "name": "ns/m:t", "manifest": {"layers": [{"blob": 0}]}, "script": {"head:0": [{"cl": t}], "get:0": [{"status": 302}]}}]})
    return out


def gen_big(ctx):
    """thorough tier: blobs above minDownloadPartSize (several parts on the implementation), the stall timer, and a part
    that exhausts maxRetries.  Bodies are generated inside the harness; only digests and sizes travel."""
    rng = ctx.rng
    MB = 1000 * 1000
    out = []

    def add(klass, blobs, steps, cost, timeout=400, **kw):
        c = {"op": "hist", "klass": klass, "blobs": blobs, "steps": clean_tail(steps, 2), "cost": cost, "timeout": timeout}
        c.update(kw)
        out.append(c)
    n = 250 * MB + rng.randrange(1, 1000)
    big = {"gen": rng.randrange(1 << 30), "n": n}
    ends = [100 * MB - 1, 200 * MB - 1, n - 1]
    small = hx(b"small layer")
    L = [{"blob": 0}, {"blob": 1}]
    add("big-clean", [big, small], [pull_step("ns/m:t", L)], 100, big=True)
    add("big-part-interrupted", [big, small], [pull_step("ns/m:t", L, None, {"cdn:0:%d" % ends[1]: [{"cut": rng.randrange(1, 100 * MB), "end": "unexp", "cl": 100 * MB}]})], 100, big=True)
    add("big-part-range-ignored", [big, small], [pull_step("ns/m:t", L, None, {"cdn:0:%d" % ends[1]: [{"mode": "full"}]})], 100, big=True)
    add("big-part-flipped", [big, small], [pull_step("ns/m:t", L, None, {"cdn:0:%d" % ends[2]: [{"flip": rng.randrange(1, 50 * MB)}]})], 100, big=True)
    add("big-part-flipped-then-layer-fails", [big, small], [pull_step("ns/m:t", L, None, {"cdn:0:%d" % ends[0]: [{"flip": 7}], "head:1": [{"status": 500}]})], 100, big=True)
    st = pull_step("ns/m:t", L, None, {})
    st["cancel"] = {"key": "cdn:0:%d" % ends[1], "n": 1}
    add("big-cancel", [big, small], [st], 100, big=True)
    # small blobs, slow timers
    b0 = rnd_blob(rng, 10, 30)
    e0 = len(b0) - 1
    add("stall", [hx(b0), small], [pull_step("ns/m:t", L, None, {"cdn:0:%d" % e0: [{"cut": rng.randrange(1, len(b0)), "cl": len(b0), "stall": 34}]})], 90)
    add("max-retries", [hx(b0), small], [pull_step("ns/m:t", L, None, {"cdn:0:%d" % e0: [{"cut": rng.randrange(0, len(b0))} for _ in range(6)]})], 150)
    add("max-retries-with-progress", [hx(b0), small], [pull_step("ns/m:t", L, None, {"cdn:0:%d" % e0: [{"cut": 1, "end": "unexp", "cl": len(b0)}] + [{"nohdr": True} for _ in range(5)]})], 150)
    return out


# ------------------------------------------------------------------ observation -> Coq terms

class Ids:
    def __init__(self, digests):
        self.d = {}
        for i, d in enumerate(digests):
            self.d[d.split(":")[1]] = i + 1
        self.names = {}

    def digest(self, hexs):
        hexs = hexs.lower()
        if hexs not in self.d:
            self.d[hexs] = 100 + len(self.d)
        return self.d[hexs]

    def name(self, rel):
        if rel not in self.names:
            self.names[rel] = len(self.names) + 1
        return self.names[rel]


class Unrenderable(Exception):
    pass


def cq_layer(ids, l):
    d = l.get("digest", "")
    if not isinstance(d, str):
        raise Unrenderable("digest type")
    valid = bool(DIGEST_RE.match(d))
    if valid and not CANON_RE.match(d):
        raise Unrenderable("non-canonical digest spelling")
    did = ids.digest(d.split(":")[1]) if valid else 999
    sz = l.get("size", 0)
    if not isinstance(sz, int) or isinstance(sz, bool):
        raise Unrenderable("size type")
    return "(mkLayer %s %s %s)" % (cq_N(did), cq_Z(sz), cq_bool(valid))


def go_manifest(body):
    """what json.Decoder.Decode(&Manifest) makes of the body: dict with layers/config, or None when decoding fails.
    Only the shapes the generator produces are decided here; anything else raises Unrenderable."""
    try:
        dec = json.JSONDecoder()
        s = body.decode("utf-8")
        v, _end = dec.raw_decode(s.lstrip())
    except Exception:
        return None
    if v is None:
        v = {}
    if not isinstance(v, dict):
        return None
    layers = v.get("layers")
    cfg = v.get("config")
    if layers is None:
        layers = []
    if cfg is None:
        cfg = {}
    if not isinstance(layers, list) or not isinstance(cfg, dict):
        return None
    for l in layers + [cfg]:
        if not isinstance(l, dict):
            return None
        if "digest" in l and l["digest"] is not None and not isinstance(l["digest"], str):
            return None
        if "size" in l and l["size"] is not None and (not isinstance(l["size"], int) or isinstance(l["size"], bool)):
            return None
    def norm(l):
        # Go's Layer struct: absent/null fields are zero values; "from" is dropped when empty
        return {"mediaType": l.get("mediaType") or "", "digest": l.get("digest") or "", "size": l.get("size") or 0, "from": l.get("from") or ""}
    for l in layers + [cfg]:
        for k in ("mediaType", "from"):
            if l.get(k) is not None and not isinstance(l.get(k), str):
                return None
    sv, mt = v.get("schemaVersion"), v.get("mediaType")
    if (sv is not None and (not isinstance(sv, int) or isinstance(sv, bool))) or (mt is not None and not isinstance(mt, str)):
        return None
    return {"layers": [norm(l) for l in layers], "config": norm(cfg), "schemaVersion": sv or 0, "mediaType": mt or ""}


def cq_manifest(ids, m):
    ls = [cq_layer(ids, l) for l in m["layers"]]
    cfg = m.get("config") or {}
    c = "None" if not cfg.get("digest") else "(Some %s)" % cq_layer(ids, cfg)
    return "(mkManifest %s %s)" % (cq_list(ls, "layer"), c)


def cq_part(p):
    return "(mkPart %s %s %s)" % (cq_Z(p["Offset"]), cq_Z(p["Size"]), cq_Z(p["Completed"]))


def cq_store(ids, snap):
    blobs, files, recs = [], {}, {}
    for fn, e in sorted(snap["blobs"].items()):
        m = re.match(r"^sha256-([0-9a-f]{64})(-partial(-(\d+))?)?$", fn)
        if not m:
            raise Unrenderable("blob file name " + fn)
        did = ids.digest(m.group(1))
        if m.group(2) is None:
            if "data" not in e:
                raise Unrenderable("big blob")
            blobs.append("(%s, %s)" % (cq_N(did), cq_bytes(bytes.fromhex(e["data"]))))
        elif m.group(3) is None:
            if "data" not in e:
                raise Unrenderable("big partial")
            files[did] = bytes.fromhex(e["data"])
        else:
            if "rec" not in e:
                raise Unrenderable("unreadable part record")
            recs.setdefault(did, {})[int(m.group(4))] = e["rec"]
    dls = []
    for did in sorted(set(files) | set(recs)):
        r = recs.get(did, {})
        order = sorted(r)
        if order != list(range(len(r))) or any(r[i].get("N") != i for i in r):
            # records left by a crash between the record writes/removals: Prepare discards them unless they happen to add
            # up to the size of the -partial file (then run would index them by position: not modelled)
            if did in files and sum(r[i]["Size"] for i in order) == len(files[did]):
                raise Unrenderable("part numbering")
        f = "(Some %s)" % cq_bytes(files[did]) if did in files else "None"
        dls.append("(%s, mkDl %s %s)" % (cq_N(did), f, cq_list([cq_part(r[i]) for i in order], "part")))
    mans = []
    for rel, body in sorted(snap["manifests"].items()):
        m = go_manifest(body.encode())
        if m is None:
            raise Unrenderable("stored manifest does not decode")
        mans.append("(%s, %s)" % (cq_N(ids.name(rel)), cq_manifest(ids, m)))
    return "(mkStore %s %s %s)" % (cq_list(blobs, "(digest * bytes)"), cq_list(dls, "(digest * dl)"), cq_list(mans, "(N * manifest)"))


def token_ok(e):
    if e["status"] >= 400 or e["end"] != "clean":
        return False
    try:
        v = json.loads(bytes.fromhex(e["body"]).decode())
    except Exception:
        return False
    if v is None:
        return True
    return isinstance(v, dict) and (v.get("token") is None or isinstance(v.get("token"), str))


def token_of(e):
    """what getAuthorizationToken makes of the token service's answer: the token (bytes) or None for an error"""
    if not token_ok(e):
        return None
    v = json.loads(bytes.fromhex(e["body"]).decode())
    t = (v or {}).get("token") or ""
    return t.encode()


def cq_hresp(ids, e, served, reg_host):
    if e.get("cancelled"):
        return "(mkH true 0 (@nil N) (@nil N) None None 0 None)"
    tokreq = "None"
    nxt = [x for x in served if x["seq"] > e["seq"] and not x["k"].startswith("cdn")]
    if e["status"] == 401 and nxt and nxt[0]["k"] == "token":
        t = nxt[0]
        q = urllib.parse.parse_qs(t.get("query", ""), keep_blank_values=True)
        tk = token_of(t)
        tokreq = "(Some (mkTok %s %s %s))" % (cq_bytes((q.get("service") or [""])[0].encode()), cq_bytes(" ".join(q.get("scope") or []).encode()),
                                              "None" if tk is None else "(Some %s)" % cq_bytes(tk))
    a = e.get("auth", "")
    req_tok = a[len("Bearer "):].encode() if a.startswith("Bearer ") else b""
    redir = "None"
    if e.get("loc"):
        u = urllib.parse.urlparse(e["loc"])
        same = (u.hostname is None) or (u.hostname == reg_host.split(":")[0])
        redir = "(Some %s)" % cq_bool(same)
    man = "None"
    if e["k"] == "manifest" and e["end"] == "clean" and e["status"] < 400:
        m = go_manifest(bytes.fromhex(e["body"]))
        if m is not None:
            man = "(Some %s)" % cq_manifest(ids, m)
    return "(mkH %s %s %s %s %s %s %s %s)" % (cq_bool(e["end"] == "nohdr"), cq_Z(e["status"]), cq_bytes(bytes.fromhex(e.get("www_auth", ""))),
                                               cq_bytes(req_tok), tokreq, redir, cq_Z(e["body_n"] if e["method"] == "HEAD" else 0), man)


def cq_cresp(e):
    if e.get("cancelled"):
        return "(CCancel (@nil N))"
    if e["end"] == "nohdr":
        return "CFail"
    if e["end"] == "stall":
        return "(CStall %s)" % cq_bytes(bytes.fromhex(e["body"]))
    return "(CBody %s %s)" % (cq_bytes(bytes.fromhex(e["body"])), {"clean": "EClean", "unexp": "EUnexp", "reset": "EOther"}[e["end"]])


def final_chunks(served):
    """ranged GETs as http.DefaultClient sees them: a 302 to /blob2/ is followed, the answer of that hop counts"""
    out = []
    for e in served:
        if e["k"].startswith("cdn:") and e["status"] in (301, 302, 303, 307, 308) and e.get("loc"):
            continue
        if e["k"].startswith("cdn:") or e["k"].startswith("cdn2:"):
            out.append(e)
    return out


def render_pull(ids, digests, tab, pre, step_case, so, reg_host, haskey=True):
    served = [dict(e) for e in so["served"]]
    cs = step_case.get("cancel")
    if cs:
        # the client went away when the n-th request for this key arrived (the fake answers 150 ms later, to a
        # request that has been abandoned): in the model that request fails / is cancelled before any byte
        hit = [e for e in served if e["k"] == cs["key"]]
        if len(hit) >= cs["n"]:
            hit[cs["n"] - 1]["cancelled"] = True
    name_rel = "%s/%s" % (reg_host, step_case["name"].replace(":", "/"))
    plog, obs = build_plog(ids, served, [e for e in served if e["k"] == "manifest"], reg_host)
    ac = "(mkAuth %s %s)" % (cq_bytes(("http://%s/token" % reg_host).encode()), cq_bool(haskey))
    return "chk_pull %s %s %s %s %s %s %s %s %s" % (tab, cq_bool(FX), ac, cq_store(ids, pre), cq_N(ids.name(name_rel)), plog, cq_bool(so["success"]),
                                                    cq_store(ids, so["store"]), cq_list(obs, "obs_trace"))


def build_plog(ids, served, manifest_entries, reg_host):
    by = {}
    for e in served:
        by.setdefault(e["k"], []).append(e)
    mans = cq_list([cq_hresp(ids, e, served, reg_host) for e in manifest_entries], "hresp")
    blogs, obs = [], []
    idxs = sorted(set(int(k.split(":")[1]) for k in by if k.split(":")[0] in ("head", "get", "alt", "cdn", "cdn2")))
    chunks = final_chunks(served)
    for i in idxs:
        if i < 0:
            # requests for digests that are not published blobs: 404s; the model sees them as failing requests
            raise Unrenderable("request for an unknown digest")
        did = i + 1
        heads = [cq_hresp(ids, e, served, reg_host) for e in by.get("head:%d" % i, [])]
        gets = [cq_hresp(ids, e, served, reg_host) for e in served if e["k"] in ("get:%d" % i, "alt:%d" % i)]
        ch = {}
        for e in chunks:
            kk = e["k"].split(":")
            if int(kk[1]) != i:
                continue
            if e["range"] is None:
                raise Unrenderable("chunk request without Range")
            ch.setdefault(e["range"][1], []).append(e)
        chs = cq_list(["(%s, %s)" % (cq_Z(end), cq_list([cq_cresp(e) for e in l], "cresp")) for end, l in sorted(ch.items())], "(Z * list cresp)")
        blogs.append("(%s, mkBlog %s %s %s)" % (cq_N(did), cq_list(heads, "hresp"), cq_list(gets, "hresp"), chs))
        orq = cq_list(["(%s, %s)" % (cq_Z(end), cq_list(["(%s, %s)" % (cq_Z(e["range"][0]), cq_Z(e["range"][1])) for e in l], "(Z * Z)")) for end, l in sorted(ch.items())], "(Z * list (Z * Z))")
        obs.append("(%s, (%s, %s, %s))" % (cq_N(did), cq_bool(bool(heads)), cq_bool(bool(gets)), orq))
    return "(mkPlog %s %s)" % (mans, cq_list(blogs, "(digest * blog)")), obs


def render_par(ids, tab, pre, sc, so, reg_host):
    """two concurrent pulls: the i-th manifest GET belongs to the i-th pull (they are started 150 ms apart)"""
    served = so["served"]
    mes = [e for e in served if e["k"] == "manifest"]
    if len(sc["pulls"]) != 2 or len(mes) != 2:
        raise Unrenderable("concurrent step is not two pulls with one manifest request each")
    args = []
    for i, (p, r) in enumerate(zip(sc["pulls"], so["results"])):
        sv = served
        if sc.get("split"):
            # the first pull's client has gone away before the second pull starts: what was served before the second
            # pull's manifest GET belongs to the first attempt, the rest to the second
            sv = [e for e in served if (e["seq"] < mes[1]["seq"]) == (i == 0)]
        plog, _obs = build_plog(ids, sv, [mes[i]], reg_host)
        rel = "%s/%s" % (reg_host, p["name"].replace(":", "/"))
        args += [cq_N(ids.name(rel)), plog, cq_bool(r["success"])]
    return "chk_par %s %s %s %s %s" % (tab, cq_bool(FX), cq_store(ids, pre), " ".join(args), cq_store(ids, so["store"]))


EMPTY_SNAP = {"blobs": {}, "manifests": {}}


def render_hist(c, o):
    """-> list of (step index, Coq term or None, why-not)"""
    out = []
    if "steps" not in o:
        return out
    ids = Ids(o["digests"])
    tab = None
    if not c.get("big"):
        blobs = [bytes.fromhex(b) for b in c["blobs"]]
        tab = cq_list(["(%s, %s)" % (cq_bytes(b), cq_N(i + 1)) for i, b in enumerate(blobs)], "(bytes * digest)")
    pre = EMPTY_SNAP
    for si, (sc, so) in enumerate(zip(c["steps"], o["steps"])):
        if c.get("client2") and sc["t"] != "pull":
            out.append((si, None, "client2 endpoint: monitor only"))
        elif sc["t"] == "prune":
            try:
                out.append((si, "chk_prune %s %s" % (cq_store(ids, pre), cq_store(ids, so["store"])), None))
            except Unrenderable as ex:
                out.append((si, None, str(ex)))
        elif sc["t"] == "par":
            if sc.get("cancel") or sc.get("nomodel"):
                out.append((si, None, "concurrent pulls with a client going away: monitor only"))
            else:
                try:
                    out.append((si, render_par(ids, tab, pre, sc, so, o["reg"]), None))
                except Unrenderable as ex:
                    out.append((si, None, str(ex)))
        if sc["t"] == "pull":
            if c.get("layout_total") is not None:
                recs = sorted(((int(fn.rsplit("-", 1)[1]), e["rec"]) for fn, e in so["store"]["blobs"].items() if "-partial-" in fn))
                out.append((si, "chk_layout %s %s" % (cq_Z(c["layout_total"]), cq_list([cq_part(r) for _, r in recs], "part")), None))
            elif c.get("big"):
                # several parts on the implementation: the first request of every part of a blob that had no resume state
                # must be exactly Prepare's layout for the announced size
                had = set(fn.split("-partial")[0] for fn in pre["blobs"] if "-partial" in fn)
                for i, b in enumerate(c["blobs"]):
                    if sc.get("cancel"):
                        break
                    if "sha256-" + o["digests"][i].split(":")[1] in had or not any(e["k"] == "head:%d" % i for e in so["served"]):
                        continue
                    total = [e["body_n"] for e in so["served"] if e["k"] == "head:%d" % i][-1]
                    firsts = {}
                    for e in final_chunks(so["served"]):
                        if int(e["k"].split(":")[1]) == i and e["range"]:
                            firsts.setdefault(e["range"][1], e["range"][0])
                    if not firsts:
                        continue
                    parts = [{"Offset": a, "Size": z - a + 1, "Completed": 0} for z, a in sorted(firsts.items())]
                    out.append((si, "chk_layout %s %s" % (cq_Z(total), cq_list([cq_part(p) for p in parts], "part")), None))
                out.append((si, None, "big blobs: monitor + layout only"))
            elif c.get("nomodel") or c.get("client2"):
                out.append((si, None, "client2 endpoint: monitor only" if c.get("client2") else "monitor-only class"))
            else:
                try:
                    out.append((si, render_pull(ids, o["digests"], tab, pre, sc, so, o["reg"], haskey=not c.get("nokey")), None))
                except Unrenderable as ex:
                    out.append((si, None, str(ex)))
        pre = so["store"]
    return out


# ------------------------------------------------------------------ the monitor: the property on the observations

def served_manifest(so):
    ok = [e for e in so["served"] if e["k"] == "manifest" and e["status"] < 400 and e["end"] == "clean"]
    return bytes.fromhex(ok[-1]["body"]) if ok else None


def blob_file(d):
    return d.replace(":", "-")


def check_manifest_layers(store, m):
    """-> list of (kind, layer) problems for one stored/served manifest against the blobs directory"""
    bad = []
    layers = list(m.get("layers") or [])
    if (m.get("config") or {}).get("digest"):
        layers.append(m["config"])
    for l in layers:
        d = l.get("digest", "")
        e = store["blobs"].get(blob_file(d)) if isinstance(d, str) else None
        if e is None and isinstance(d, str) and DIGEST_RE.match(d):
            # the client2 cache names blobs by the parsed digest (lower-case hex)
            e = store["blobs"].get("sha256-" + d[7:].lower())
        if e is None:
            bad.append(("missing", l))
        elif e.get("sha256", "").lower() != d.split(":")[-1].split("-")[-1].lower():
            bad.append(("corrupt", l))
        elif e.get("size") != l.get("size", 0):
            bad.append(("size", l))
    return bad


class Sink:
    """collects what the monitor reports for one case (same interface as Ctx.violation / Ctx.mismatch)"""

    def __init__(self):
        self.violations, self.mismatches = [], []

    def violation(self, sig, what, replay):
        self.violations.append({"sig": sig, "what": what, "replay": replay})

    def mismatch(self, obligation, case, impl, model=None):
        self.mismatches.append((obligation, case, impl, model))


def sigkey(sig):
    return json.dumps(sig, sort_keys=True)


def shrink_candidates(c):
    """smaller histories: one step dropped, one scripted fault dropped, one layer dropped"""
    out = []
    steps = c["steps"]
    for i in range(len(steps)):
        if len(steps) > 1:
            out.append(dict(c, steps=steps[:i] + steps[i + 1:]))
    for i, st in enumerate(steps):
        if st["t"] != "pull":
            continue
        for k, l in st.get("script", {}).items():
            for j in range(len(l)):
                sc = {kk: (vv[:j] + vv[j + 1:] if kk == k else vv) for kk, vv in st["script"].items()}
                sc = {kk: vv for kk, vv in sc.items() if vv}
                out.append(dict(c, steps=steps[:i] + [dict(st, script=sc)] + steps[i + 1:]))
        if st.get("cancel"):
            out.append(dict(c, steps=steps[:i] + [{kk: vv for kk, vv in st.items() if kk != "cancel"}] + steps[i + 1:]))
    return out


def shrink(ctx, binp, env, c, sig, rounds=3):
    """greedy: re-run the smaller histories on the implementation, keep one that shows the same violation class"""
    want = sigkey(sig)
    best = None
    for _ in range(rounds):
        cands = shrink_candidates(best[0] if best else c)[:24]
        if not cands:
            break
        obs, _err = ctx.run_jsonl(binp, cands, timeout=600, env=env)
        if obs is None or len(obs) != len(cands):
            break
        found = None
        for cc, oo in sorted(zip(cands, obs), key=lambda x: len(json.dumps(x[0]))):
            sk = Sink()
            monitor_hist(sk, cc, oo)
            hit = [v for v in sk.violations if sigkey(v["sig"]) == want]
            if hit:
                found = (cc, oo, hit[0])
                break
        if not found:
            break
        best = found
    return best


def monitor_hist(ctx, c, o):
    replay = {"case": c, "impl": o}
    if o.get("crashed") or not o.get("alive"):
        st = o.get("stderr", "")
        m = re.search(r"github.com/ollama/ollama/([\w./]+)\.([\w.()*]+)\(", st)
        where = (m.group(1).split("/")[-1] + "." + m.group(2)) if m else ("timeout" if o.get("timeout") else "unknown")
        nsteps = len((o.get("partial") or {}).get("steps", []))
        if o.get("timeout") and "panic" not in st:
            ctx.violation({"class": "hang", "klass": c["klass"]}, "the pull did not finish within the time limit (step %d of class %s)" % (nsteps, c["klass"]), replay)
        else:
            pm = re.search(r"panic: ([^\n]*)", st)
            ctx.violation({"class": "crash", "where": where},
                          "the server process died during a pull (step %d of a %s history): %s in %s" % (nsteps, c["klass"], pm.group(1) if pm else "?", where), replay)
        return
    if "harness_error" in o:
        ctx.mismatch("harness c03 could not run the case: " + o["harness_error"], c, o)
        return
    prev_store = EMPTY_SNAP
    for si, (sc, so) in enumerate(zip(c["steps"], o["steps"])):
        store = so["store"]
        if sc["t"] == "pull":
            rel = "%s/%s" % (o["reg"], sc["name"].replace(":", "/"))
            downloaded = set(int(e["k"].split(":")[1]) for e in so["served"] if e["k"].startswith("cdn"))
            if so["success"]:
                body = served_manifest(so)
                m = go_manifest(body) if body is not None else None
                if m is None:
                    ctx.violation({"class": "success-without-manifest"}, "pull reported success but no decodable manifest was served", replay)
                else:
                    for kind, l in check_manifest_layers(store, m):
                        d = l.get("digest", "")
                        if kind == "size":
                            ctx.violation({"class": "size-mismatch-after-success"},
                                          "pull reported success; layer %s is stored with its SHA-256 but its size differs from the manifest's size %s (the pull never looks at layer sizes)" % (d[:19], l.get("size")),
                                          dict(replay, step=si, layer=l))
                            continue
                        bi = [i for i, dd in enumerate(o["digests"]) if dd == d]
                        ndup = sum(1 for x in (m["layers"] + [m["config"]]) if x.get("digest") == d)
                        via = "cache-hit" if (bi and bi[0] not in downloaded) else ("duplicate-digest" if ndup > 1 else "fresh")
                        ctx.violation({"class": "%s-layer-after-success" % kind, "via": via},
                                      "pull reported success but layer %s is %s in the store (%s): a blob under its digest name is trusted without being hashed" % (d[:19], kind, via),
                                      dict(replay, step=si, layer=l))
                    stored = store["manifests"].get(rel)
                    sm = go_manifest(stored.encode()) if stored is not None else None
                    if sm is None or sm != m:
                        ctx.violation({"class": "stored-manifest-differs"}, "pull reported success but the stored manifest is not the served one", dict(replay, step=si))
            else:
                if store["manifests"].get(rel) != prev_store["manifests"].get(rel):
                    ctx.violation({"class": "manifest-changed-by-failed-pull"}, "a failed pull changed what the name resolves to", dict(replay, step=si))
            over = oversized_record(c, o, store)
            if over and not so["success"] and not any(s2.get("clean") for s2 in c["steps"][si + 1:]):
                ctx.violation({"class": "retry-impossible", "cause": "part-record-larger-than-blob"},
                              "a failed attempt left the part record %s for a blob of %d bytes: later attempts resume from it without a new HEAD, request bytes "
                              "past the end and fail after maxRetries (proved for the tied model: C03_retry_refuted / poisoned_for_ever; %s)" % (
                                  over[0], over[1], "the clean retry of this history failed on the implementation too: %s" % so.get("error") if sc.get("clean") else
                                  "the 63 s retry on the implementation itself is run by the thorough tier"),
                              dict(replay, step=si))
            elif sc.get("clean") and si == len(c["steps"]) - 1 and not so["success"]:
                old = c.get("client2") and any(s2.get("endpoint") == "legacy" or s2["t"] == "delete" for s2 in c["steps"][:si])
                ctx.violation({"class": "retry-impossible", "cause": "layer-removed-by-old-handler" if old else "other"},
                              "after the failed attempts of this history, clean attempts against a fault-free registry keep failing: %s%s" % (
                                  so.get("error"), " (client2 pull after an old handler removed a layer this client had fetched: its per-chunk records outlive the blob, "
                                  "every chunk counts as fetched, an empty scratch file fails the digest check; only a pruning restart clears the records)" if old else ""),
                              dict(replay, step=si))
        if sc["t"] == "par":
            succ_names = set(p["name"] for p, r in zip(sc["pulls"], so["results"]) if r["success"])
            for p, r in zip(sc["pulls"], so["results"]):
                rel = "%s/%s" % (o["reg"], p["name"].replace(":", "/"))
                if not r["success"]:
                    if p["name"] not in succ_names and store["manifests"].get(rel) != prev_store["manifests"].get(rel):
                        ctx.violation({"class": "manifest-changed-by-failed-pull", "via": "concurrent"}, "a failed concurrent pull of %s changed what the name resolves to" % p["name"], dict(replay, step=si))
                    continue
                m = go_manifest(so["manifests_served"][p["name"].replace(":", "/")].encode())
                for kind, l in check_manifest_layers(store, m):
                    if kind != "size":
                        ctx.violation({"class": "%s-layer-after-success" % kind, "via": "concurrent"},
                                      "concurrent pull of %s reported success but layer %s is %s" % (p["name"], l.get("digest", "")[:19], kind), dict(replay, step=si))
                stored = store["manifests"].get(rel)
                if stored is None or go_manifest(stored.encode()) != m:
                    ctx.violation({"class": "stored-manifest-differs"}, "concurrent pull reported success but the stored manifest is not the served one", dict(replay, step=si))
        if sc["t"] == "prune" and so.get("error"):
            ctx.violation({"class": "prune-failed"}, "PruneLayers failed: %s" % so["error"], dict(replay, step=si))
        # every name must resolve to intact layers after every step
        for rel2, body in store["manifests"].items():
            sm = go_manifest(body.encode())
            if sm is None:
                ctx.violation({"class": "stored-manifest-undecodable"}, "manifest file %s does not decode" % rel2, dict(replay, step=si))
                continue
            probs = [(k, l) for k, l in check_manifest_layers(store, sm) if k != "size"]
            if probs and not (sc["t"] == "pull" and so.get("success") and rel2 == "%s/%s" % (o["reg"], sc["name"].replace(":", "/"))):
                ctx.violation({"class": "name-resolves-to-%s-layer" % probs[0][0]},
                              "after step %d the name %s resolves to a manifest with a %s layer %s" % (si, rel2, probs[0][0], probs[0][1].get("digest", "")[:19]), dict(replay, step=si))
        prev_store = store


def blob_len(b):
    return b["n"] if isinstance(b, dict) else len(bytes.fromhex(b))


def oversized_record(c, o, store):
    """a part record that reaches beyond the end of the published blob: (record, blob length) or None"""
    for fn, e in sorted(store["blobs"].items()):
        mm = re.match(r"^sha256-([0-9a-f]{64})-partial-\d+$", fn)
        if mm and "rec" in e:
            tl = [blob_len(b) for b, d in zip(c["blobs"], o["digests"]) if d.endswith(mm.group(1))]
            if tl and e["rec"]["Offset"] + e["rec"]["Size"] > tl[0]:
                return e["rec"], tl[0]
    return None


def nontrivial_hist(c, o):
    if "steps" not in o:
        return False
    return any(len(s.get("served", [])) >= 3 for s in o["steps"])


# ------------------------------------------------------------------ run

def run(ctx, only=None):
    ctx.rule = ("cases: (P) every header up to length 5 (thorough 7) over {r,=,quote,comma,x} with key r, random/truncated challenge headers; "
                "(S) histories of 1-5 pull attempts of the real /api/pull handler against a scripted registry+CDN: every fault kind of the property "
                "text at every request kind (manifest, HEAD, direct-URL GET, ranged GET), planted resume states with 1-4 parts, replaced manifests, "
                "shared layers, duplicate digests, client cancellation, clean retries at the end; (L) part layouts for real sizes up to 50 GB. "
                "non-trivial = a pull step with at least 3 served requests / a header containing the key; distinct = canonical JSON of the case")
    ctx.trusted = ["Coq 8.16.1 kernel + vm_compute", "hand-written model coq/Pull/{Challenge,Download}.v tied to the code by this differential run only",
                   "Go harness harness/cmd/c03 (fake registry/CDN, snapshots) and overlay exports harness/overlay/server/c03.go (add-only, tag verif)",
                   "python glue props/c03.py: grouping of the served-response log per request kind, JSON decoding of manifests (stands for encoding/json), host comparison of Location headers",
                   "SHA-256 is represented in the model by an abstract function; for evaluation by the table of the published blobs' digests (collision freedom)"]
    ctx.assumptions = ["file-system calls succeed (no ENOSPC/EIO); crashes of the server process are C12's subject, not modelled here",
                       "retry back-off sleeps, the 30 s stall timer and goroutine interleaving of parts are abstracted (parts touch disjoint byte ranges and disjoint response lists)",
                       "size clause of C03_success_verified: the published manifest is self-consistent (each size is the length of the blob with that digest)",
                       "C03_retry_possible: part records on disk were sized by a truthful Content-Length (guard of the _partial theorem)"]
    ctx.proof_stage(["Pull"], "Pull/Properties_C03.v", extra_targets=["Pull/Corr.v"])
    if not ctx.quick() and only is None:
        ctx.coqchk(["V.Pull.Properties_C03", "V.Pull.Corr"])
    binp = ctx.go_build("c03")
    if not binp:
        return
    if only is None:
        hist = gen_hist(ctx)
        cases = gen_client2(ctx, hist) + gen_pure(ctx) + hist + gen_layout(ctx) + ([] if ctx.quick() else gen_big(ctx))
    else:
        cases = only
    env = vlib.goenv()
    env["C03_JOBS"] = str(max(8, min(48, (os.cpu_count() or 8) * 2)))
    obs, err = ctx.run_jsonl(binp, [{k: v for k, v in c.items()} for c in cases], timeout=1500, env=env)
    if obs is None or len(obs) != len(cases):
        ctx.obligation("harness c03 answered every case", False, err)
        ctx.proof_failures.append({"obligation": "correspondence: harness c03 did not answer every case", "detail": err})
        return
    items, owners = [], []
    walls = []
    shrunk = set()
    for ci, (c, o) in enumerate(zip(cases, obs)):
        canon = {k: v for k, v in c.items() if k not in ("klass", "cost")}
        if c["op"] != "hist":
            nt = bytes.fromhex(c.get("key", "")) in bytes.fromhex(c.get("header", "") or c.get("auth", "")) if c["op"] == "getvalue" else True
            ctx.note_case(canon, nt, c["klass"], sample={"case": c, "impl": o})
            monitor_pure(ctx, c, o)
            items.append(render_pure(c, o))
            owners.append((ci, None))
            continue
        ctx.note_case(canon, nontrivial_hist(c, o), c["klass"], sample={"case": {k: v for k, v in c.items() if k != "blobs"}, "impl_result": [(s.get("success"), s.get("error")) for s in o.get("steps", []) if s.get("t") == "pull"]})
        sk = Sink()
        monitor_hist(sk, c, o)
        for m in sk.mismatches:
            ctx.mismatch(*m)
        for v in sk.violations:
            key = sigkey(v["sig"])
            if key not in shrunk and only is None and not vlib.match_known(ctx.known, v["sig"]) and len(shrunk) < 6:
                shrunk.add(key)
                best = shrink(ctx, binp, env, c, v["sig"])
                if best:
                    v = dict(best[2], what=best[2]["what"] + " [shrunk from a %d-step %s history]" % (len(c["steps"]), c["klass"]))
            ctx.violation(v["sig"], v["what"], v["replay"])
        for s in o.get("steps", []):
            if s.get("t") == "par":
                for r in s.get("results", []):
                    ctx.count("concurrent-pull-" + ("success" if r.get("success") else "failure"))
            if s.get("t") in ("pull", "par"):
                if s.get("t") == "pull":
                    ctx.count("pull-" + ("success" if s.get("success") else "failure"))
                    walls.append(s.get("wall_ms", 0))
                for e in s.get("served", []):
                    ctx.count("served-%s-%s%s" % (e["k"].split(":")[0], e["status"], "" if e["end"] == "clean" else "-" + e["end"]))
        if o.get("crashed"):
            continue
        for si, term, why in render_hist(c, o):
            if term is None:
                ctx.count("step-not-modelled: " + why)
                continue
            items.append(term)
            owners.append((ci, si))
    ctx.extra["pull_wall_ms_max"] = max(walls) if walls else 0
    bad, log = ctx.coq_eval(HEADER, items, per_file=340)
    if bad is None:
        ctx.obligation("correspondence: model evaluated on all cases", False, log)
        ctx.proof_failures.append({"obligation": "correspondence evaluation failed in coqc", "detail": log})
        return
    ctx.disagreements_checked = len(items)
    ctx.obligation("correspondence: model = implementation on %d items (pure cases + pull steps + layouts)" % len(items), not bad)
    for i in bad:
        ci, si = owners[i]
        c, o = cases[ci], obs[ci]
        if "panic" in o or len(ctx.mismatches) >= 20:
            continue
        ctx.mismatch("Pull/Corr.%s" % items[i].split()[0], {"case": c, "step": si}, o if si is None else o["steps"][si], items[i] if len(ctx.mismatches) < 3 else None)


def replay(ctx, path):
    r = json.load(open(path))
    ctx.log("replaying", path)
    case = None
    rp = r.get("replay") or {}
    if isinstance(rp, dict) and "case" in rp:
        case = rp["case"]
    elif r.get("disagreements"):
        case = r["disagreements"][0]["case"].get("case")
    if case is None:
        run(ctx)
    else:
        run(ctx, only=[case])


MANIFEST = {
    "property_id": "C03",
    "quick_cmd": "python3 check.py C03 --tier quick",
    "thorough_cmd": "python3 check.py C03 --tier thorough",
    "evidence_file": "evidence/C03.json",
    "replay_cmd_template": "python3 check.py C03 --replay {path}",
    "engine": "coq-model+go-differential",
    "level_claimed": {
        "category": "proof",
        "text": "Coq theorems over a part-level executable model of blob download (Prepare/run/downloadChunk/downloadBlob), PullModel, the redirect policy and "
                "makeRequestWithRetry, with SHA-256 an arbitrary function and the registry/CDN universally quantified response lists: for every history of attempts, "
                "success => served manifest stored and every layer present with its digest (size under a self-consistency hypothesis); every name always resolves to "
                "intact layers and a failed/cancelled attempt changes no name and removes no blob; the challenge parser never panics (iff-characterisation of the "
                "unrepaired panic); the part layout tiles the blob; fault-free retries succeed within #layers attempts after every history without a wrong "
                "Content-Length at HEAD, and unconditionally after a restart. Two clauses are false on the faithful model and recorded as known findings with "
                "_full/_refuted/_partial (layer sizes never checked; part records poisoned by an oversized Content-Length). The hand-written model is tied to "
                "server/download.go and server/images.go by a differential run of the real /api/pull handler against a scripted fake registry+CDN, evaluated "
                "inside Coq with vm_compute on the responses actually served; the property is also monitored directly on the store after every step.",
        "design_ref": "DESIGN.md section 5, C03; notes/C03.md",
    },
    "level_note": "Trusted: Coq kernel/vm_compute; the model-to-code tie is differential testing (generator-bounded); SHA-256 abstract (digest table of the published "
                  "blobs for evaluation); file-system errors, process crashes (C12), timers and goroutine interleavings of parts not modelled; concurrent pulls and "
                  "non-canonical digest spellings are monitored but not modelled; JSON decoding of manifests is done by the python glue.",
    "technique": "Coq proof (store invariants preserved by every pull for every environment; induction over histories) + model/implementation differential check",
}
