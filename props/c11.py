"""C11 - loaded-runner limit, one runner per model, reuse when compatible, fit before start.

The machinery (steering harness, generator, monitors of the three scheduler properties, conformance rendering) is
shared with C01 and lives in props/c01.py.
"""
from props import c01 as base

SETUP_BUILDS = base.SETUP_BUILDS
COQ_TARGETS = ["Sched/Properties_C11.v", "Sched/Corr.v"]


def run(ctx):
    ctx.proof_stage([base.GROUP], "Sched/Properties_C11.v", extra_targets=["Sched/Corr.v"])
    if not ctx.quick():
        ctx.coqchk(["V.Sched.Properties_C11"])
    base.run_group(ctx, "C11")


def replay(ctx, path):
    ctx.proof_stage([base.GROUP], "Sched/Properties_C11.v", extra_targets=["Sched/Corr.v"])
    if not base.replay_group(ctx, "C11", path):
        base.run_group(ctx, "C11")


MANIFEST = dict(base.MANIFEST)
MANIFEST.update({
    "property_id": "C11",
    "quick_cmd": "python3 check.py C11 --tier quick",
    "thorough_cmd": "python3 check.py C11 --tier thorough",
    "evidence_file": "evidence/C11.json",
    "replay_cmd_template": "python3 check.py C11 --replay {path}",
})
MANIFEST["level_claimed"] = dict(base.MANIFEST["level_claimed"], design_ref="DESIGN.md section 5, C11; notes/C01.md")
