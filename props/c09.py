"""C09 - registry client: success means every layer verified; manifest committed last.

Tie (S): the REAL ollama.Registry.Pull / Push, blob.DiskCache and registry.Local (handlePull's retry loop) run against a
scripted in-process registry (an http.RoundTripper: status codes, body pieces, read errors, chunk plans, completion
order of concurrent chunk downloads all scripted); after *every* attempt the whole cache directory (layer files, files
being assembled, marker blobs, manifest blob, links), the result and the numbers of requests are compared with the Coq
model (Blob/Pull.v, evaluated by vm_compute).  Monitor: the property itself on the implementation's observations
(after a successful pull every layer file is re-hashed; a failed pull leaves the links untouched; the manifest is
linked only together with intact layers; a push sends the manifest last and only if every layer was accepted).
"""
import glob
import hashlib
import json
import os

from lib import vlib
from lib.vlib import cq_bytes, cq_list, cq_bool, cq_nat

SETUP_BUILDS = [{"name": "c09"}]
COQ_TARGETS = ["Blob/Properties_C09.v", "Blob/PullCorr.v"]
HEADER = ("From Coq Require Import List NArith Bool.\nFrom V Require Import Common.Bytes Blob.Model Blob.Corr Blob.Pull Blob.PullCorr.\n"
          "Import ListNotations.\nOpen Scope N_scope.\n")
FIXED = True        # the model describes Chunker/Pull as repaired by fixes/C09-chunked-commit.patch
FIXED_LINK = True   # ... and Link as repaired by fixes/C08-link-size-shortcut.patch
NAME = "http://reg.test/ns/model:tag"
NP = ["reg.test", "ns", "model", "tag"]
MARK = b"v1 pull chunksum "

PERR = {"temp": "PTemp", "perm": "PPerm", "notfound": "PNotFound", "invalid": "PInvalid", "incomplete": "PIncomplete",
        "checksum": "PChecksum", "short": "PShort", "read-retry": "(PRead true)", "read": "(PRead false)", "canceled": "PCanceled"}


def sha(b):
    return hashlib.sha256(b).hexdigest()


def hx(b):
    return b.hex()


def rnd_content(rng, n):
    return bytes(rng.choice(b"abcdxyz\x00\x01\xff") for _ in range(n))


def split(rng, b, k):
    cuts = sorted(rng.randrange(0, len(b) + 1) for _ in range(k))
    out, last = [], 0
    for c in cuts + [len(b)]:
        out.append(b[last:c])
        last = c
    return out


# ----------------------------------------------------------------------------- generation
# A case is kept in a structured form ("spec"); to_harness() turns it into the JSON the Go driver reads,
# render_*() into Coq terms.

def gen_response(rng, want, fault):
    """response to the GET of a chunk whose correct bytes are `want`"""
    if fault == "ok":
        return {"status": rng.choice([200, 206]), "pieces": [p for p in split(rng, want, rng.randint(0, 2)) if p or rng.random() < 0.2], "tail": None}
    if fault == "503":
        return {"status": rng.choice([500, 503]), "code": "UNAVAILABLE"}
    if fault == "404":
        # 4xx, and 1xx / 3xx answers (with or without a Location) that are not a success either
        return {"status": rng.choice([404, 403, 401, 301, 302, 303, 307, 308, 102]), "code": rng.choice(["BLOB_UNKNOWN", "LOC1", "X"])}
    if fault == "short":
        cut = rng.randrange(0, len(want)) if want else 0
        return {"status": 200, "pieces": [p for p in split(rng, want[:cut], rng.randint(0, 1)) if p], "tail": None}
    if fault == "long":
        return {"status": 200, "pieces": split(rng, want + rnd_content(rng, rng.randint(1, 3)), rng.randint(0, 2)), "tail": None}
    if fault == "corrupt":
        if not want:
            return {"status": 200, "pieces": [], "tail": None}
        i = rng.randrange(len(want))
        bad = want[:i] + bytes([want[i] ^ 0x20]) + want[i + 1:]
        return {"status": 200, "pieces": [p for p in split(rng, bad, rng.randint(0, 2)) if p], "tail": None}
    if fault in ("reset", "boom", "timeout", "stall"):
        cut = rng.randrange(0, len(want) + 1) if fault != "stall" else rng.randrange(0, max(1, len(want)))
        return {"status": 200, "pieces": [p for p in split(rng, want[:cut], rng.randint(0, 1)) if p], "tail": fault}
    if fault == "cancel":
        return {"status": 0, "cancel": True}
    raise ValueError(fault)


FAULTS = ["503", "503", "404", "404", "short", "long", "corrupt", "reset", "boom", "timeout"]
ODD_DIRS = ["models[v2]", "[1]", "*", "?", "{a,b}", "back\\slash", "with space", "m\u00f6d\u00e8ls", "dot.", "x" * 150]


def gen_plan(rng, content, kind):
    """chunk plan (list of (start, length)) for a layer of len(content) >= 1 bytes"""
    n = len(content)
    k = rng.randint(1, min(4, n))
    cuts = sorted(rng.sample(range(1, n), k - 1)) if n > 1 and k > 1 else []
    bounds = [0] + cuts + [n]
    plan = [(bounds[i], bounds[i + 1] - bounds[i]) for i in range(len(bounds) - 1)]
    if rng.random() < 0.3:
        rng.shuffle(plan)
    if kind == "drop" and len(plan) > 1:
        plan.pop(rng.randrange(len(plan)))
    elif kind == "overlap" and n >= 3:
        s = rng.randrange(0, n - 1)
        plan.insert(rng.randrange(len(plan) + 1), (s, rng.randint(1, n - s)))
        plan = list(dict.fromkeys(plan))
    elif kind == "beyond":
        plan.append((n, rng.randint(1, 2)))
    elif kind == "gapfull" and len(plan) >= 3:
        # the byte total of the layer and the last byte present, but a middle chunk is replaced by one of the same length
        # inside a range that is covered anyway (a hole remains)
        j = rng.randrange(1, len(plan) - 1)
        s0, g = plan[j]
        last = max(plan, key=lambda q: q[0])
        if plan[j] != last:
            cands = [x for x in range(0, n - g + 1) if (x + g <= s0 or x >= s0 + g) and (x, g) not in plan]
            if cands:
                plan[j] = (rng.choice(cands), g)
    elif kind == "wrongchunk":
        # every chunk is consistent with the digest the registry lists for it, but one is not the layer's bytes
        i = rng.randrange(len(plan))
        s0, g = plan[i]
        plan[i] = (s0, g, bytes((b ^ 0x20) for b in content[s0:s0 + g]))
    elif kind == "shifted" and len(plan) >= 2:
        # same number of bytes as the layer, but one chunk covers the wrong range (the byte counter is satisfied, the layer is not covered)
        i = rng.randrange(len(plan))
        s0, ln = plan[i]
        cands = [x for x in range(0, n - ln + 1) if x != s0 and (x, ln) not in plan]
        if cands:
            plan[i] = (rng.choice(cands), ln)
    return plan


def gen_pull(rng, klass=None):
    thr = rng.randint(3, 8)
    nl = rng.randint(1, 3)
    layers = []
    for _ in range(nl):
        r = rng.random()
        if r < 0.55:
            n = rng.randint(thr, thr + 8)       # chunked
        elif r < 0.95:
            n = rng.randint(1, thr - 1)         # single request
        else:
            n = 0
        layers.append(rnd_content(rng, n))
    layers = list(dict.fromkeys(layers))
    config = rnd_content(rng, rng.randint(1, thr + 3)) if rng.random() < 0.4 else None
    if config in layers:
        config = None
    gated = rng.random() < 0.45
    natt = rng.choice([1, 2, 2, 3, 3, 4])
    handler = rng.random() < 0.3
    # the registry's plan for a layer is fixed for the whole case (a partition unless the class says otherwise)
    plankind = {}
    plans = {}
    for c in layers + ([config] if config else []):
        if len(c) >= thr:
            pk = "partition" if rng.random() < 0.85 or gated else rng.choice(["drop", "overlap", "beyond", "shifted", "shifted", "gapfull", "gapfull", "wrongchunk", "wrongchunk"])
            plankind[c] = pk
            plans[c] = gen_plan(rng, c, pk)
    # the registry may have streamed a wrong chunk list in the earlier attempts (a range past the layer's end and a chunk
    # missing) and the right one later: what the failed attempts left must not pass for the layer
    badplans = {}
    if not gated and natt >= 2 and rng.random() < 0.2:
        for c in plans:
            if plankind[c] == "partition" and len(plans[c]) >= 2 and rng.random() < 0.7:
                bp = list(plans[c])
                bp.pop(rng.randrange(len(bp)))
                ln = rng.randint(1, 3)
                bp.append((len(c), ln, rnd_content(rng, ln)))
                if rng.random() < 0.5:
                    rng.shuffle(bp)
                badplans[c] = bp
                plankind[c] = "beyond-then-partition"
    attempts = []
    for ai in range(natt):
        last = ai == natt - 1
        pfault = 0.0 if (last and rng.random() < 0.7) else rng.choice([0.15, 0.3, 0.5])
        a = {"layers": list(layers), "config": config, "mkind": "ok", "env": {}, "order": None}
        r = rng.random()
        if r < 0.10:
            a["mkind"] = rng.choice(["500", "404", "403", "403", "307", "302", "badjson", "nolayers", "nulllayer"])
            if handler and a["mkind"] == "nulllayer":
                a["mkind"] = "nolayers"     # through the handler a panic of Pull kills the process (bare goroutine): direct mode only
        for c in layers + ([config] if config else []):
            e = {"cs_status": 200, "tail": None, "plan": [], "single": None}
            if len(c) >= thr:
                plan = list(badplans[c]) if (c in badplans and ai < natt - 1) else list(plans[c])
                if rng.random() < pfault * 0.3:
                    e["cs_status"] = rng.choice([503, 404, 401, 302, 307, 102])
                if rng.random() < pfault * 0.4:
                    plan = plan[: rng.randrange(0, len(plan) + 1)]
                    e["tail"] = rng.choice(["baddigest", "norange", "badrange", "revrange", "boom", None])
                for q in plan:
                    s, ln = q[0], q[1]
                    want = q[2] if len(q) > 2 else c[s:s + ln]
                    fault = rng.choice(FAULTS) if rng.random() < pfault else "ok"
                    it = {"start": s, "len": ln, "resp": gen_response(rng, want, fault), "fault": fault}
                    if len(q) > 2:
                        it["bytes"] = want
                    e["plan"].append(it)
            else:
                fault = rng.choice(FAULTS) if rng.random() < pfault else "ok"
                e["single"] = {"resp": gen_response(rng, c, fault), "fault": fault}
            a["env"][sha(c)] = e
        if not gated and rng.random() < 0.10:
            # the user cancels the pull when some request is made: that request and everything after it fails
            flat = []
            for c in layers + ([config] if config else []):
                e = a["env"][sha(c)]
                flat.append(("cs", e))
                for it in (e["plan"] if e["single"] is None else [e["single"]]):
                    flat.append(("it", it))
            k = rng.randrange(len(flat))
            for kind, x in flat[k:]:
                if kind == "cs":
                    if x["single"] is None:
                        x["cancel"] = True
                else:
                    x["resp"] = {"status": 0, "cancel": True}
                    x["fault"] = "cancel"
        if not gated and rng.random() < 0.04:
            # the registry stops sending in the middle of a body: Pull's read timeout has to end the request
            its = [it for e in a["env"].values() for it in (e["plan"] if e["single"] is None else [e["single"]]) if it["fault"] == "ok"]
            if its:
                it = rng.choice(its)
                dgs = [d for d, e in a["env"].items() if it in (e["plan"] if e["single"] is None else [e["single"]])][0]
                cont = [c for c in layers + ([config] if config else []) if sha(c) == dgs][0]
                want = cont if "start" not in it else item_bytes(cont, it)
                if want:
                    it["resp"] = gen_response(rng, want, "stall")
                    it["fault"] = "stall"
                    a["stall"] = True
        if gated:
            keys = []
            for c in layers + ([config] if config else []):
                e = a["env"][sha(c)]
                if len(c) >= thr:
                    keys += [(sha(c), it["start"], it["len"]) for it in e["plan"]]
                else:
                    keys.append((sha(c), 0, len(c)))
            rng.shuffle(keys)
            a["order"] = keys
        if ai > 0 and not handler and rng.random() < 0.3:
            a["reopen"] = True        # the process was restarted: a new DiskCache on the same directory
        attempts.append(a)
    pre = []
    if rng.random() < 0.25:
        c = rng.choice(layers)
        pre.append({"op": "put", "data": hx(c)})
    if rng.random() < 0.12:
        c = rng.choice(layers)
        junk = rnd_content(rng, rng.choice([max(0, len(c) - 1), len(c) + 1, 1]))
        if len(junk) != len(c):
            pre.append({"op": "raw", "name": "sha256-" + sha(c), "data": hx(junk)})
    if rng.random() < 0.2:
        # the name is already linked to another manifest (of the same length half of the time: Link's size shortcut)
        pre.append({"op": "link", "name": NAME[7:], "data": hx(b'{"layers":[{"digest":"sha256:%s","size":1}]}' % sha(rnd_content(rng, 3)).encode())})
    return {"kind": "pull", "threshold": thr, "max_streams": rng.choice([-1, -1, -1, 2, 3, 0]) if gated else 1, "handler": handler, "pre": pre, "attempts": attempts,
            "read_timeout_ms": 400 if any(a.get("stall") for a in attempts) else None,
            "stream": not (handler and rng.random() < 0.25), "auth": rng.random() < 0.3,
            "dirname": rng.choice(ODD_DIRS) if rng.random() < 0.25 else None,
            "plankind": sorted(set(plankind.values())), "klass": klass or ("pull-gated" if gated else "pull-seq") + ("-handler" if handler else "")}


def manifest_body(a):
    m = {"layers": [{"digest": "sha256:" + sha(c), "size": len(c), "mediaType": "m"} for c in a["layers"]]}
    if a["config"] is not None:
        m["config"] = {"digest": "sha256:" + sha(a["config"]), "size": len(a["config"]), "mediaType": "c"}
    if a["mkind"] == "nolayers":
        m["layers"] = []
    if a["mkind"] == "nulllayer":
        m["layers"] = m["layers"][:1] + [None] + m["layers"][1:]
    body = json.dumps(m).encode()
    if a["mkind"] == "badjson":
        body = body[: len(body) // 2]
    return body


def all_layers(a):
    return a["layers"] + ([a["config"]] if a["config"] is not None else [])


def item_bytes(cont, it):
    """the bytes a listed chunk claims to be (its digest in the chunk list is their hash)"""
    return it["bytes"] if it.get("bytes") is not None else cont[it["start"]:it["start"] + it["len"]]


def cs_body(c, e):
    out = b""
    for it in e["plan"]:
        out += b"sha256:%s %d-%d\n" % (sha(item_bytes(c, it)).encode(), it["start"], it["start"] + it["len"] - 1)
    t = e["tail"]
    if t == "baddigest":
        out += b"sha256:zz 0-1\n"
    elif t == "norange":
        out += b"sha256:%s" % sha(b"q").encode()
    elif t == "badrange":
        out += b"sha256:%s x-3\n" % sha(b"q").encode()
    elif t == "revrange":
        out += b"sha256:%s 5-3\n" % sha(b"q").encode()
    return out


def resp_json(r):
    if r.get("cancel"):
        return {"status": 0, "cancel": True}
    if r["status"] // 100 != 2:
        return {"status": r["status"], "code": r.get("code", "X")}
    return {"status": r["status"], "pieces": [hx(p) for p in r["pieces"]], "tail": r["tail"]}


def to_harness(c):
    if c["kind"] != "pull":
        return c
    atts = []
    for a in c["attempts"]:
        man = {"status": 200, "body": hx(manifest_body(a))}
        if a["mkind"] in ("500", "403", "307", "302"):
            man = {"status": int(a["mkind"]), "code": "X"}
        elif a["mkind"] == "404":
            man = {"status": 404, "code": "MANIFEST_UNKNOWN"}
        cs, bl = {}, {}
        for cont in all_layers(a):
            e = a["env"][sha(cont)]
            per = {}
            if e["single"] is not None:
                per["%d-%d" % (0, len(cont) - 1)] = resp_json(e["single"]["resp"])
            else:
                cs[sha(cont)] = {"status": e["cs_status"], "body": hx(cs_body(cont, e)), "tail": "boom" if e["tail"] == "boom" else None}
                if e.get("cancel"):
                    cs[sha(cont)]["cancel"] = True
                for it in e["plan"]:
                    per["%d-%d" % (it["start"], it["start"] + it["len"] - 1)] = resp_json(it["resp"])
            bl[sha(cont)] = per
        order = None
        if a["order"] is not None:
            order = [[d, "%d-%d" % (s, s + ln - 1)] for (d, s, ln) in a["order"]]
        atts.append({"manifest": man, "chunksums": cs, "blobs": bl, "order": order, "reopen": bool(a.get("reopen"))})
    out = {"kind": "pull", "threshold": c["threshold"], "max_streams": c["max_streams"], "name": NAME, "handler": c["handler"],
           "pre": c["pre"], "attempts": atts}
    if c.get("read_timeout_ms"):
        out["read_timeout_ms"] = c["read_timeout_ms"]
    if c.get("dirname"):
        out["dirname"] = c["dirname"]
    if c.get("stream") is False:
        out["stream"] = False
    if c.get("auth"):
        out["auth"] = True
    return out


# ----------------------------------------------------------------------------- rendering into Coq

def nbytes(n):
    return bytes([n]) if n < 256 else None


def mkey_enc(ld, cd, s, ln):
    return b"v1 " + ld + b"\xff\xfe" + cd + b"\xff\xfd" + bytes([s, ln])


def preimages(c, o):
    pre = {sha(b""): b""}
    for a in c["attempts"]:
        for cont in all_layers(a):
            pre[sha(cont)] = cont
            e = a["env"][sha(cont)]
            for it in e["plan"]:
                ch = item_bytes(cont, it)
                pre[sha(ch)] = ch
        pre[sha(manifest_body(a))] = manifest_body(a)
    for p in c["pre"]:
        if p["op"] in ("put", "link"):
            pre[sha(bytes.fromhex(p["data"]))] = bytes.fromhex(p["data"])
    pre[sha(b"q")] = b"q"
    return pre


def parse_marker(content, pre):
    """'v1 pull chunksum sha256:A sha256:B s-e' -> model encoding of the key, or None"""
    try:
        parts = content[len(MARK):].decode().split(" ")
        la, cb, rng_ = parts[0][7:], parts[1][7:], parts[2]
        s, e = rng_.split("-", 1)
        s, e = int(s), int(e)
        if la not in pre or cb not in pre or s > 250 or e - s + 1 > 250:
            return None
        return mkey_enc(pre[la], pre[cb], s, e - s + 1)
    except Exception:
        return None


def render_snap(snap, pre):
    bl, pa = [], []
    for name, content in sorted(snap["blobs"].items()):
        data = bytes.fromhex(content)
        part = name.endswith(".chunked")
        base = name[:-8] if part else name
        if not base.startswith("sha256-"):
            return None
        if data.startswith(MARK) and not part:
            enc = parse_marker(data, pre)
            if enc is None or sha(data) != base[7:]:
                return None
            bl.append("(%s, %s)" % (cq_bytes(enc), cq_bytes(enc)))
            continue
        if base[7:] not in pre:
            return None
        (pa if part else bl).append("(%s, %s)" % (cq_bytes(pre[base[7:]]), cq_bytes(data)))
    ln = []
    for p, content in sorted(snap["links"].items()):
        ln.append("(%s, %s)" % (cq_list([cq_bytes(x.encode()) for x in p.split("/")], "str"), cq_bytes(bytes.fromhex(content))))
    ty = "(Dg * list N)%type"
    return "(%s, %s, %s)" % (cq_list(bl, ty), cq_list(pa, ty), cq_list(ln, "(path * list N)%type"))


def cq_perr_of_status(st):
    return "PTemp" if st >= 500 else "PPerm"


def cq_resp(r):
    if r.get("cancel"):
        return "(CStatus PCanceled)"
    if r["status"] // 100 != 2:
        return "(CStatus %s)" % cq_perr_of_status(r["status"])
    tail = {None: "None", "reset": "(Some (PRead true))", "timeout": "(Some (PRead true))", "stall": "(Some (PRead true))", "boom": "(Some (PRead false))"}[r["tail"]]
    return "(CBody %s %s)" % (cq_list([cq_bytes(p) for p in r["pieces"]], "(list N)"), tail)


def cq_attempt(c, a):
    body = manifest_body(a)
    if a["mkind"] in ("500",):
        man = "(MFail PTemp)"
    elif a["mkind"] in ("403", "307", "302"):
        man = "(MFail PPerm)"
    elif a["mkind"] == "404":
        man = "(MFail PNotFound)"
    elif a["mkind"] in ("badjson", "nolayers", "nulllayer"):
        man = "(MFail PInvalid)"
    else:
        ls = cq_list(["(mkL %s %s)" % (cq_bytes(x), cq_nat(len(x))) for x in all_layers(a)], "clayer")
        man = "(MOk %s %s)" % (ls, cq_bytes(body))
    envs = []
    idx = {}
    for li, cont in enumerate(all_layers(a)):
        e = a["env"][sha(cont)]
        if e["single"] is not None:
            envs.append("(mkLE %s false (@nil (citem Dg * cresp)) false)" % cq_resp(e["single"]["resp"]))
            idx[(sha(cont), 0, len(cont))] = (li, 0)
        else:
            items = []
            for k, it in enumerate(e["plan"]):
                ch = item_bytes(cont, it)
                items.append("((%s, %s, %s), %s)" % (cq_bytes(ch), cq_nat(it["start"]), cq_nat(it["len"]), cq_resp(it["resp"])))
                idx.setdefault((sha(cont), it["start"], it["len"]), (li, k))
            envs.append("(mkLE (CStatus PPerm) %s %s %s)" % (cq_bool(e["cs_status"] != 200 or bool(e.get("cancel"))), cq_list(items, "(citem Dg * cresp)%type"), cq_bool(e["tail"] is not None)))
    order = []
    if a["order"] is not None:
        for key in a["order"]:
            if key in idx:
                order.append("(%s, %s)" % (cq_nat(idx[key][0]), cq_nat(idx[key][1])))
    return "(mkA %s %s %s)" % (man, cq_list(envs, "(lenv Dg)"), cq_list(order, "(nat * nat)%type"))


def cq_cache(snap, pre):
    s = render_snap(snap, pre)
    if s is None:
        return None
    return "(let '(b, p, l) := %s in mkP b p l)" % s


def counts(log):
    return (sum(1 for l in log if " chunksums " in l), sum(1 for l in log if " blob " in l))


def render(c, o):
    if "panic" in o or "harness_error" in o:
        return "false"
    if c["kind"] == "push-legacy-conc":
        return render_push_conc(c, o)
    if c["kind"] in ("push", "push-legacy"):
        return render_push(c, o)
    pre = preimages(c, o)
    c0 = cq_cache(o["pre_snap"], pre)
    if c0 is None:
        return "false"
    np = cq_list([cq_bytes(x.encode()) for x in NP], "str")
    if c["handler"]:
        snaps = [render_snap(s, pre) for s in o["snaps"]]
        if None in snaps or o["attempts_made"] != len(snaps):
            return "false"
        script = cq_list([cq_attempt(c, a) for a in c["attempts"]], "cattempt")
        return "chk_loop %s %s %s %s %s %s %s %s %s" % (cq_bool(c.get("stream", True)), cq_bool(FIXED), cq_bool(FIXED_LINK), cq_nat(c["threshold"]), np, c0, script,
                                                    cq_list(snaps, "psnap"), cq_bool(handler_ok(o)))
    atts = []
    for a, oa in zip(c["attempts"], o["attempts"]):
        s = render_snap(oa["snap"], pre)
        if s is None:
            return "false"
        if oa["err"] == "":
            r = "(@None perr)"
        elif oa["err"] in PERR:
            r = "(Some %s)" % PERR[oa["err"]]
        else:
            return "false"
        n = counts(oa["log"])
        if any(it.get("fault") == "cancel" for e in a["env"].values() for it in (e["plan"] if e["single"] is None else [e["single"]])) or any(e.get("cancel") for e in a["env"].values()):
            n = (9999, 0)
        atts.append("(%s, (%s, %s, (%s, %s)))" % (cq_attempt(c, a), r, s, cq_nat(n[0]), cq_nat(n[1])))
    return "chk_pull %s %s %s %s %s %s" % (cq_bool(FIXED), cq_bool(FIXED_LINK), cq_nat(c["threshold"]), np, c0, cq_list(atts, "(cattempt * pobs)%type"))


def handler_ok(o):
    return o.get("handler_status") == 200 and '"status":"success"' in o.get("handler_body", "") and '"error"' not in o.get("handler_body", "")


# ----------------------------------------------------------------------------- push

def gen_push(rng):
    nl = rng.randint(1, 4)
    layers = list(dict.fromkeys(rnd_content(rng, rng.randint(1, 9)) for _ in range(nl)))
    if rng.random() < 0.3:
        # an unusual but legal manifest: a layer of size 0 (the empty blob) alone, first, in the middle, last, or twice
        where = rng.choice(["alone", "first", "middle", "last", "twice"])
        if where == "alone":
            layers = [b""]
        elif where == "first":
            layers = [b""] + layers
        elif where == "last":
            layers = layers + [b""]
        elif where == "middle":
            layers = layers[: len(layers) // 2] + [b""] + layers[len(layers) // 2:]
        else:
            layers = [b""] + layers + [b""]
    post, put = {}, {}
    for c in dict.fromkeys(layers):
        r = rng.random()
        if r < 0.2:
            post[sha(c)] = {"status": 200, "location": False}      # already at the registry
        elif r < 0.35:
            post[sha(c)] = {"status": rng.choice([500, 403, 404, 401, 307, 308, 302, 102]), "location": True, "code": rng.choice(["", "LOC"])}
        else:
            post[sha(c)] = {"status": 200, "location": True}
            if rng.random() < 0.35:
                put[sha(c)] = {"status": rng.choice([500, 400, 401, 307, 308, 301, 302, 303, 102]), "code": rng.choice(["", "LOC"])}
    man = {"status": 200 if rng.random() < 0.85 else rng.choice([500, 401, 307, 308]), "code": rng.choice(["", "LOC"])}
    return {"kind": "push", "auth": rng.random() < 0.4, "name": NAME, "max_streams": rng.choice([1, 1, 0, -1]), "layers": [hx(c) for c in layers], "post": post, "put": put,
            "manifest": man, "klass": "push-new"}


def gen_push_legacy(rng):
    nl = rng.randint(1, 3)
    layers = list(dict.fromkeys(rnd_content(rng, rng.randint(1, 9)) for _ in range(nl)))
    config = rnd_content(rng, rng.randint(1, 5)) if rng.random() < 0.5 else None
    if config in layers:
        config = None
    if rng.random() < 0.3:
        # a layer of size 0 (the empty blob) alone, first, in the middle or last
        where = rng.choice(["alone", "first", "middle", "last"])
        if where == "alone":
            layers = [b""]
        elif where == "first":
            layers = [b""] + layers
        elif where == "last":
            layers = layers + [b""]
        else:
            layers = layers[: len(layers) // 2] + [b""] + layers[len(layers) // 2:]
    head, post = {}, {}
    for c in layers + ([config] if config else []):
        r = rng.random()
        if r < 0.3:
            head[sha(c)] = 200           # already at the registry
        elif r < 0.42:
            head[sha(c)] = rng.choice([500, 403])
        elif r < 0.55:
            post[sha(c)] = rng.choice([500, 400])
    challenge, token = {}, 200
    if rng.random() < 0.4:
        # token-gated registry: requests are answered 401 with a bearer challenge first (once: the client fetches a token
        # and repeats the request; twice: it gives up), the token endpoint may fail
        token = 200 if rng.random() < 0.8 else rng.choice([500, 403])
        for c in layers + ([config] if config else []):
            if rng.random() < 0.6:
                challenge["head:" + sha(c)] = rng.choice([1, 1, 1, 2])
            if rng.random() < 0.3:
                challenge["post:" + sha(c)] = rng.choice([1, 1, 2])
            if token == 200 and rng.random() < 0.25:
                challenge["commit:" + sha(c)] = 1
        if rng.random() < 0.4:
            challenge["manifest"] = rng.choice([1, 1, 2])
    patch_fail, commit_fail = {}, {}
    ups = [c for c in layers + ([config] if config else []) if sha(c) not in head and sha(c) not in post]
    if ups and rng.random() < 0.12:
        # one failure that the legacy client retries after a real 1 s sleep (part upload or finalising PUT)
        (patch_fail if rng.random() < 0.5 else commit_fail)[sha(rng.choice(ups))] = 1
    return {"kind": "push-legacy", "layers": [hx(c) for c in layers], "config": hx(config) if config else None, "head": head, "post": post,
            "patch_fail": patch_fail, "commit_fail": commit_fail, "manifest": 200 if rng.random() < 0.85 else 500,
            "challenge": challenge, "token": token, "klass": "push-legacy-auth" if challenge else "push-legacy"}


def legacy_accepts(c, d):
    """does the scripted registry end up accepting layer d (what the model's push_legacy is told)"""
    ch, tok_ok = c.get("challenge", {}), c.get("token", 200) == 200

    def gate(key):
        n = ch.get(key, 0)
        return n == 0 or (tok_ok and n < 2)
    if not gate("head:" + d):
        return False
    hs = c["head"].get(d, 404)
    if hs == 200:
        return True
    if hs != 404 or not gate("post:" + d) or c["post"].get(d, 202) // 100 != 2:
        return False
    if not gate("commit:" + d):
        return False
    return c.get("commit_fail", {}).get(d, 0) < 6 and c.get("patch_fail", {}).get(d, 0) < 6


def retry_run_cases(rng, quick):
    """POST /api/pull histories with k = 1..10 consecutive retryable failures (5xx on the blob, 5xx on the manifest, connection
    reset, deadline exceeded) followed by recovery or by a permanent failure, and non-streaming pulls (one attempt, no retry).
    The handler's real back-off sleeps add up to seconds, so these run in a harness process of their own."""
    out = []
    L = rnd_content(rng, 3)

    def att(mkind, fault):
        resp = gen_response(rng, L, fault) if fault not in ("reset", "timeout") else {"status": 200, "pieces": [L[:1]], "tail": fault}
        return {"layers": [L], "config": None, "mkind": mkind, "order": None,
                "env": {sha(L): {"cs_status": 200, "tail": None, "plan": [], "single": {"resp": resp, "fault": fault}}}}
    fails = [("ok", "503"), ("500", "ok"), ("ok", "reset"), ("ok", "timeout")]
    ks = range(1, 11)
    for k in ks:
        variants = [("recover", True)] + ([("giveup", True)] if (not quick or k in (2, 5, 8)) else [])
        for end, stream in variants:
            atts = [att(*fails[(k + i) % len(fails)]) for i in range(k)]
            atts.append(att("ok", "ok") if end == "recover" else att("ok", "404"))
            out.append({"kind": "pull", "threshold": 8, "max_streams": 1, "handler": True, "stream": True, "auth": False, "pre": [], "attempts": atts,
                        "plankind": [], "read_timeout_ms": None, "klass": "retry-run-%s" % end})
    for fault in ("503", "ok", "404"):
        out.append({"kind": "pull", "threshold": 8, "max_streams": 1, "handler": True, "stream": False, "auth": False, "pre": [],
                    "attempts": [att("ok", fault), att("ok", "ok")], "plankind": [], "read_timeout_ms": None, "klass": "nonstream"})
    return out


def conc_push_cases(rng, quick):
    """2-3 concurrent legacy PushModel calls of models that share a layer (they meet in blobUploadManager), against the
    scripted registry with gates: the POST that opens the upload session or the finalising PUT of the shared layer is held
    while the other pushes join; the push that created the upload is cancelled at a gate, or the held request is
    answered late / rejected once; also an empty shared layer (Completed == Total == 0 from the start)."""
    out = []
    reps = 1 if quick else 6
    for _ in range(reps):
        for tmpl in ("cancel-at-post", "cancel-at-commit", "hold-commit", "hold-commit-3", "hold-post", "reject-post", "empty-shared", "empty-single",
                     "hold-commit-late-shared", "reject-commit-once"):
            if quick and tmpl == "reject-commit-once" and rng.random() < 0.5:
                continue
            S = b"" if tmpl.startswith("empty") else rnd_content(rng, rng.randint(1, 9))
            used = {S}

            def extra():
                # a layer of the model's own (never the shared one again, never one of another model)
                if rng.random() >= 0.7:
                    return []
                while True:
                    x = rnd_content(rng, rng.randint(2, 6))
                    if x not in used:
                        used.add(x)
                        return [x]
            nm = 3 if tmpl == "hold-commit-3" else (1 if tmpl == "empty-single" else 2)
            models = []
            for i in range(nm):
                own = extra()
                layers = [S] + own if (i == 0 or tmpl != "hold-commit-late-shared") else own + [S]
                if i == 0 and rng.random() < 0.3 and tmpl not in ("cancel-at-post", "reject-post"):
                    layers = own + [S]
                models.append({"name": "m" + "abc"[i], "layers": [hx(x) for x in layers]})
            d = sha(S)
            joiners = [["start", i] for i in range(1, nm)]
            seen = [["seen", "head m%s %s" % ("abc"[i], d)] for i in range(1, nm)]
            if tmpl in ("cancel-at-post", "hold-post", "reject-post"):
                gates = ["post:" + d]
                script = [["start", 0], ["arrive", "post:" + d]] + joiners + seen + [["sleep", 80]]
                if tmpl == "cancel-at-post":
                    script += [["cancel", 0], ["sleep", 30]]
                script += [["release", "post:" + d, 500 if tmpl == "reject-post" else 202]]
            else:
                gates = ["commit:" + d]
                script = [["start", 0], ["arrive", "commit:" + d]] + joiners + seen + [["sleep", rng.choice([150, 250])]]
                if tmpl == "cancel-at-commit":
                    script += [["cancel", 0], ["sleep", 40]]
                if tmpl == "reject-commit-once":
                    script += [["release", "commit:" + d, 500], ["arrive", "commit:" + d], ["sleep", 100]]
                script += [["release", "commit:" + d, 201]]
            script += [["open"]] + [["join", i] for i in range(nm)]
            out.append({"kind": "push-legacy-conc", "models": models, "gates": gates, "head": {}, "script": script, "tmpl": tmpl, "klass": "push-legacy-conc"})
    return out


def conc_push_view(c, o):
    """per push: (events [(layer index, accepted)], manifest sent?, result) read off the global request log: a layer of a push
    is accepted iff, before that push's manifest PUT (or its end), the registry answered its HEAD with 200 or a finalising
    PUT of that digest with 2xx"""
    log = (o.get("log") or [])
    views = []
    for i, m in enumerate(c["models"]):
        name = m["name"]
        layers = [sha(bytes.fromhex(h)) for h in m["layers"]]
        man = next((k for k, l in enumerate(log) if l.startswith("manifest-put %s " % name)), None)
        end = man if man is not None else next((k for k, l in enumerate(log) if l.startswith("done %d " % i)), len(log))
        def accepted(d, upto):
            for l in log[:upto]:
                w = l.split(" ")
                if (w[0] == "head" and w[1] == name and w[2] == d and w[3] == "200") or (w[0] == "commit" and w[1] == d and w[2][:1] == "2"):
                    return True
            return False
        seen = []
        for l in log:
            w = l.split(" ")
            if w[0] == "head" and w[1] == name and w[2] in layers and w[2] not in seen:
                seen.append(w[2])
        events = [(layers.index(d), accepted(d, end)) for d in seen]
        views.append({"name": name, "layers": layers, "events": events, "manifest": man is not None,
                      "all_accepted": all(accepted(d, end) for d in layers), "result": (o.get("results") or [None] * 9)[i]})
    return views


def monitor_push_conc(c, o):
    out = []
    for i, v in enumerate(conc_push_view(c, o)):
        if v["result"] is not None and str(v["result"]).startswith("PANIC"):
            out.append(({"kind": "push-legacy-conc", "class": "panic"}, "push %d: %s" % (i, v["result"])))
        if v["manifest"] and not v["all_accepted"]:
            out.append(({"kind": "push-legacy-conc", "class": "manifest-before-layers", "tmpl": c.get("tmpl")},
                        "concurrent pushes (%s): push %d (%s) sent its manifest before every one of its layers was accepted by the registry: %s" % (
                            c.get("tmpl"), i, v["name"], [l[:60] for l in (o.get("log") or [])])))
        if v["result"] == "" and not (v["manifest"] and v["all_accepted"]):
            out.append(({"kind": "push-legacy-conc", "class": "push-ok-without-accepted-layers", "tmpl": c.get("tmpl")},
                        "concurrent pushes (%s): push %d (%s) reported success although a layer of it was never accepted or its manifest was not sent" % (c.get("tmpl"), i, v["name"])))
    if any(l.startswith("timeout ") for l in (o.get("log") or [])):
        pass
    return out


def render_push_conc(c, o):
    terms = []
    for v in conc_push_view(c, o):
        acc = dict(v["events"])
        res = [acc.get(k, True) for k in range(len(v["layers"]))]
        obs = ["(EvBlob %s %s)" % (cq_nat(k), cq_bool(a)) for k, a in v["events"]] + (["EvManifest"] if v["manifest"] else [])
        terms.append("chk_push_legacy %s %s" % (cq_list([cq_bool(x) for x in res], "bool"), cq_list(obs, "pev")))
    return "(" + " && ".join(terms) + ")%bool" if terms else "false"


def slow_legacy_cases(rng, n):
    """legacy pushes in which the registry never (or only at the last try) accepts the finalising PUT of one layer: the
    client retries with sleeps of 1+2+4+8+16(+32) s, so each of these takes 31-63 s of real time.  Each is run in a
    harness process of its own, started before and joined after the rest of the tier (wall time = max, not sum)."""
    out = []
    for k in range(n):
        nl = 1 + k % 3
        layers = list(dict.fromkeys(rnd_content(rng, rng.randint(1, 9)) for _ in range(nl)))
        config = rnd_content(rng, rng.randint(1, 5)) if k % 2 else None
        if config in layers:
            config = None
        allc = layers + ([config] if config else [])
        victim = allc[k % len(allc)]
        head = {sha(c): 200 for c in allc if c != victim and rng.random() < 0.3}
        # k = 0 (the quick tier's case): every attempt fails; later ones also "fails five times, accepted at the sixth"
        nfail = 6 if k % 3 != 2 else 5
        out.append({"kind": "push-legacy", "layers": [hx(c) for c in layers], "config": hx(config) if config else None, "head": head, "post": {},
                    "patch_fail": {}, "commit_fail": {sha(victim): nfail}, "manifest": 200, "klass": "push-legacy-slow"})
    return out


def legacy_events(c, o):
    """(layers in upload order, observed event list) from the request log of the scripted registry: a layer is accepted iff
    the registry answered HEAD 200 (already there) or a finalising PUT with 2xx; it is refused iff HEAD/POST got an error
    status or finalising PUTs were sent and none was accepted"""
    order = [bytes.fromhex(h) for h in c["layers"]] + ([bytes.fromhex(c["config"])] if c["config"] else [])
    ix = {sha(b): i for i, b in enumerate(order)}
    seen, verdict = [], {}
    man_at = None
    for li, l in enumerate((o.get("log") or [])):
        w = l.split(" ")
        if w[0] in ("head", "post", "patch", "commit") and w[1] in ix and w[1] not in seen:
            seen.append(w[1])
        if w[0] == "challenge" and ":" in w[1] and w[1].split(":", 1)[1] in ix and w[1].split(":", 1)[1] not in seen:
            seen.append(w[1].split(":", 1)[1])
        if w[0] == "head" and int(w[2]) == 200:
            verdict[w[1]] = True
        elif w[0] == "head" and int(w[2]) != 404:
            verdict[w[1]] = False
        elif w[0] == "post" and int(w[2]) // 100 != 2:
            verdict[w[1]] = False
        elif w[0] == "commit":
            verdict[w[1]] = verdict.get(w[1], False) or int(w[2]) // 100 == 2
        elif w[0] == "manifest-put" or l == "challenge manifest":
            if man_at is None:
                man_at = li
    # a layer the client started on and the registry never accepted (refused outright, or the client gave up at a bearer
    # challenge or at the token endpoint) counts as refused
    events = [("blob", ix[d], verdict.get(d) is True) for d in seen]
    if man_at is not None:
        events.append(("manifest",))
    return order, events


def push_events(c, o):
    """(results per layer as the registry saw them, observed event list)"""
    layers = [bytes.fromhex(h) for h in c["layers"]]
    ix = {sha(b): i for i, b in enumerate(layers)}
    accepted = {}
    events = []
    for l in (o.get("log") or []):
        w = l.split(" ")
        if w[0] == "post":
            e = c["post"].get(w[1], {"status": 200, "location": True})
            if e["status"] // 100 != 2:
                accepted[w[1]] = False
                events.append(("blob", ix[w[1]], False))
            elif not e.get("location", True):
                accepted[w[1]] = True
                events.append(("blob", ix[w[1]], True))
        elif w[0] == "put":
            ok = int(w[2]) // 100 == 2
            accepted[w[1]] = ok
            events.append(("blob", ix[w[1]], ok))
        elif w[0] == "manifest-put":
            events.append(("manifest",))
    return accepted, events


def render_push(c, o):
    if c["kind"] == "push-legacy":
        order, events = legacy_events(c, o)
        # what the registry answers for each layer, in upload order (the model stops at the first refusal)
        res = []
        for b in order:
            d = sha(b)
            res.append(legacy_accepts(c, d))
        obs = cq_list(["(EvBlob %s %s)" % (cq_nat(e[1]), cq_bool(e[2])) if e[0] == "blob" else "EvManifest" for e in events], "pev")
        return "chk_push_legacy %s %s" % (cq_list([cq_bool(x) for x in res], "bool"), obs)
    accepted, events = push_events(c, o)
    res = cq_list(["(%s, %s)" % (cq_nat(e[1]), cq_bool(e[2])) for e in events if e[0] == "blob"], "(nat * bool)%type")
    obs = cq_list(["(EvBlob %s %s)" % (cq_nat(e[1]), cq_bool(e[2])) if e[0] == "blob" else "EvManifest" for e in events], "pev")
    if any(h == "" for h in c["layers"]):
        # Registry.Push checks first that every layer is in the cache with its size; DiskCache.Get reports the empty blob
        # file as absent (cf. C08-link-empty-blob), so a manifest with a zero-size layer is refused before any request
        return "(trace_eqb (@nil pev) %s && %s)%%bool" % (obs, cq_bool(o.get("err") == "notexist"))
    return "chk_push_new %s %s" % (res, obs)


# ----------------------------------------------------------------------------- monitor

def layer_state(snap, cont):
    """'intact' | 'absent' | 'corrupt' for a layer of the manifest in the directory snapshot"""
    f = snap["blobs"].get("sha256-" + sha(cont))
    if f is None:
        return "absent"
    data = bytes.fromhex(f)
    if len(data) == len(cont) and sha(data) == sha(cont):
        return "intact"
    return "corrupt"


def monitor_pull(c, o):
    out = []
    if c["handler"]:
        snaps = o.get("snaps", [])
        made = o.get("attempts_made", 0)
        prev = o["pre_snap"]
        for k, s in enumerate(snaps):
            a = c["attempts"][k] if k < len(c["attempts"]) else None
            lastok = k == len(snaps) - 1 and handler_ok(o)
            oa = {"resolve": o.get("resolve"), "log": [l for l in (o.get("log") or []) if l.startswith("%d " % (k + 1))]} if lastok else "err"
            out += check_attempt(c, a, prev, s, lastok, k, oa)
        if handler_ok(o) and not snaps:
            out.append(({"kind": "pull", "class": "success-without-manifest"}, "the handler reported success without a single attempt"))
            prev = s
        return out
    prev = o["pre_snap"]
    for k, (a, oa) in enumerate(zip(c["attempts"], o["attempts"])):
        # a clean retry after any history of attempts against a well-behaved registry succeeds (no stuck state)
        if oa["err"] != "" and k > 0 and attempt_clean(c, a) and all(plans_are_partitions(c, b) for b in c["attempts"][: k + 1]) and not c["pre"]:
            out.append(({"kind": "pull", "class": "clean-retry-fails", "reopen": bool(a.get("reopen"))},
                        "attempt %d is served without any fault by a registry whose chunk lists were partitions all along%s, but Pull fails: %s" % (
                            k, " (cache re-opened before it)" if a.get("reopen") else "", oa.get("msg", oa["err"])[:160])))
        if oa["err"].startswith("other:PANIC"):
            out.append(({"kind": "pull", "class": "panic", "manifest": a["mkind"]}, "attempt %d: Pull panicked (in the server this kills the process: handlePull runs Pull in a bare goroutine): %s" % (k, oa["err"])))
        out += check_attempt(c, a, prev, oa["snap"], oa["err"] == "", k, oa)
        prev = oa["snap"]
    return out


def attempt_clean(c, a):
    if a["mkind"] != "ok":
        return False
    for e in a["env"].values():
        if e["cs_status"] != 200 or e["tail"] is not None or e.get("cancel"):
            return False
        for it in (e["plan"] if e["single"] is None else [e["single"]]):
            if it["fault"] != "ok":
                return False
    return True


def plans_are_partitions(c, a):
    for cont in all_layers(a):
        e = a["env"][sha(cont)]
        if e["single"] is None and e["tail"] is None and e["cs_status"] == 200 and not e.get("cancel"):
            cov = sorted((it["start"], it["len"]) for it in e["plan"])
            pos = 0
            for s_, ln in cov:
                if s_ != pos:
                    return False
                pos += ln
            if pos != len(cont) or any(it.get("bytes") is not None for it in e["plan"]):
                return False
        elif e["single"] is None:
            # a cut chunk list: its items must still be ranges of the layer
            if any(it["start"] + it["len"] > len(cont) or it.get("bytes") is not None for it in e["plan"]):
                return False
    return True


def check_attempt(c, a, prev, snap, ok, k, oa):
    out = []
    if ok:
        if a is None or a["mkind"] != "ok":
            out.append(({"kind": "pull", "class": "success-without-manifest"}, "attempt %d reported success although the registry served no valid manifest" % k))
            return out
        body = manifest_body(a)
        for cont in all_layers(a):
            if len(cont) == 0:
                continue
            st = layer_state(snap, cont)
            if st != "intact":
                # classify the minimal cause for the findings file
                was_full = len(bytes.fromhex(prev["blobs"].get("sha256-" + sha(cont), ""))) == len(cont)
                requested = oa is not None and isinstance(oa, dict) and any((" blob " + sha(cont)) in l for l in oa.get("log", []))
                pk = "partition" if c.get("plankind", ["partition"]) in ([], ["partition"]) else "nonpartition"
                out.append(({"kind": "pull", "class": "success-layer-" + st, "trusted_by_size": bool(was_full and not requested), "plan": pk},
                            "attempt %d: Pull reported success but layer %s.. (%d bytes) is %s in the cache%s" % (
                                k, sha(cont)[:8], len(cont), st, " (full-size file left by the failed attempt before was taken as cached)" if was_full and not requested else "")))
        link = snap["links"].get("/".join(NP))
        if link is None or bytes.fromhex(link) != body:
            out.append(({"kind": "pull", "class": "success-not-linked"}, "attempt %d: Pull reported success but the name is not linked to the served manifest" % k))
        if oa is not None and isinstance(oa, dict) and oa.get("resolve") != sha(body):
            out.append(({"kind": "pull", "class": "success-resolve-differs"}, "attempt %d: after success the name resolves to %s.., not to the served manifest %s.." % (k, str(oa.get("resolve"))[:8], sha(body)[:8])))
    else:
        if snap["links"] != prev["links"]:
            out.append(({"kind": "pull", "class": "failed-pull-changed-link"}, "attempt %d failed but the links changed: %s -> %s" % (k, prev["links"], snap["links"])))
    # whenever the name is linked to a manifest this case served, all its layers must be intact (linked only after)
    link = snap["links"].get("/".join(NP))
    if link is not None and link != prev["links"].get("/".join(NP)):
        for b in c["attempts"]:
            if b["mkind"] == "ok" and bytes.fromhex(link) == manifest_body(b):
                bad = [sha(x)[:8] for x in all_layers(b) if len(x) and layer_state(snap, x) != "intact"]
                if bad and not ok:
                    out.append(({"kind": "pull", "class": "linked-incomplete-model"}, "attempt %d: the name was linked while layers %s are missing or corrupt" % (k, bad)))
                break
    return out


def monitor_push_legacy(c, o):
    out = []
    order, events = legacy_events(c, o)
    man = [i for i, e in enumerate(events) if e[0] == "manifest"]
    acc = {e[1] for e in events if e[0] == "blob" and e[2]}
    if sum(1 for l in o["log"] if l.startswith("manifest-put")) > 1:
        out.append(({"kind": "push-legacy", "class": "manifest-not-last"}, "PushModel: more than one manifest PUT: %s" % o["log"]))
    if man:
        reqs = [l for l in o["log"] if not l.startswith("token ")]
        first = min(i for i, l in enumerate(reqs) if l.startswith("manifest-put") or l == "challenge manifest")
        if man[0] != len(events) - 1 or len(man) > 1 or any(not (l.startswith("manifest-put") or l == "challenge manifest") for l in reqs[first:]):
            out.append(({"kind": "push-legacy", "class": "manifest-not-last"}, "PushModel: manifest PUT is not the last request: %s" % o["log"]))
        if acc != set(range(len(order))) or any(e[0] == "blob" and not e[2] for e in events):
            out.append(({"kind": "push-legacy", "class": "manifest-before-layers"}, "PushModel: manifest PUT although not every layer was accepted: %s" % o["log"]))
    if o.get("err") == "" and (not man or not any(l == "manifest-put 200" for l in o["log"])):
        out.append(({"kind": "push-legacy", "class": "push-ok-without-manifest"}, "PushModel returned nil but the manifest was not accepted"))
    if o.get("err", "").startswith("PANIC"):
        out.append(({"kind": "push-legacy", "class": "panic"}, o["err"]))
    return out


def monitor_push(c, o):
    if c["kind"] == "push-legacy-conc":
        return monitor_push_conc(c, o)
    if c["kind"] == "push-legacy":
        return monitor_push_legacy(c, o)
    out = []
    accepted, events = push_events(c, o)
    layers = [bytes.fromhex(h) for h in c["layers"]]
    man = [i for i, e in enumerate(events) if e[0] == "manifest"]
    if man:
        if man[0] != len(events) - 1 or len(man) > 1:
            out.append(({"kind": "push", "class": "manifest-not-last"}, "manifest PUT is not the last request: %s" % events))
        if not all(accepted.get(sha(b), False) for b in layers):
            out.append(({"kind": "push", "class": "manifest-before-layers"}, "manifest PUT although not every layer was accepted: %s" % events))
    if o.get("err") == "" and (not man or c["manifest"]["status"] != 200):
        out.append(({"kind": "push", "class": "push-ok-without-manifest"}, "Push returned nil but the manifest was not accepted"))
    return out


def monitor(c, o):
    if "panic" in o:
        return [({"class": "panic"}, "harness caught a panic: %s" % o["panic"])]
    if "harness_error" in o:
        return []
    return monitor_pull(c, o) if c["kind"] == "pull" else monitor_push(c, o)


# ----------------------------------------------------------------------------- driver

def corpus_cases():
    out = []
    for p in sorted(glob.glob(os.path.join(vlib.VERIF, "corpus", "C09", "*.json"))):
        try:
            c = json.load(open(p))
            c = revive(c)
            c["klass"] = "corpus"
            out.append(c)
        except Exception:
            pass
    return out


def dump(c):
    """JSON-able copy of a spec (bytes -> hex)"""
    def conv(x):
        if isinstance(x, bytes):
            return {"__b": x.hex()}
        if isinstance(x, dict):
            return {k: conv(v) for k, v in x.items()}
        if isinstance(x, (list, tuple)):
            return [conv(v) for v in x]
        return x
    return conv(c)


def revive(c):
    def conv(x):
        if isinstance(x, dict):
            if set(x.keys()) == {"__b"}:
                return bytes.fromhex(x["__b"])
            return {k: conv(v) for k, v in x.items()}
        if isinstance(x, list):
            return [conv(v) for v in x]
        return x
    c = conv(c)
    if c.get("kind") == "pull":
        for a in c["attempts"]:
            if a.get("order") is not None:
                a["order"] = [tuple(k) for k in a["order"]]
            for e in a["env"].values():
                for it in e["plan"]:
                    pass
    return c


def exhaustive_orders(rng):
    """thorough tier: one layer of 8 bytes in 4 chunks, fully concurrent; every completion order x every single failing
    chunk x (503 | corrupt | reset) in attempt 1, clean attempt 2 (direct and through the handler for the retryable fault)"""
    import itertools
    out = []
    cont = b"abcdwxyz"
    plan = [(0, 2), (2, 2), (4, 2), (6, 2)]
    for order in itertools.permutations(range(4)):
        for bad in range(4):
            for fault in ("503", "corrupt", "reset"):
                atts = []
                for ai in range(2):
                    e = {"cs_status": 200, "tail": None, "plan": [], "single": None}
                    for k, (s_, ln) in enumerate(plan):
                        f = fault if (ai == 0 and k == bad) else "ok"
                        e["plan"].append({"start": s_, "len": ln, "resp": gen_response(rng, cont[s_:s_ + ln], f), "fault": f})
                    atts.append({"layers": [cont], "config": None, "mkind": "ok", "env": {sha(cont): e},
                                 "order": [(sha(cont), plan[k][0], plan[k][1]) for k in order]})
                out.append({"kind": "pull", "threshold": 4, "max_streams": -1, "handler": fault != "corrupt" and bad % 2 == 0, "pre": [], "attempts": atts,
                            "plankind": ["partition"], "read_timeout_ms": None, "klass": "exhaustive-orders"})
    return out


def gen_cases(ctx):
    rng = ctx.rng
    cases = corpus_cases()
    if not ctx.quick():
        cases += exhaustive_orders(rng)
    np_, npush, nleg = (220, 60, 30) if ctx.quick() else (4000, 800, 300)
    for _ in range(np_):
        cases.append(gen_pull(rng))
    for _ in range(npush):
        cases.append(gen_push(rng))
    for _ in range(nleg):
        cases.append(gen_push_legacy(rng))
    return cases


def shrink(ctx, binp, c, sig):
    if c["kind"] != "pull":
        return c
    def fails(cand):
        obs, _ = ctx.run_jsonl(binp, [to_harness(cand)], timeout=60)
        return bool(obs) and any(s.get("class") == sig.get("class") for s, _ in monitor(cand, obs[0]))
    cur = c
    # fewer attempts, then fewer layers, then no handler / no gating
    def try_(cand):
        nonlocal cur
        if fails(cand):
            cur = cand
            return True
        return False
    changed = True
    while changed and len(cur["attempts"]) > 1:
        changed = False
        for i in range(len(cur["attempts"]) - 1):
            cand = dict(cur)
            cand["attempts"] = cur["attempts"][:i] + cur["attempts"][i + 1:]
            if try_(cand):
                changed = True
                break
    for cont in list(cur["attempts"][0]["layers"]):
        if len(cur["attempts"][0]["layers"]) <= 1:
            break
        cand = dict(cur)
        cand["attempts"] = []
        for a in cur["attempts"]:
            b = dict(a)
            b["layers"] = [x for x in a["layers"] if x != cont]
            if b["order"] is not None:
                b["order"] = [k for k in a["order"] if k[0] != sha(cont)]
            cand["attempts"].append(b)
        try_(cand)
    for key, val in (("handler", False), ("pre", [])):
        cand = dict(cur)
        cand[key] = val
        try_(cand)
    cand = dict(cur)
    cand["attempts"] = [dict(a, config=None) for a in cur["attempts"]]
    try_(cand)
    return cur


def nontrivial(c, o):
    if c["kind"] in ("push", "push-legacy", "push-legacy-conc"):
        return len((o.get("log") or [])) >= 2
    if c["handler"]:
        return o.get("attempts_made", 0) >= 1 and any(s["blobs"] for s in o.get("snaps", []))
    return any(a["snap"]["blobs"] for a in o.get("attempts", []))


def run(ctx, only_cases=None):
    ctx.rule = ("cases: (a) pulls of 1-3 layers (+ optional config layer) with sizes on both sides of a lowered chunking threshold, 1-4 attempts against a "
                "scripted registry: manifest errors, chunk plans that are partitions in any listing order (or drop/overlap/exceed the layer), chunk lists cut "
                "short by bad digest / missing range / bad range / read error, per-request faults (5xx, 4xx, short, long, corrupted body, read error after any "
                "piece, retryable or not), sequential (MaxStreams=1) or fully concurrent downloads completed in a scripted order, blobs or links present "
                "beforehand, directly through Registry.Pull or through POST /api/pull (handlePull's retry loop); (b) pushes with layers already present / "
                "rejected at POST / rejected at PUT / manifest rejected. non-trivial = something was written to the cache / at least two requests; "
                "distinct = canonical JSON of the case")
    ctx.trusted = ["Coq 8.16.1 kernel + vm_compute", "hand-written model coq/Blob/Pull.v tied to the code by this differential run only",
                   "Go harness harness/cmd/c09 + add-only overlay drivers; the scripted registry replaces net/http's transport (http.RoundTripper)",
                   "python generator/monitor props/c09.py", "OS file system, crypto/sha256, errgroup, encoding/json"]
    ctx.assumptions = ["layer digests of one manifest are pairwise distinct and a chunk list does not repeat an item (the main loop reads the cache while downloads run; with repeats the outcome is schedule dependent)",
                       "the registry publishes self-consistent manifests (size = length of the content with that digest)",
                       "digests are represented by their preimages in the model instance (no SHA-256 collision among test data)",
                       "body pieces of one response are processed atomically per response in the model (they touch only their own chunk's range)"]
    # the implementation is built first so that the slow legacy-push histories (real back-off sleeps, 31-63 s each) can
    # run in processes of their own while the proof stage and all other cases are handled; they are joined at the end
    binp = ctx.go_build("c09")
    if not binp:
        ctx.proof_stage(["Blob"], "Blob/Properties_C09.v", extra_targets=["Blob/PullCorr.v"])
        return
    slow, procs = [], []
    if only_cases is None:
        import random
        import subprocess
        rng2 = random.Random(ctx.seed * 7919 + 9)
        batches = [[sc] for sc in slow_legacy_cases(rng2, 1 if ctx.quick() else 6)]
        rr = retry_run_cases(rng2, ctx.quick()) + conc_push_cases(rng2, ctx.quick())
        batches += [rr] if ctx.quick() else [rr[0::2], rr[1::2]]
        for batch in batches:
            p = subprocess.Popen([binp], stdin=subprocess.PIPE, stdout=subprocess.PIPE, stderr=subprocess.PIPE, text=True, env=vlib.goenv(), cwd=ctx.tmp)
            p.stdin.write("".join(json.dumps(to_harness(sc)) + "\n" for sc in batch))
            p.stdin.close()
            procs.append(p)
            slow.append(batch)
    ctx.proof_stage(["Blob"], "Blob/Properties_C09.v", extra_targets=["Blob/PullCorr.v"])
    if not ctx.quick():
        ctx.coqchk(["V.Blob.Properties_C09"])
    cases = only_cases if only_cases is not None else gen_cases(ctx)
    obs, err = ctx.run_jsonl(binp, [to_harness(c) for c in cases], timeout=1200)
    if obs is None or len(obs) != len(cases):
        ctx.obligation("harness c09 answered every case", False, err)
        ctx.proof_failures.append({"obligation": "correspondence: harness c09 did not answer every case", "detail": err})
        for p in procs:
            p.kill()
        return
    seen = set()
    ok = process(ctx, binp, cases, obs, seen, "cases", rerun=True)
    if procs:
        scases, sobs = [], []
        for batch, p in zip(slow, procs):
            try:
                out = p.stdout.read()
                p.wait(timeout=200)
                lines = [json.loads(l) for l in out.split("\n") if l.strip().startswith("{")]
            except Exception as ex:
                p.kill()
                lines = []
            if len(lines) != len(batch):
                detail = "answered %d of %d: %s" % (len(lines), len(batch), p.stderr.read()[-800:])
                ctx.obligation("parallel harness process (slow legacy pushes / retry runs) answered every case", False, detail)
                ctx.proof_failures.append({"obligation": "correspondence: a parallel harness process did not answer every case", "detail": detail})
                return
            scases += batch
            sobs += lines
        ctx.extra["slow_legacy_push"] = [{"commit_fail": sc["commit_fail"], "log_tail": (so.get("log") or [])[-4:], "err": so.get("err")}
                                         for sc, so in zip(scases, sobs) if sc["kind"] == "push-legacy"]
        ctx.extra["retry_runs"] = [{"klass": sc["klass"], "scripted_attempts": len(sc["attempts"]), "made": so.get("attempts_made"), "handler_ok": handler_ok(so)}
                                   for sc, so in zip(scases, sobs) if sc["kind"] == "pull"]
        ctx.extra["concurrent_legacy_pushes"] = [{"tmpl": sc.get("tmpl"), "results": so.get("results"), "timeouts": [l for l in (so.get("log") or []) if l.startswith("timeout")]}
                                                 for sc, so in zip(scases, sobs) if sc["kind"] == "push-legacy-conc"]
        process(ctx, binp, scases, sobs, seen, "slow", rerun=False)


def process(ctx, binp, cases, obs, seen, name, rerun):
    """note every case, evaluate the monitor on the implementation's observation, then the model on the same cases"""
    items = []
    for c, o in zip(cases, obs):
        ctx.note_case(dump({k: v for k, v in c.items() if k != "klass"}), nontrivial(c, o), c.get("klass"),
                      sample={"case": dump({k: v for k, v in c.items() if k not in ("attempts",)}), "impl": str(o)[:600]})
        if c["kind"] == "pull":
            for a in c["attempts"]:
                ctx.count("manifest:" + a["mkind"])
                for e in a["env"].values():
                    for it in e["plan"]:
                        ctx.count("chunk:" + it["fault"])
                    if e["single"]:
                        ctx.count("single:" + e["single"]["fault"])
                    if e["tail"]:
                        ctx.count("stream-tail:" + str(e["tail"]))
                    if e["cs_status"] != 200:
                        ctx.count("chunksums-status:%d" % e["cs_status"])
            for oa in o.get("attempts", []):
                ctx.count("result:" + (oa["err"] or "ok").split(":")[0])
            for pk in c.get("plankind", []):
                ctx.count("plan:" + pk)
        if c["kind"] == "push-legacy":
            for k in ("patch_fail", "commit_fail"):
                for n in c.get(k, {}).values():
                    ctx.count("legacy:%s=%d" % (k, n))
        for sig, what in monitor(c, o):
            key = json.dumps(sig, sort_keys=True)
            if key in seen:
                continue
            seen.add(key)
            small = shrink(ctx, binp, c, sig) if not vlib.match_known(ctx.known, sig) else c
            so = None
            if rerun:
                so, _ = ctx.run_jsonl(binp, [to_harness(small)], timeout=120)
            ctx.violation(sig, what, {"case": dump(small), "harness_case": to_harness(small), "impl": so[0] if so else o})
        items.append(render(c, o))
    bad, log = ctx.coq_eval(HEADER, items, per_file=12 if ctx.quick() else 40, name=name)
    if bad is None:
        ctx.obligation("correspondence: model evaluated on all %s" % name, False, log)
        ctx.proof_failures.append({"obligation": "correspondence evaluation failed in coqc", "detail": log})
        return False
    ctx.disagreements_checked += len(items)
    ctx.obligation("correspondence: model = implementation after every attempt on %d %s" % (len(items), name), not bad)
    for i in bad[:10]:
        ctx.mismatch("Blob/PullCorr.%s" % items[i].split(" ")[0], dump(cases[i]), obs[i], items[i][:4000])
    return True


def replay(ctx, path):
    r = json.load(open(path))
    ctx.log("replaying", path)
    rp = r.get("replay", {})
    case = rp.get("case") or (r.get("disagreements") or [{}])[0].get("case")
    if case:
        run(ctx, only_cases=[revive(case)])
    else:
        run(ctx)


MANIFEST = {
    "property_id": "C09",
    "quick_cmd": "python3 check.py C09 --tier quick",
    "thorough_cmd": "python3 check.py C09 --tier thorough",
    "evidence_file": "evidence/C09.json",
    "replay_cmd_template": "python3 check.py C09 --replay {path}",
    "engine": "coq-model+go-differential",
    "level_claimed": {
        "category": "proof",
        "text": "Coq theorems over an executable model of Registry.Pull / Chunker / handlePull's retry loop with the registry as a universally quantified "
                "environment (any manifest, any chunk plan, any per-request fault, any completion order, any number of earlier attempts): success implies "
                "every layer is in the cache with the manifest's size and digest, a failed attempt never changes the links, the name is linked only in the "
                "final step of a successful attempt; both push implementations send the manifest last and only if every layer was accepted. The code as "
                "found is refuted in Coq with the witness the harness reproduces (chunk with the last byte completes, another fails, retry trusts the size).",
        "design_ref": "DESIGN.md section 5, C09",
    },
    "level_note": "The model is hand-written and tied to the code by differential testing on the real client (state compared after every attempt); net/http is "
                  "replaced by a scripted RoundTripper; Chunker/Pull are modelled as repaired by fixes/C09-chunked-commit.patch, Link by fixes/C08-link-size-shortcut.patch.",
    "technique": "Coq proof (invariant over attempts, case analysis of the attempt's stages) + model/implementation differential check with fault and schedule control",
}
