"""C08 - blob cache entries of the right size always have the right content.

Tie (S): histories of Put/PutBytes/Import/Get/Link/Unlink/Resolve (+ hand-edited manifest files) with scripted
misbehaving readers and crash points (child process SIGKILLed at its k-th Read) run on the REAL blob.DiskCache in a
temp dir; after *every* operation the whole directory (every blob file, every manifest file) and the result are
compared with the Coq model (Blob/Model.v, evaluated by vm_compute).  Concurrent Puts of one digest are interleaved
deterministically at Read/Write granularity by gated readers and compared step by step with the model's labelled
transition system.  Monitor: the property itself on the implementation's observations (re-hash whenever Get reports
the intended size; Put ok => retrievable; Link ok => blob present; Resolve after Link => the linked digest = hash of
the manifest bytes).
"""
import glob
import hashlib
import json
import os

from lib import vlib
from lib.vlib import cq_bytes, cq_list, cq_bool, cq_nat

SETUP_BUILDS = [{"name": "c08"}]
COQ_TARGETS = ["Blob/Properties_C08.v", "Blob/Corr.v", "Blob/ChunkCorr.v"]
HEADER = ("From Coq Require Import List NArith Bool.\nFrom V Require Import Common.Bytes Blob.Model Blob.Corr Blob.Pull Blob.ChunkCorr.\n"
          "Import ListNotations.\nOpen Scope N_scope.\n")
FIXED = True   # the model describes Link as repaired by fixes/C08-link-size-shortcut.patch

ERRS = {"underfoot": "EUnderfoot", "exceeds": "EExceeds", "source": "ESource", "ueof": "EUnexpectedEOF",
        "notexist": "ENotExist", "invalidname": "EInvalidName", "sizemismatch": "ESizeMismatch", "invaliddigest": "EInvalidDigest"}
INVALID_NAMES = ["", "m", "n/m:t", "h/n/m", "h/n/m/t", "h/n./m:t", "-h/n/m:t", "h//m:t"]


def sha(b):
    return hashlib.sha256(b).hexdigest()


def hx(b):
    return b.hex()


# ----------------------------------------------------------------------------- generation

def rnd_content(rng, n):
    return bytes(rng.choice(b"abcdxyz\x00\x01\xff") for _ in range(n))


def split(rng, b, k):
    """k cut points -> k+1 pieces (possibly empty)"""
    cuts = sorted(rng.randrange(0, len(b) + 1) for _ in range(k))
    out, last = [], 0
    for c in cuts + [len(b)]:
        out.append(b[last:c])
        last = c
    return out


def mk_src(rng, content, kind):
    """a scripted reader for the intended content; kinds follow the case split of the proofs (w_read / cw_check)"""
    n = len(content)
    pieces = split(rng, content, rng.randint(0, 3))
    if rng.random() < 0.6:
        pieces = [p for p in pieces if p]
    src = [[p, "more"] for p in pieces]
    if kind == "honest":
        pass
    elif kind == "honest-eof":          # last Read returns data together with io.EOF
        if src:
            src[-1][1] = "eof"
    elif kind == "short":               # source ends early
        cut = rng.randrange(0, n) if n else 0
        src = [[p, "more"] for p in split(rng, content[:cut], rng.randint(0, 2)) if p or rng.random() < 0.3]
    elif kind == "long-same":           # too many bytes, the excess inside the write that would have been final
        if not src:
            src = [[b"", "more"]]
        src[-1][0] = src[-1][0] + rnd_content(rng, rng.randint(1, 3))
    elif kind == "long-after":          # correct content, then more
        src.append([rnd_content(rng, rng.randint(1, 3)), rng.choice(["more", "eof"])])
    elif kind == "corrupt":             # same length, one byte flipped
        if n:
            i = rng.randrange(n)
            bad = content[:i] + bytes([content[i] ^ 0x20]) + content[i + 1:]
            src = [[p, "more"] for p in split(rng, bad, rng.randint(0, 3)) if p]
    elif kind == "corrupt-last":        # right length, last byte wrong (only the final write can tell)
        if n:
            bad = content[:-1] + bytes([content[-1] ^ 0x01])
            src = [[p, "more"] for p in split(rng, bad, rng.randint(0, 3)) if p]
    elif kind == "wrong-samelen":       # right length, other content
        bad = bytes((b ^ 0x15) for b in content)
        src = [[p, "more"] for p in split(rng, bad, rng.randint(0, 3)) if p]
    elif kind == "err":                 # reader error at some point, with or without data
        cut = rng.randrange(0, len(src) + 1)
        src = src[:cut]
        if src and rng.random() < 0.5:
            src[-1][1] = "err"
        else:
            src.append([b"" if rng.random() < 0.6 else rnd_content(rng, 1), "err"])
    elif kind == "junk":
        src = [[p, "more"] for p in split(rng, rnd_content(rng, rng.randint(0, n + 3)), rng.randint(0, 2)) if p]
    return [{"data": hx(p), "st": st} for p, st in src]


SRC_KINDS = ["honest", "honest", "honest-eof", "short", "long-same", "long-after", "corrupt", "corrupt-last", "wrong-samelen", "err", "junk"]


def src_total(src):
    out = b""
    for r in src:
        out += bytes.fromhex(r["data"])
        if r["st"] != "more":
            break
    return out


def is_honest(src, content):
    """delivers exactly the content (any chunking, optional EOF flag on the last read), no error"""
    tot = b""
    for i, r in enumerate(src):
        if r["st"] == "err":
            return False
        tot += bytes.fromhex(r["data"])
        if r["st"] == "eof":
            if i != len(src) - 1:
                return tot == content
    return tot == content


def rnd_name(rng, base):
    h, n, m, t = base
    def cs(s):
        return "".join(ch.upper() if rng.random() < 0.3 else ch for ch in s)
    return "%s/%s/%s:%s" % (cs(h), cs(n), cs(m), cs(t))


def split_name(s):
    """names.Parse: the four parts (host, namespace, model, tag) as the parser cuts them, without any validation"""
    h = n = m = t = ""
    if len(s) > 350 + 1 + 80 + 1 + 80 + 1 + 80:
        return ("", "", "", "")
    while True:
        i = max(s.rfind("/"), s.rfind(":"))
        if i < 0:
            m = s
            break
        c, before, after = s[i], s[:i], s[i + 1:]
        if c == ":":
            t = after
            s = before
            continue
        j = before.rfind("/")
        h, n = (before[:j], before[j + 1:]) if j >= 0 else ("", before)
        m = after
        break
    return (h, n, m, t)


def valid_part(kind, s):
    """names.isValidPart (kind: 0 host, 1 namespace, 2 model, 3 tag)"""
    if len(s) > (350 if kind == 0 else 80):
        return False
    for i, ch in enumerate(s):
        alnum = ch.isascii() and (ch.isalnum() or ch == "_")
        if i == 0:
            if not alnum:
                return False
            continue
        if ch in "_-":
            continue
        if ch == ".":
            if kind == 1:
                return False
            continue
        if ch == ":":
            if kind != 0:
                return False
            continue
        if not alnum:
            return False
    return True


def name_to_path(name):
    """python twin of nameToPath (names.Parse + IsFullyQualified + filepath.Join); None = invalid name"""
    if "@" in name:
        return None
    parts = split_name(name)
    if any(p == "" for p in parts) or not all(valid_part(k, p) for k, p in enumerate(parts)):
        return None
    return list(parts)


# parts that are syntactically plausible but odd: dots, leading - and _, trailing dot, port, maximal and over-long parts
ODD_PARTS = [
    ["h", "H", "reg.io", "h:5000", "_h", "h.", ".", "..", ".x", "..x", "-h", "h" * 200, "h" * 351],
    ["n", "N", "_n", "n-1", "n.", ".", "..", ".n", "-n", "n" * 80, "n" * 81],
    ["m", "M", "m.", "_m", "mod-1", ".", "..", ".m", "..m", "-m", "m" * 80, "m" * 81],
    ["t", "T", "v1.0", "t.", "_t", ".", "..", ".t", "-t", "t" * 80, "t" * 81],
]


STAGING_SUFFIXES = [".tmp", ".partial", ".chunked", "~", ".lock", "-1", ".tmp", ".tmp"]


def odd_name(rng):
    parts = []
    for k in range(4):
        parts.append(rng.choice(ODD_PARTS[k]) if rng.random() < 0.35 else ODD_PARTS[k][0])
    return "%s/%s/%s:%s" % tuple(parts)


def gen_hist(rng, klass=None):
    ncont = rng.randint(2, 4)
    size0 = rng.randint(1, 12)
    pool = []
    for i in range(ncont):
        if i == 1 and rng.random() < 0.7:
            pool.append(rnd_content(rng, len(pool[0])) if len(pool[0]) else b"q")   # same size as the first (Link shortcut)
        elif rng.random() < 0.12:
            pool.append(b"")
        else:
            pool.append(rnd_content(rng, size0 if rng.random() < 0.3 else rng.randint(1, 40)))
    pool = list(dict.fromkeys(pool))
    bases = [("h", "n", "m", "t"), ("h", "n", "m", "u"), ("reg.io", "ns", "mod-1", "v1.0")]
    # several distinct names per history, some with odd parts (valid or not); they are used repeatedly so that a name
    # rejected (or accepted) once meets Link, Resolve and Unlink
    odd = [odd_name(rng) for _ in range(rng.randint(1, 4))]

    # sibling names that differ by a suffix a staging scheme might use for its own files
    if rng.random() < 0.5:
        h0, n0, m0, t0 = rng.choice(bases)
        for _ in range(rng.randint(1, 3)):
            suf = rng.choice(STAGING_SUFFIXES)
            which = rng.choice(["t", "t", "t", "m", "h"])
            odd.append("%s/%s/%s:%s" % (h0 + suf if which == "h" else h0, n0, m0 + suf if which == "m" else m0, t0 + suf if which == "t" else t0))

    def pick_name():
        r = rng.random()
        if r < 0.45:
            return rnd_name(rng, rng.choice(bases))
        if r < 0.93:
            return rng.choice(odd)
        return rng.choice(INVALID_NAMES)
    ops = []
    nops = rng.randint(3, 10)
    for _ in range(nops):
        c = rng.choice(pool)
        d = sha(c)
        r = rng.random()
        if r < 0.40:
            kind = rng.choice(SRC_KINDS)
            size = len(c)
            if rng.random() < 0.06:
                size = max(0, size + rng.choice([-2, -1, 1, 3]))
            op = {"op": "put", "d": d, "size": size, "src": mk_src(rng, c, kind), "k": kind}
            if rng.random() < 0.25:
                op["bytes"] = True
                data = c if rng.random() < 0.6 else rnd_content(rng, rng.choice([len(c), len(c), rng.randint(0, 6)]))
                op["src"] = [{"data": hx(data), "st": "more"}]
            elif rng.random() < 0.40:
                nchunks = sum(1 for r_ in op["src"] if r_["data"])
                if nchunks and rng.random() < 0.5:
                    # the process dies right after its k-th write to the file returned (k up to and including the last write,
                    # i.e. also between the final write and whatever clean-up follows it)
                    if rng.random() < 0.7:
                        op["k"] = rng.choice(["wrong-samelen", "corrupt-last", "corrupt", "long-same", "long-after", "short", "honest"])
                        op["src"] = mk_src(rng, c, op["k"])
                        nchunks = sum(1 for r_ in op["src"] if r_["data"])
                    if nchunks:
                        op["wcrash"] = rng.randint(1, nchunks) if rng.random() < 0.5 else nchunks
                    else:
                        op["crash"] = rng.randint(0, len(op["src"]) + 2)
                else:
                    op["crash"] = rng.randint(0, len(op["src"]) + 2)
            ops.append(op)
            if op.get("crash") is not None or op.get("wcrash") is not None:
                # what the dead writer left is met by the next writer of the same blob
                if rng.random() < 0.8:
                    if rng.random() < 0.8:
                        ops.append({"op": "put", "d": d, "size": len(c), "src": mk_src(rng, c, rng.choice(["honest", "honest-eof"])), "k": "honest-after-crash"})
                    else:
                        ops.append({"op": "import", "src": mk_src(rng, c, "honest"), "size": len(c)})
                    ops.append({"op": "get", "d": d})
        elif r < 0.48:
            src = mk_src(rng, c, rng.choice(["honest", "honest-eof", "err", "short", "long-after"]))
            size = len(src_total(src)) if rng.random() < 0.7 else len(c)
            ops.append({"op": "import", "src": src, "size": size})
        elif r < 0.55:
            ops.append({"op": "get", "d": d})
        elif r < 0.75:
            name = pick_name()
            ops.append({"op": "link", "name": name, "d": d})
            if rng.random() < 0.7:
                ops.append({"op": "resolve", "name": pick_name() if rng.random() < 0.2 else name})
        elif r < 0.85:
            name = pick_name()
            if rng.random() < 0.12:     # name@digest: the digest is returned as is, nothing else happens
                name = rng.choice([name, "", "m"]) + "@" + rng.choice(["sha256:" + d, "sha256-" + d, "sha256:" + d[:-1], "x", "md5:" + d, ""])
            ops.append({"op": "resolve", "name": name})
        elif r < 0.93:
            name = pick_name()
            ops.append({"op": "unlink", "name": name})
        else:
            b = rng.choice(bases)
            p = "/".join(name_to_path(rnd_name(rng, b)))
            ops.append({"op": "raw", "path": p, "data": hx(rng.choice(pool) if rng.random() < 0.6 else rnd_content(rng, rng.randint(0, 9)))})
    return {"kind": "hist", "pool": [hx(c) for c in pool], "digests": [sha(c) for c in pool], "ops": ops, "klass": klass or "hist",
            "clock": rng.choice(["frozen", "frozen", "coarse", "normal"]),
            "probe": sorted({op["name"] for op in ops if op["op"] in ("link", "resolve", "unlink") and "@" not in op["name"]})}


def gen_relink_hist(rng):
    """Resolve - relink to another manifest of the same length - Resolve, repeatedly, under a clock that does not advance
    (or advances coarsely): whatever Resolve remembers about a name must not outlive a Link, an Unlink or a hand edit"""
    n = rng.randint(1, 12)
    pool = []
    while len(pool) < 3:
        c = rnd_content(rng, n)
        if c not in pool:
            pool.append(c)
    names = ["h/n/m:t", "reg.io/ns/mod-1:v1.0"]
    ops = [{"op": "put", "d": sha(c), "size": len(c), "src": mk_src(rng, c, "honest"), "k": "honest"} for c in pool]
    cur = {}
    for _ in range(rng.randint(3, 7)):
        name = rng.choice(names)
        r = rng.random()
        if r < 0.6:
            d = sha(rng.choice([c for c in pool if sha(c) != cur.get(name)]))
            ops.append({"op": "link", "name": rnd_name(rng, tuple(name_to_path(name))) if rng.random() < 0.3 else name, "d": d})
            cur[name] = d
        elif r < 0.7:
            ops.append({"op": "unlink", "name": name})
            cur.pop(name, None)
        elif r < 0.8:
            c = rng.choice(pool)
            ops.append({"op": "raw", "path": "/".join(name_to_path(name)), "data": hx(c)})     # hand edit, same length
            cur[name] = sha(c)
        ops.append({"op": "resolve", "name": name})
        if rng.random() < 0.3:
            ops.append({"op": "resolve", "name": name})
    return {"kind": "hist", "pool": [hx(c) for c in pool], "digests": [sha(c) for c in pool], "ops": ops, "klass": "hist-relink",
            "clock": rng.choice(["frozen", "frozen", "frozen", "coarse", "normal"]), "probe": names}


def gen_staging_hist(rng):
    """two or three intact manifests of one length, a name and its siblings with staging-like suffixes, left-over files
    planted next to the manifests: Link / Resolve / Unlink in random order"""
    n = rng.randint(1, 9)
    pool = []
    while len(pool) < rng.randint(2, 3):
        c = rnd_content(rng, n)
        if c not in pool:
            pool.append(c)
    h, ns, m, t = rng.choice([("h", "n", "m", "t"), ("reg.io", "ns", "mod-1", "v1")])
    names = ["%s/%s/%s:%s" % (h, ns, m, t)]
    for suf in rng.sample([".tmp", ".partial", ".chunked", ".lock", "-1", "~"], rng.randint(1, 3)):
        which = rng.choice(["t", "t", "t", "m"])
        names.append("%s/%s/%s:%s" % (h, ns, m + suf if which == "m" else m, t + suf if which == "t" else t))
    ops = [{"op": "put", "d": sha(c), "size": len(c), "src": mk_src(rng, c, "honest"), "k": "honest"} for c in pool]
    for _ in range(rng.randint(3, 8)):
        r = rng.random()
        name = rng.choice(names)
        if r < 0.55:
            ops.append({"op": "link", "name": name if rng.random() < 0.8 else name.upper(), "d": sha(rng.choice(pool))})
            if rng.random() < 0.6:
                ops.append({"op": "resolve", "name": name})      # a Resolve between relinks (warms whatever Resolve remembers)
        elif r < 0.75:
            ops.append({"op": "resolve", "name": name})
        elif r < 0.85:
            ops.append({"op": "unlink", "name": name})
        else:
            # a left-over file of an interrupted staging scheme (or a hand edit) next to the manifests
            p = name_to_path(name)
            if p is not None:
                ops.append({"op": "raw", "path": "/".join(p[:3] + [p[3] + rng.choice([".tmp", ".partial", "~", ".lock"])]),
                            "data": hx(rng.choice(pool) if rng.random() < 0.7 else rnd_content(rng, n))})
    return {"kind": "hist", "pool": [hx(c) for c in pool], "digests": [sha(c) for c in pool], "ops": ops, "klass": "hist-staging",
            "clock": rng.choice(["frozen", "frozen", "coarse", "normal"]),
            "probe": sorted({op["name"] for op in ops if op["op"] in ("link", "resolve", "unlink")})}


def chunk_plan(rng, c, kind):
    """list of (start, bytes the chunk claims to be) for a blob c; 'partition' covers c exactly, the other kinds have the
    blob's byte total (what a byte counter sees) without being the blob"""
    n = len(c)
    if kind in ("dupgap", "shifted") or (kind == "partition" and rng.random() < 0.3):
        g = rng.choice([x for x in (1, 2, 3, 4) if n % x == 0 and n // x >= 3] or [1])
        bounds = list(range(0, n + 1, g))
    else:
        k = rng.randint(1, min(4, n))
        bounds = [0] + (sorted(rng.sample(range(1, n), k - 1)) if k > 1 else []) + [n]
    plan = [(bounds[i], c[bounds[i]:bounds[i + 1]]) for i in range(len(bounds) - 1)]
    if kind == "dupgap" and len(plan) >= 3:
        # one range delivered twice, another of equal length missing, the last range present
        i, j = rng.sample(range(len(plan) - 1), 2)
        plan[j] = plan[i]
    elif kind == "shifted" and len(plan) >= 2:
        i = rng.randrange(len(plan))
        s0, part = plan[i]
        cands = [x for x in range(0, n - len(part) + 1) if x != s0]
        if cands:
            x = rng.choice(cands)
            plan[i] = (x, c[x:x + len(part)])
    elif kind == "overlap" and len(plan) >= 3:
        # a middle chunk is replaced by one of the same length inside a range that is covered anyway
        j = rng.randrange(1, len(plan) - 1)
        g = len(plan[j][1])
        cands = [x for x in range(0, n - g + 1) if (x + g <= plan[j][0] or x >= plan[j][0] + g) and all((x, c[x:x + g]) != q for q in plan)]
        if cands:
            x = rng.choice(cands)
            plan[j] = (x, c[x:x + g])
    elif kind == "wrongbytes":
        # every chunk is consistent with its own digest, but one of them is not the blob's bytes
        i = rng.randrange(len(plan))
        s0, part = plan[i]
        bad = bytes((b ^ 0x20) for b in part)
        plan[i] = (s0, bad)
    if rng.random() < 0.5:
        rng.shuffle(plan)
    return plan


CHUNK_KINDS = ["partition", "partition", "partition", "dupgap", "dupgap", "shifted", "overlap", "wrongbytes", "wrongbytes"]


def gen_chunk_hist(rng):
    """histories that mix the chunked writer (DiskCache.Chunked / Chunker.Put / Commit, chunked.go) with Put, Import and Get
    on the same digests; compared with the model (Blob/ChunkCorr.v) and monitored"""
    pool = list(dict.fromkeys(rnd_content(rng, rng.choice([4, 6, 6, 8, 9, 12])) for _ in range(rng.randint(1, 2))))
    ops = []
    for _ in range(rng.randint(2, 6)):
        c = rng.choice(pool)
        d = sha(c)
        r = rng.random()
        if r < 0.6:
            kind = rng.choice(CHUNK_KINDS)
            chunks = []
            for (st, part) in chunk_plan(rng, c, kind):
                if kind == "partition" and rng.random() < 0.2:
                    continue                       # this chunk never arrives
                sk = rng.choice(["honest", "honest", "honest", "short", "corrupt", "err", "long-after"]) if kind == "partition" else rng.choice(["honest", "honest-eof"])
                chunks.append({"start": st, "len": len(part), "d": sha(part), "bytes": hx(part), "src": mk_src(rng, part, sk), "k": sk})
            ops.append({"op": "chunked", "d": d, "size": len(c), "chunks": chunks, "commit": rng.random() < 0.85, "plan": kind})
        elif r < 0.78:
            ops.append({"op": "put", "d": d, "size": len(c), "src": mk_src(rng, c, rng.choice(SRC_KINDS)), "k": "mixed"})
        elif r < 0.88:
            src = mk_src(rng, c, rng.choice(["honest", "honest-eof", "junk"]))
            ops.append({"op": "import", "src": src, "size": len(src_total(src))})
        else:
            ops.append({"op": "get", "d": d})
    return {"kind": "hist", "pool": [hx(c) for c in pool], "digests": [sha(c) for c in pool], "ops": ops, "klass": "hist-chunked", "chunked": True}


def gen_conc(rng):
    c = rnd_content(rng, rng.randint(2, 12))
    r = rng.random()
    if r < 0.5:
        f0 = None
    elif r < 0.65:
        f0 = b""
    elif r < 0.9:
        f0 = rnd_content(rng, rng.randint(1, len(c) - 1))
    else:
        f0 = rnd_content(rng, len(c) + rng.randint(1, 3))
    nw = rng.randint(2, 3)
    allhonest = rng.random() < 0.5
    writers = []
    for _ in range(nw):
        kind = rng.choice(["honest", "honest-eof"]) if allhonest else rng.choice(SRC_KINDS)
        writers.append({"size": len(c), "src": mk_src(rng, c, kind), "k": kind})
    sched = []
    budget = [len(w["src"]) + 2 for w in writers]
    alive = [i for i in range(nw)]
    crashed = set(i for i in range(nw) if rng.random() < 0.15)
    while alive:
        i = rng.choice(alive)
        sched.append(i)
        budget[i] -= 1
        if budget[i] <= 0 or (i in crashed and rng.random() < 0.4):
            alive.remove(i)
    return {"kind": "conc", "d": sha(c), "content": hx(c), "f0": None if f0 is None else hx(f0), "writers": writers, "sched": sched,
            "klass": "conc-honest" if allhonest else "conc-mixed"}


ODD_DIRS = ["models[v2]", "[1]", "*", "?", "{a,b}", "back\\slash", "with space", "m\u00f6d\u00e8ls\u2603", "dot.", "x" * 200, "a[b", "**"]


def gen_bytes(seed, n):
    """the harness's verifGen: SHA-256("verif-<seed>") repeated up to n bytes"""
    blk = hashlib.sha256(("verif-%d" % seed).encode()).digest()
    return (blk * (n // 32 + 1))[:n]


def gen_large_hist(rng, k):
    """blobs around plausible size thresholds (64 KiB, 1 MiB, 4 MiB; content generated on both sides): a writer that dies at a
    sampled write boundary (or Read boundary) with an honest / flipped / short / long source, then an honest Put of the same
    digest and a Get.  Monitored only (digest and size of every blob file after every operation)."""
    n = [65536, 65537, 1 << 20, (1 << 20) + 1, (1 << 20) - 1, 4 << 20, 100000, 3 << 20][k % 8]
    seed = rng.randrange(1000)
    content = gen_bytes(seed, n)
    d = sha(content)
    chunk = rng.choice([32768, 32768, 8192])
    nch = (n + chunk - 1) // chunk
    ops = []
    for _ in range(rng.randint(1, 2)):
        kind = rng.choice(["honest", "flip", "flip-last", "short", "long"])
        g = {"seed": seed, "len": n, "chunk": chunk, "flip": -1, "cut": -1, "extra": 0}
        if kind == "flip":
            g["flip"] = rng.randrange(n)
        elif kind == "flip-last":
            g["flip"] = n - 1
        elif kind == "short":
            g["cut"] = rng.randrange(1, n)
        elif kind == "long":
            g["extra"] = rng.randint(1, 5)
        op = {"op": "put", "d": d, "size": n, "src": {"gen": g}, "k": kind}
        r = rng.random()
        if r < 0.6:
            op["wcrash"] = rng.choice([1, 2, nch, nch, rng.randint(1, nch), max(1, nch - 1)])
        elif r < 0.85:
            op["crash"] = rng.choice([1, 2, rng.randint(1, nch + 1)])
        ops.append(op)
        ops.append({"op": "get", "d": d})
        ops.append({"op": "put", "d": d, "size": n, "src": {"gen": {"seed": seed, "len": n, "chunk": chunk, "flip": -1, "cut": -1, "extra": 0}}, "k": "honest-after"})
        ops.append({"op": "get", "d": d})
    return {"kind": "hist", "large": True, "pool": [], "digests": [d], "sizes": {d: n}, "ops": ops, "klass": "hist-large", "clock": "normal"}


def monitor_large(c, o):
    out = []
    for i, (op, st) in enumerate(zip(c["ops"], o["steps"])):
        snap, res = st["snap"], st["res"]
        for d, n in c["sizes"].items():
            if snap["gets"].get(d, -1) == n:
                got = (snap.get("bsum") or {}).get("sha256-" + d)
                if not got or got[0] != d:
                    out.append(({"kind": "hist", "class": "size-ok-content-bad", "large": True},
                                "after op %d (%s %s%s) Get reports the %d-byte blob %s.. with its stored size but the file hashes to %s.." % (
                                    i, op["op"], op.get("k", ""), " wcrash=%s" % op["wcrash"] if "wcrash" in op else (" crash=%s" % op["crash"] if "crash" in op else ""),
                                    n, d[:8], (got or ["?"])[0][:8])))
        if op["op"] == "put" and res.get("kind") == "ok" and snap["gets"].get(op["d"], -1) != op["size"]:
            out.append(({"kind": "hist", "class": "put-ok-not-retrievable", "large": True}, "op %d: Put returned nil but Get reports %s" % (i, snap["gets"].get(op["d"]))))
    return out


def corpus_cases():
    out = []
    for p in sorted(glob.glob(os.path.join(vlib.VERIF, "corpus", "C08", "*.json"))):
        try:
            c = json.load(open(p))
            c["klass"] = "corpus"
            out.append(c)
        except Exception:
            pass
    return out


def exhaustive_conc(rng):
    """thorough tier: two writers of one 4-byte blob, every source kind pair, every interleaving of up to 3 steps each,
    over an absent / shorter prior file"""
    import itertools
    out = []
    c = b"abcd"
    kinds = ["honest", "honest-eof", "short", "long-after", "corrupt", "err"]
    for ka, kb in itertools.product(kinds, repeat=2):
        wa = {"size": 4, "src": mk_src(rng, c, ka), "k": ka}
        wb = {"size": 4, "src": mk_src(rng, c, kb), "k": kb}
        for f0 in (None, b"z"):
            na, nb = min(3, len(wa["src"]) + 2), min(3, len(wb["src"]) + 2)
            for pos in itertools.combinations(range(na + nb), na):
                sched = [0 if i in pos else 1 for i in range(na + nb)]
                out.append({"kind": "conc", "d": sha(c), "content": hx(c), "f0": None if f0 is None else hx(f0), "writers": [wa, wb], "sched": sched,
                            "klass": "exhaustive-conc"})
    return out


def exhaustive_crash(rng):
    """thorough tier: every source kind x every crash point, followed by an honest Put"""
    out = []
    for n in (1, 5):
        c = rnd_content(rng, n)
        for kind in SRC_KINDS:
            src = mk_src(rng, c, kind)
            for k in range(0, len(src) + 3):
                ops = [{"op": "put", "d": sha(c), "size": len(c), "src": src, "k": kind, "crash": k},
                       {"op": "get", "d": sha(c)},
                       {"op": "put", "d": sha(c), "size": len(c), "src": mk_src(rng, c, "honest"), "k": "honest"},
                       {"op": "get", "d": sha(c)}]
                out.append({"kind": "hist", "pool": [hx(c)], "digests": [sha(c)], "ops": ops, "klass": "exhaustive-crash"})
    return out


def gen_cases(ctx):
    rng = ctx.rng
    cases = corpus_cases()
    if not ctx.quick():
        cases += exhaustive_conc(rng) + exhaustive_crash(rng)
    nh, nc = (260, 140) if ctx.quick() else (6000, 3000)
    for _ in range(nh):
        cases.append(gen_hist(rng))
    for _ in range(nh // 5):
        cases.append(gen_chunk_hist(rng))
    for _ in range(nh // 5):
        cases.append(gen_staging_hist(rng))
    for _ in range(nh // 6):
        cases.append(gen_relink_hist(rng))
    for _ in range(nc):
        cases.append(gen_conc(rng))
    for k in range(8 if ctx.quick() else 64):
        cases.append(gen_large_hist(rng, k))
    # a share of all histories runs in a cache directory with an odd but legal name
    for c in cases:
        if c.get("klass") != "corpus" and rng.random() < 0.3:
            c["dirname"] = rng.choice(ODD_DIRS)
    return cases


# ----------------------------------------------------------------------------- rendering into Coq

def cq_src(src):
    return cq_list(["(%s, %s)" % (cq_bytes(bytes.fromhex(r["data"])), {"more": "RMore", "eof": "REof", "err": "RErr"}[r["st"]]) for r in src], "rd")


def cq_path(p):
    return cq_list([cq_bytes(x.encode()) for x in p], "str")


def cq_np(name):
    p = name_to_path(name)
    return "(@None path)" if p is None else "(Some %s)" % cq_path(p)


def cq_crash(k):
    return "(@None (nat * option nat))" if k is None else "(Some (%s, @None nat))" % cq_nat(k)


def render_op(op, pre):
    o = op["op"]
    if o == "put" and op.get("wcrash") is not None:
        # WriteTo source: one Write per non-empty chunk; the process is killed after the k-th Write call returned.  In the
        # model that is a crash between two steps: after the step of chunk k if that write was admitted, before it if it was
        # refused (a refused write changes nothing and the clean-up has not run yet); a refusal before chunk k ends the Put
        chunks = [bytes.fromhex(r["data"]) for r in op["src"] if r["data"]]
        n, acc, k = 0, b"", op["wcrash"]
        msrc, crash = chunks, None
        for i, p_ in enumerate(chunks, 1):
            nxt = n + len(p_)
            refused = (nxt == op["size"] and sha(acc + p_) != op["d"]) or nxt > op["size"]
            if i == k:
                msrc, crash = chunks[:i], (i if refused else i + 1)
                break
            if refused:
                msrc, crash = chunks[:i], None
                break
            n, acc = nxt, acc + p_
        return "(OPut %s %s %s %s)" % (cq_bytes(pre[op["d"]]), cq_nat(op["size"]), cq_src([{"data": hx(x), "st": "more"} for x in msrc]), cq_crash(crash))
    if o == "put":
        src = op["src"]
        if op.get("bytes"):
            src = [r for r in src[:1] if r["data"]]
        return "(OPut %s %s %s %s)" % (cq_bytes(pre[op["d"]]), cq_nat(op["size"]), cq_src(src), cq_crash(op.get("crash")))
    if o == "import":
        return "(@OImport Dg %s %s)" % (cq_src(op["src"]), cq_nat(op["size"]))
    if o == "get":
        return "(OGet %s)" % cq_bytes(pre[op["d"]])
    if o == "link":
        return "(OLink %s %s)" % (cq_np(op["name"]), cq_bytes(pre[op["d"]]))
    if o == "unlink":
        return "(@OUnlink Dg %s)" % cq_np(op["name"])
    if o == "resolve":
        if "@" in op["name"] and op["name"].rsplit("@", 1)[1] == "":
            return "(@OResolve Dg %s)" % cq_np(op["name"].rsplit("@", 1)[0])       # empty digest part: resolved by name
        if "@" in op["name"]:
            dg = op["name"].rsplit("@", 1)[1]
            ok = dg[:7] in ("sha256:", "sha256-") and dg[7:] in pre
            return "(@OResolveAt Dg %s)" % ("(Some %s)" % cq_bytes(pre[dg[7:]]) if ok else "(@None Dg)")
        return "(@OResolve Dg %s)" % cq_np(op["name"])
    if o == "raw":
        return "(@ORaw Dg %s %s)" % (cq_path(op["path"].split("/")), cq_bytes(bytes.fromhex(op["data"])))
    raise ValueError(o)


def render_out(res, pre):
    k = res.get("kind")
    if k == "ok":
        return "(@OutOk Dg)"
    if k == "crashed":
        return "(@OutCrashed Dg)"
    if k == "err":
        e = ERRS.get(res.get("err"))
        return "(@OutErr Dg %s)" % e if e else None
    if k == "size":
        return "(@OutSize Dg %s)" % cq_nat(res["n"])
    if k == "bool":
        return "(@OutBool Dg %s)" % cq_bool(res["b"])
    if k == "digest":
        return "(@OutDigest Dg %s)" % cq_bytes(pre[res["d"]]) if res["d"] in pre else None
    return None


def preimages(c, o):
    """sha256 hex -> bytes for everything whose digest can legitimately appear in this case"""
    pre = {}
    def add(b):
        pre[sha(b)] = b
    for h in c.get("pool", []):
        add(bytes.fromhex(h))
    add(b"")
    for op in c.get("ops", []):
        if "src" in op:
            add(src_total(op["src"]))
        if op.get("op") == "raw":
            add(bytes.fromhex(op["data"]))
        for ch in op.get("chunks", []):
            add(bytes.fromhex(ch["bytes"]))
    for st in o.get("steps", []):
        snap = st.get("snap", {})
        for v in list(snap.get("blobs", {}).values()) + list(snap.get("links", {}).values()):
            add(bytes.fromhex(v))
    return pre


def render_snap(snap, pre):
    bl = []
    for name, content in sorted(snap["blobs"].items()):
        if not name.startswith("sha256-") or name[7:] not in pre:
            return None
        bl.append("(%s, %s)" % (cq_bytes(pre[name[7:]]), cq_bytes(bytes.fromhex(content))))
    ln = []
    for p, content in sorted(snap["links"].items()):
        ln.append("(%s, %s)" % (cq_path(p.split("/")), cq_bytes(bytes.fromhex(content))))
    return "(%s, %s)" % (cq_list(bl, "(Dg * list N)%type"), cq_list(ln, "(path * list N)%type"))


CRES = {"": "COk", "underfoot": "(CFail PChecksum)", "ueof": "(CFail PShort)", "source": "(CFail (PRead false))"}


def cq_chunk(ch):
    pieces, tail = [], "None"
    for r in ch["src"]:
        pieces.append(cq_bytes(bytes.fromhex(r["data"])))
        if r["st"] == "eof":
            break
        if r["st"] == "err":
            tail = "(Some (PRead false))"
            break
    return "((%s, %s, %s), CBody %s %s)" % (cq_bytes(bytes.fromhex(ch["bytes"])), cq_nat(ch["start"]), cq_nat(ch["len"]), cq_list(pieces, "(list N)"), tail)


def render_xsnap(snap, pre):
    bl, pa = [], []
    for name, content in sorted(snap["blobs"].items()):
        part = name.endswith(".chunked")
        base = name[:-8] if part else name
        if not base.startswith("sha256-") or base[7:] not in pre:
            return None
        (pa if part else bl).append("(%s, %s)" % (cq_bytes(pre[base[7:]]), cq_bytes(bytes.fromhex(content))))
    ln = ["(%s, %s)" % (cq_path(p.split("/")), cq_bytes(bytes.fromhex(v))) for p, v in sorted(snap["links"].items())]
    ty = "(Dg * list N)%type"
    return "(%s, %s, %s)" % (cq_list(bl, ty), cq_list(pa, ty), cq_list(ln, "(path * list N)%type"))


def render_xhist(c, o):
    pre = preimages(c, o)
    ops, obs = [], []
    for op, st in zip(c["ops"], o["steps"]):
        sn = render_xsnap(st["snap"], pre)
        if sn is None:
            return "false"
        if op["op"] == "chunked":
            ops.append("(XChunked %s %s %s %s)" % (cq_bytes(pre[op["d"]]), cq_nat(op["size"]), cq_list([cq_chunk(ch) for ch in op["chunks"]], "xchunk"), cq_bool(op["commit"])))
            res = st["res"]
            puts = [CRES.get(x) for x in (res.get("puts") or [])]
            if None in puts or res.get("kind") not in ("ok", "err") or (res.get("kind") == "err" and res.get("err") != "commit"):
                return "false"
            obs.append("(XChunkOut %s %s, %s)" % (cq_list(puts, "cres"), cq_bool(res["kind"] == "ok"), sn))
        else:
            ops.append("(XBase %s)" % render_op(op, pre))
            r = render_out(st["res"], pre)
            if r is None:
                return "false"
            obs.append("(XOut %s, %s)" % (r, sn))
    return "chk_xhist %s %s %s" % (cq_bool(FIXED), cq_list(ops, "xop"), cq_list(obs, "(xout * xsnapshot)%type"))


def render_hist(c, o):
    if c.get("chunked"):
        return render_xhist(c, o)
    pre = preimages(c, o)
    ops, obs = [], []
    for op, st in zip(c["ops"], o["steps"]):
        ops.append(render_op(op, pre))
        r = render_out(st["res"], pre)
        s = render_snap(st["snap"], pre)
        if r is None or s is None:
            return "false"
        obs.append("(%s, %s)" % (r, s))
    return "chk_hist %s %s %s" % (cq_bool(FIXED), cq_list(ops, "cop"), cq_list(obs, "(cout * snapshot)%type"))


STAGES = {"new": "WNew", "copy": "WCopy", "ok": "(WDone ROk)"}


def cq_stage(s):
    if s in STAGES:
        return STAGES[s]
    if s.startswith("err:") and s[4:] in ERRS:
        return "(WDone (RFail %s))" % ERRS[s[4:]]
    return None


def cq_ofile(h):
    return "(@None (list N))" if h is None else "(Some %s)" % cq_bytes(bytes.fromhex(h))


def render_conc(c, o):
    content = bytes.fromhex(c["content"])
    specs = cq_list(["(%s, %s, %s)" % (cq_bytes(content), cq_nat(w["size"]), cq_src(w["src"])) for w in c["writers"]], "(Dg * nat * list rd)%type")
    sched = cq_list(["(%s, AStep)" % cq_nat(i) for i in c["sched"]], "(nat * action)%type")
    obs = []
    for st in o["steps"]:
        sts = [cq_stage(s) for s in st["st"]]
        if None in sts:
            return "false"
        obs.append("(%s, %s)" % (cq_ofile(st["file"]), cq_list(sts, "stage")))
    return "chk_conc %s %s %s %s" % (cq_ofile(c["f0"]), specs, sched, cq_list(obs, "(option (list N) * list stage)%type"))


def render(c, o):
    if "panic" in o or "harness_error" in o or "steps" not in o:
        return "false"
    if c.get("monitor_only") or c.get("large"):
        return "true"
    if c["kind"] == "hist":
        if len(o["steps"]) != len(c["ops"]):
            return "false"
        return render_hist(c, o)
    if len(o["steps"]) != len(c["sched"]):
        return "false"
    return render_conc(c, o)


# ----------------------------------------------------------------------------- monitor: the property on the implementation

def nparts(name):
    """the four parts of a name as names.Parse cuts them ("name@" with an empty digest part is resolved by name)"""
    if "@" in name:
        name, dg = name.rsplit("@", 1)
        if dg != "":
            return None
    return split_name(name)


def nkey(name):
    p = nparts(name)
    return None if p is None else tuple(x.lower() for x in p)


def own_files(snap, parts):
    """manifest files that sit where this name belongs: <dir>/manifests/<host>/<namespace>/<model>/<tag>, case-insensitively,
    four real path components"""
    if parts is None or any(x in ("", ".", "..") or "/" in x for x in parts):
        return []
    want = [x.lower() for x in parts]
    return [bytes.fromhex(v) for p, v in snap["links"].items() if [x.lower() for x in p.split("/")] == want]


def monitor_hist(c, o):
    """-> list of (sig, what).  Evaluated on the implementation's observations only."""
    out = []
    pool = [bytes.fromhex(h) for h in c["pool"]]
    intended = {sha(b): b for b in pool}
    # a digest is 'size-consistent' as long as every Put of it used the size of its content (the size it is stored under)
    inconsistent = set()
    linked = {}    # name key -> (digest given to the last successful Link of that name, its parts, the name)
    verdict = {}   # exact name string -> "rejected" | "accepted"
    for i, (op, st) in enumerate(zip(c["ops"], o["steps"])):
        res, snap = st["res"], st["snap"]
        if op["op"] == "put" and op["size"] != len(intended[op["d"]]):
            inconsistent.add(op["d"])
        # (1) present with the size it was stored under => content hashes to the digest
        for d, content in intended.items():
            if d in inconsistent or not content:
                continue
            if snap["gets"].get(d, -1) == len(content):
                data = bytes.fromhex(snap["blobs"].get("sha256-" + d, ""))
                if sha(data) != d:
                    out.append(({"kind": "hist", "class": "size-ok-content-bad"},
                                "after op %d (%s) Get reports blob %s.. with its stored size %d but the file hashes to %s.." % (i, op["op"], d[:8], len(content), sha(data)[:8])))
        # (2) a successful store makes the blob retrievable
        if op["op"] == "put" and res.get("kind") == "ok" and op["size"] > 0:
            if snap["gets"].get(op["d"], -1) != op["size"]:
                out.append(({"kind": "hist", "class": "put-ok-not-retrievable"}, "op %d: Put returned nil but Get reports size %s (want %d)" % (i, snap["gets"].get(op["d"]), op["size"])))
        if op["op"] == "import" and res.get("kind") == "digest":
            tot = src_total(op["src"])
            if res["d"] != sha(tot) or (tot and bytes.fromhex(snap["blobs"].get("sha256-" + res["d"], "")) != tot):
                out.append(({"kind": "hist", "class": "import-wrong"}, "op %d: Import returned %s.. for data hashing to %s.., or stored other bytes" % (i, res["d"][:8], sha(tot)[:8])))
        # (2b) Commit of the chunked writer succeeded => the blob under the digest is the blob
        if op["op"] == "chunked" and op.get("commit") and res.get("kind") == "ok":
            data = bytes.fromhex(snap["blobs"].get("sha256-" + op["d"], ""))
            if sha(data) != op["d"] or len(data) != op["size"]:
                out.append(({"kind": "hist", "class": "commit-ok-content-bad", "plan": op.get("plan")},
                            "op %d: Chunker.Commit returned nil (plan %s: %s) but the file under the digest hashes to %s.. (%r)" % (
                                i, op.get("plan"), [(ch["start"], ch["len"]) for ch in op["chunks"]], sha(data)[:8], data)))
        # names: a name is either rejected by every operation or by none
        if op["op"] in ("link", "unlink", "resolve") and nparts(op["name"]) is not None:
            v = "rejected" if (res.get("kind") == "err" and res.get("err") == "invalidname") else "accepted"
            nm = op["name"][:-1] if op["name"].endswith("@") else op["name"]
            if verdict.setdefault(nm, v) != v:
                out.append(({"kind": "hist", "class": "name-validity-inconsistent"}, "op %d: %s(%r) treats the name as %s, an earlier operation as %s" % (i, op["op"], nm, v, verdict[nm])))
        key = nkey(op["name"]) if op["op"] in ("link", "unlink", "resolve") else None
        # (3) a name is linked only to a manifest blob that exists, and the link is a file of its own
        if op["op"] == "link":
            if res.get("kind") == "ok":
                blob = snap["blobs"].get("sha256-" + op["d"])
                present = blob is not None and snap["gets"].get(op["d"], -1) >= 0
                if blob is None:
                    out.append(({"kind": "hist", "class": "link-without-blob-file"}, "op %d: Link returned nil but there is no blob file for %s.." % (i, op["d"][:8])))
                elif not present:
                    out.append(({"kind": "hist", "class": "link-to-empty-blob"}, "op %d: Link returned nil but Get(%s..) reports the blob as absent (empty file left by a failed write)" % (i, op["d"][:8])))
                files = own_files(snap, nparts(op["name"]))
                if not files:
                    out.append(({"kind": "hist", "class": "link-not-at-own-path"},
                                "op %d: Link(%r) returned nil but there is no manifest file manifests/<host>/<namespace>/<model>/<tag> for it (manifest files: %s, files elsewhere: %s)" % (
                                    i, op["name"], sorted(snap["links"]), snap.get("stray"))))
                elif present and not any(sha(f) == op["d"] for f in files):
                    out.append(({"kind": "hist", "class": "link-wrong-bytes"}, "op %d: Link(%r, %s..) returned nil but the manifest file holds other bytes" % (i, op["name"], op["d"][:8])))
                p = nparts(op["name"])
                want = ("/".join(p[:3]) + ":" + p[3]).lower()
                if files and want not in [x.lower() for x in (snap.get("names") or [])]:
                    out.append(({"kind": "hist", "class": "link-missing-from-links"}, "op %d: Link(%r) returned nil but Links() does not list it: %s" % (i, op["name"], snap.get("names"))))
                if present and files:
                    linked[key] = (op["d"], p, op["name"])
                else:
                    linked.pop(key, None)
            else:
                linked.pop(key, None)
        if op["op"] == "unlink":
            linked.pop(key, None)
        if op["op"] == "raw":
            linked.pop(tuple(x.lower() for x in op["path"].split("/")), None)
        # (4) resolving a name returns the digest of exactly the bytes linked
        if op["op"] == "resolve" and "@" in op["name"] and not op["name"].endswith("@"):
            dg = op["name"].rsplit("@", 1)[1]
            valid = dg[:7] in ("sha256:", "sha256-") and len(dg) == 71 and all(ch in "0123456789abcdefABCDEF" for ch in dg[7:])
            if valid != (res.get("kind") == "digest") or (valid and res.get("d") != dg[7:].lower()):
                out.append(({"kind": "hist", "class": "resolve-at-digest"}, "op %d: Resolve(%r) = %s" % (i, op["name"], res)))
        elif op["op"] == "resolve" and res.get("kind") == "digest":
            files = own_files(snap, nparts(op["name"]))
            if not any(sha(b) == res["d"] for b in files):
                out.append(({"kind": "hist", "class": "resolve-not-hash-of-manifest"}, "op %d: Resolve(%r) returned %s.. which is not the hash of a manifest file of that name" % (i, op["name"], res["d"][:8])))
            if key in linked and linked[key][0] != res["d"]:
                out.append(({"kind": "hist", "class": "resolve-differs-from-linked"},
                            "op %d: Resolve(%s) returned %s.. but the last successful Link of this name was to %s.." % (i, op["name"], res["d"][:8], linked[key][0][:8])))
            if snap["gets"].get(res["d"], None) is not None and snap["gets"][res["d"]] < 0 and sha(b"") != res["d"]:
                out.append(({"kind": "hist", "class": "resolve-blob-missing"}, "op %d: Resolve returned %s.. but that blob is not retrievable afterwards" % (i, res["d"][:8])))
        elif op["op"] == "resolve" and key in linked and res.get("kind") == "err":
            out.append(({"kind": "hist", "class": "resolve-fails-for-linked-name"}, "op %d: Resolve(%r) fails (%s) although the name was linked to %s.." % (i, op["name"], res.get("err"), linked[key][0][:8])))
        # (5) whatever happens to other names and blobs, a linked name keeps its own manifest file with the linked bytes
        for k2, (d2, p2, n2) in list(linked.items()):
            pr = (snap.get("probe") or {}).get(n2)
            if pr is not None and pr != d2:
                out.append(({"kind": "hist", "class": "live-name-resolves-elsewhere"},
                            "after op %d (%s %r) the name %r, linked to %s.., resolves to %s" % (i, op["op"], op.get("name", op.get("path", "")), n2, d2[:8], (pr[:8] + "..") if pr else "nothing")))
                linked.pop(k2, None)
                continue
            files = own_files(snap, p2)
            if not any(sha(f) == d2 for f in files):
                out.append(({"kind": "hist", "class": "linked-manifest-changed-by-other-op"},
                            "after op %d (%s %r) the manifest of %r, linked to %s.., %s" % (
                                i, op["op"], op.get("name", op.get("path", "")), n2, d2[:8], "is gone" if not files else "holds other bytes")))
                linked.pop(k2, None)
        if snap.get("stray"):
            out.append(({"kind": "hist", "class": "file-outside-blobs-and-manifests"}, "after op %d (%s %r) the cache directory contains %s" % (i, op["op"], op.get("name", ""), snap["stray"])))
    return out


def monitor_conc(c, o):
    out = []
    content = bytes.fromhex(c["content"])
    honest = all(is_honest(w["src"], content) and w["size"] == len(content) for w in c["writers"])
    f0 = None if c["f0"] is None else bytes.fromhex(c["f0"])
    for i, st in enumerate(o["steps"]):
        if st["get"] == len(content) and st["file"] is not None and sha(bytes.fromhex(st["file"])) != c["d"]:
            out.append(({"kind": "conc", "class": "size-ok-content-bad", "all_honest": honest, "prior_longer": f0 is not None and len(f0) > len(content),
                         "writers": ">=2" if len(set(c["sched"][: i + 1])) >= 2 else "1"},
                        "after step %d of schedule %s the blob has its full size %d but hashes to %s.. (writers: %s)" % (
                            i, c["sched"], len(content), sha(bytes.fromhex(st["file"]))[:8], [w.get("k") for w in c["writers"]])))
            break
        for j, s in enumerate(st["st"]):
            if s == "ok" and st["get"] != c["writers"][j]["size"] and c["writers"][j]["size"] > 0 and honest:
                out.append(({"kind": "conc", "class": "put-ok-not-retrievable", "all_honest": honest}, "step %d: writer %d returned nil but Get reports %d" % (i, j, st["get"])))
    return out


def monitor(c, o):
    if "panic" in o:
        return [({"class": "panic"}, "DiskCache panicked: %s" % o["panic"])]
    if "steps" not in o:
        return []
    if c.get("large"):
        return monitor_large(c, o)
    return monitor_hist(c, o) if c["kind"] == "hist" else monitor_conc(c, o)


# ----------------------------------------------------------------------------- shrinking

def shrink(ctx, binp, c, sig):
    """delta debugging on the operation list / the schedule, keeping the same violation class"""
    def fails_with(cand):
        obs, _ = ctx.run_jsonl(binp, [cand], timeout=60)
        if not obs:
            return False
        return any(s.get("class") == sig.get("class") for s, _ in monitor(cand, obs[0]))
    key = "ops" if c["kind"] == "hist" else "sched"
    def fails(sub):
        cand = dict(c)
        cand[key] = sub
        return fails_with(cand)
    small = vlib.ddmin(c[key], fails, max_tests=120)
    out = dict(c)
    out[key] = small
    return out


# ----------------------------------------------------------------------------- driver

def nontrivial(c, o):
    if "steps" not in o:
        return False
    if c["kind"] == "hist":
        return any(st["snap"]["blobs"] or st["snap"].get("bsum") for st in o["steps"]) and len(c["ops"]) >= 3
    return len(set(c["sched"])) >= 2


def canon(c):
    return {k: v for k, v in c.items() if k not in ("klass",)}


def run(ctx, only_cases=None):
    ctx.rule = ("cases: (a) histories of 3-10 operations over 2-4 contents (two of equal length, some empty) and case-variant names: Put with readers that are "
                "honest / return data with EOF / short / long (excess inside or after the final write) / corrupted / erroring / junk, PutBytes, crash points "
                "(child SIGKILLed at the k-th Read), wrong sizes, Import, Get, Link, Unlink, Resolve, hand-edited manifest files; (b) 2-3 concurrent Puts of one "
                "digest over an absent/empty/shorter/longer prior file, interleaved at Read granularity. non-trivial = history of >= 3 ops that left a blob file / "
                "schedule that really interleaves two writers; distinct = canonical JSON of the case")
    ctx.trusted = ["Coq 8.16.1 kernel + vm_compute", "hand-written model coq/Blob/Model.v tied to the code by this differential run only",
                   "Go harness harness/cmd/c08 + add-only overlay drivers (build tag verif)", "python generator/monitor props/c08.py",
                   "OS file system (pwrite/ftruncate/rename atomic per call; a crashed write leaves a prefix)", "crypto/sha256, io.Copy"]
    ctx.assumptions = ["every Put of a digest uses the size of its content ('the size it was stored under'); histories with a wrong size are compared with the model but not monitored for that digest",
                       "digests are represented by their preimages in the model instance (no SHA-256 collision among test data)",
                       "Close never fails; manifests are smaller than 1 MiB (readAndSum limit)",
                       "crashes inside one write (a prefix of its bytes) are covered by the theorems, on the implementation only crashes between writes are produced"]
    ctx.proof_stage(["Blob"], "Blob/Properties_C08.v", extra_targets=["Blob/Corr.v", "Blob/ChunkCorr.v"])
    if not ctx.quick():
        ctx.coqchk(["V.Blob.Properties_C08"])
    binp = ctx.go_build("c08")
    if not binp:
        return
    cases = only_cases if only_cases is not None else gen_cases(ctx)
    obs, err = ctx.run_jsonl(binp, cases, timeout=900)
    if obs is None or len(obs) != len(cases):
        ctx.obligation("harness c08 answered every case", False, err)
        ctx.proof_failures.append({"obligation": "correspondence: harness c08 did not answer every case", "detail": err})
        return
    items = []
    seen_sigs = set()
    for c, o in zip(cases, obs):
        ctx.note_case(canon(c), nontrivial(c, o), c.get("klass"), sample={"case": {k: v for k, v in c.items() if k != "pool"}, "impl_last": (o.get("steps") or [None])[-1]})
        if c["kind"] == "hist":
            for op in c["ops"]:
                for ch in op.get("chunks", []):
                    ctx.count("chunk-src:" + ch["k"])
                if op["op"] == "chunked":
                    ctx.count("chunk-plan:" + op.get("plan", "?"))
                ctx.count("op:" + op["op"] + (":" + op["k"] if "k" in op else "") + (":crash" if op.get("crash") is not None else "") + (":wcrash" if op.get("wcrash") is not None else "") + (":bytes" if op.get("bytes") else ""))
                st = None
            for st in o.get("steps", []):
                r = st["res"]
                ctx.count("result:" + r.get("kind", "?") + (":" + r["err"].split(":")[0] if r.get("kind") == "err" else ""))
        for sig, what in monitor(c, o):
            key = json.dumps(sig, sort_keys=True)
            if key in seen_sigs:
                continue
            seen_sigs.add(key)
            small = shrink(ctx, binp, c, sig) if not vlib.match_known(ctx.known, sig) else c
            so, _ = ctx.run_jsonl(binp, [small], timeout=60)
            ctx.violation(sig, what, {"case": small, "impl": so[0] if so else None, "original_case": c if small != c else None})
        items.append(render(c, o))
    bad, log = ctx.coq_eval(HEADER, items, per_file=25 if ctx.quick() else 80)
    if bad is None:
        ctx.obligation("correspondence: model evaluated on all cases", False, log)
        ctx.proof_failures.append({"obligation": "correspondence evaluation failed in coqc", "detail": log})
        return
    ctx.disagreements_checked = len(items)
    ctx.obligation("correspondence: model = implementation after every operation / scheduling step on %d cases" % len(items), not bad)
    for i in bad[:10]:
        ctx.mismatch("Blob/Corr.%s" % ("chk_hist" if cases[i]["kind"] == "hist" else "chk_conc"), cases[i], obs[i], items[i][:3000])


def replay(ctx, path):
    r = json.load(open(path))
    ctx.log("replaying", path)
    rp = r.get("replay", {})
    case = rp.get("case") or (r.get("disagreements") or [{}])[0].get("case")
    if case:
        run(ctx, only_cases=[case])
    else:
        run(ctx)


MANIFEST = {
    "property_id": "C08",
    "quick_cmd": "python3 check.py C08 --tier quick",
    "thorough_cmd": "python3 check.py C08 --tier thorough",
    "evidence_file": "evidence/C08.json",
    "replay_cmd_template": "python3 check.py C08 --replay {path}",
    "engine": "coq-model+go-differential",
    "level_claimed": {
        "category": "proof",
        "text": "Coq theorems over an executable model of copyNamedFile/checkWriter and the DiskCache operations: for every source behaviour, "
                "every crash point (including inside one write) and every prior file a single writer never leaves a full-size file with wrong content; "
                "any interleaving of honest concurrent writers preserves this; histories of Put/Import/Link/Unlink/Resolve/Get preserve it for every blob; "
                "Put ok => retrievable; Link ok => blob file exists; Resolve after Link returns the linked digest = hash of the manifest bytes. "
                "Misbehaving x concurrent is refuted in Coq with a witness that the harness reproduces on the real DiskCache (known finding).",
        "design_ref": "DESIGN.md section 5, C08",
    },
    "level_note": "The model is hand-written and tied to the code by differential testing on the real DiskCache (state compared after every operation and every "
                  "scheduling step); file-system atomicity per syscall, SHA-256 and io.Copy are trusted. Link is modelled as repaired by fixes/C08-link-size-shortcut.patch.",
    "technique": "Coq proof (writer-machine invariants, induction over schedules and histories) + model/implementation differential check with crash and schedule control",
}
