"""C19 - chat prompt keeps the newest messages that fit, the system messages, each image once.

Tie (P): the real server.chatPrompt (overlay export VerifChatPrompt) with real templates (four families with random
literal texts, plus template/chatml.gotmpl and the template of TestChatPrompt), byte-exact tokenizers supplied by the
harness (white-space fields / one token per k bytes) is run on generated conversations; prompt, image list and the
rewritten message contents are compared with the Coq model (Prompt/Model.v, evaluated by coqc/vm_compute), and so are
the renderings of every candidate suffix (real Template.Execute vs the model's renderer).
Monitor: the property itself on the implementation's observation - which messages occur in the prompt (unique
markers), in which order, which image tags occur where, what the image list is - against the retained run computed by
the monitor from the candidate token counts.
"""
import itertools
import json
import os
import re

from lib import vlib
from lib.vlib import cq_bytes, cq_list, cq_bool, cq_N, cq_Z

CHAT_BUILD = {"name": "c19chat", "test_pkg": "./server", "overlays": ["server/c19_test.go"]}
SETUP_BUILDS = [{"name": "c19"}, CHAT_BUILD]
COQ_TARGETS = ["Prompt/Properties_C19.v", "Prompt/Corr.v"]
HEADER = ("From Coq Require Import List NArith ZArith Bool.\nFrom V Require Import Common.Bytes Prompt.Model Prompt.Corr.\n"
          "Import ListNotations.\nOpen Scope N_scope.\n")

ROLES3 = ["system", "user", "assistant"]
WORDS = ["a", "hi", "the", "test", "harry", "what", "thumping", "wager", "x", "yy", "zzz", "lorem", "ipsum"]
LITS = ["", "", " ", "\n", "<|im_start|>", "<|im_end|>\n", "### ", "> ", "<s>", "</s>", "USER> ", " ASSISTANT> ", "A", "\n\n", "<|eot|>"]
TAG_RE = re.compile(rb"\[img-(\d+)\]")


# ------------------------------------------------------------------ templates

def tmpl_text(st):
    f, L = st["fam"], st["lits"]
    if f == "range" and st.get("boom"):
        # execution fails in the middle of the rendering, at the first message whose role is "boom"
        return "{{range .Messages}}%s{{.Role}}%s{{.Content}}{{if eq .Role \"boom\"}}{{index \"\" 1}}{{end}}%s{{end}}%s" % tuple(L)
    lay = st.get("layout")
    if f == "range":
        one = "%s{{.Role}}%s{{.Content}}%s" % (L[0], L[1], L[2])
        loop = "{{range .Messages}}" + one + "{{end}}"
        tools = "{{define \"tools\"}}{{if .Tools}}TOOLS{{end}}{{end}}{{template \"tools\" .}}" if st.get("tools_sub") else ""
        # named sub-templates: .Messages occurs only inside a {{define}} / {{block}} body that the root invokes
        if lay == "define":
            return tools + "{{define \"msgs\"}}" + loop + "{{end}}{{template \"msgs\" .}}" + L[3]
        if lay == "define-after":
            return tools + "{{template \"msgs\" .}}" + L[3] + "{{define \"msgs\"}}" + loop + "{{end}}"
        if lay == "block":
            return tools + "{{block \"msgs\" .}}" + loop + "{{end}}" + L[3]
        if lay == "nested":
            return (tools + "{{define \"one\"}}" + one + "{{end}}{{define \"all\"}}{{range .Messages}}{{template \"one\" .}}{{end}}{{end}}"
                    "{{template \"all\" .}}" + L[3])
        return tools + loop + L[3]
    if f in ("legacy", "legacyif"):
        sysp = "{{if .System}}%s{{.System}}%s{{end}}" % (L[0], L[1])
        usr = "{{if .Prompt}}%s{{.Prompt}}%s{{end}}" % (L[2], L[3])
        if f == "legacy":
            tail = L[4] + ("" if st.get("noresp") else "{{.Response}}") + L[5]
        else:
            tail = "{{if .Response}}%s{{.Response}}%s{{end}}" % (L[4], L[5])
        if lay == "sys-define":      # .System only in a sub-template
            return "{{define \"sys\"}}" + sysp + "{{end}}{{template \"sys\" .}}" + usr + tail
        if lay == "turn-define":     # .System and .Prompt in nested sub-templates, the response in the root
            return "{{define \"sys\"}}" + sysp + "{{end}}{{define \"turn\"}}{{template \"sys\" .}}" + usr + "{{end}}{{template \"turn\" .}}" + tail
        return sysp + usr + tail
    if f == "sysrange":
        sysp = "{{if .System}}%s{{.System}}%s{{end}}" % (L[0], L[1])
        conv = ("{{range .Messages}}{{if eq .Role \"user\"}}%s{{.Content}}%s{{else if eq .Role \"assistant\"}}%s{{.Content}}%s{{end}}{{end}}"
                % (L[2], L[3], L[4], L[5]))
        if lay == "sys-define":      # .System only in a sub-template
            return "{{define \"sys\"}}" + sysp + "{{end}}{{template \"sys\" .}}" + conv + L[6]
        if lay == "all-define":      # .System and .Messages only in sub-templates
            return "{{define \"sys\"}}" + sysp + "{{end}}{{define \"conv\"}}" + conv + "{{end}}{{template \"sys\" .}}{{template \"conv\" .}}" + L[6]
        if lay == "block":
            return "{{block \"sys\" .}}" + sysp + "{{end}}{{block \"conv\" .}}" + conv + "{{end}}" + L[6]
        if lay == "nested":          # a sub-template that invokes the others
            return ("{{define \"sys\"}}" + sysp + "{{end}}{{define \"conv\"}}" + conv + "{{end}}{{define \"all\"}}{{template \"sys\" .}}{{template \"conv\" .}}{{end}}"
                    "{{template \"all\" .}}" + L[6])
        return sysp + conv + L[6]
    raise ValueError(f)


def style_text(st):
    return st.get("text") or tmpl_text(st)


def style_term(st):
    f, L = st["fam"], [cq_bytes(x.encode()) for x in st["lits"]]
    if f == "range":
        return "(Range %s)" % " ".join(L)
    if f == "legacy":
        return "(Legacy false %s)" % " ".join(L)
    if f == "legacyif":
        return "(Legacy true %s)" % " ".join(L)
    return "(SysRange %s)" % " ".join(L)


def renderable(st, role):
    return True if st["fam"] == "range" else role in ROLES3


def rnd_style(rng):
    f = rng.choice(["range", "range", "legacy", "legacyif", "sysrange", "sysrange"])
    n = {"range": 4, "legacy": 6, "legacyif": 6, "sysrange": 7}[f]
    st = {"fam": f, "lits": [rng.choice(LITS) for _ in range(n)]}
    if f == "legacy" and rng.random() < 0.3:
        st["lits"][4] = st["lits"][5] = ""
        st["noresp"] = True
    # the same templates organised with {{define}} / {{block}} / {{template}} (same rendering, same model)
    if f == "range" and rng.random() < 0.4:
        st["layout"] = rng.choice(["define", "define-after", "block", "nested"])
        st["tools_sub"] = rng.random() < 0.3
    if f == "sysrange" and rng.random() < 0.4:
        st["layout"] = rng.choice(["sys-define", "all-define", "block", "nested"])
    if f in ("legacy", "legacyif") and rng.random() < 0.15:
        st["layout"] = rng.choice(["sys-define", "turn-define"])
    return st


def fixed_styles():
    """templates taken literally from the tree: template/chatml.gotmpl and the template of TestChatPrompt"""
    out = []
    try:
        txt = open(os.path.join(vlib.REPO, "template", "chatml.gotmpl")).read().replace("\r\n", "\n")
        out.append({"fam": "range", "lits": ["<|im_start|>", "\n", "<|im_end|>\n", "<|im_start|>assistant\n"], "text": txt, "name": "chatml.gotmpl"})
    except OSError:
        pass
    out.append({"fam": "legacyif", "lits": ["", " ", "", " ", "", " "], "name": "TestChatPrompt",
                "text": "\n{{- if .System }}{{ .System }} {{ end }}\n{{- if .Prompt }}{{ .Prompt }} {{ end }}\n{{- if .Response }}{{ .Response }} {{ end }}"})
    # chatml organised with named sub-templates (.Messages only inside a define / block body), and a system-first
    # template whose .System and .Messages live in sub-templates
    cl = ["<|im_start|>", "\n", "<|im_end|>\n", "<|im_start|>assistant\n"]
    out.append({"fam": "range", "lits": cl, "layout": "define", "name": "chatml-define"})
    out.append({"fam": "range", "lits": cl, "layout": "nested", "tools_sub": True, "name": "chatml-nested"})
    out.append({"fam": "range", "lits": cl, "layout": "block", "name": "chatml-block"})
    out.append({"fam": "sysrange", "lits": ["<<SYS>>", "<</SYS>>\n", "<INST> ", " </INST>", " ", "</s>", ""], "layout": "all-define", "name": "sysrange-define"})
    return out


# ------------------------------------------------------------------ conversations
# a message: {"id": marker id, "role": str, "body": str (may contain "[img]"), "images": [image ids], "raw": optional literal content}

def content_of(m):
    if "raw" in m:
        return m["raw"]
    return "(%d:%s:%d)" % (m["id"], m["body"], m["id"])


def img_bytes(i):
    return b"IMG%d;" % i


def rnd_body(rng, long=False):
    n = rng.choice([0, 1, 1, 2, 3, 5]) if not long else rng.randint(8, 20)
    parts = []
    for _ in range(n):
        parts.append(rng.choice(WORDS))
        parts.append(rng.choice([" ", " ", " ", "\n", "  ", ""]))
    return "".join(parts)


def rnd_conv(rng, maxlen=7):
    n = rng.choice([1, 2, 2, 3, 3, 4, 5, 6, maxlen])
    msgs = []
    next_img = 0
    sysw = rng.choice([0.15, 0.35, 0.6])
    otherw = rng.choice([0, 0, 0, 0.15])
    imgw = rng.choice([0, 0.3, 0.6])
    toolw = rng.choice([0, 0, 0.3])
    if toolw:
        otherw = 0.2
    for k in range(n):
        r = rng.random()
        if r < otherw:
            role = rng.choice(["tool", "tool", "", "System", "user ", "function"])
        elif r < otherw + sysw:
            role = "system"
        else:
            role = rng.choice(["user", "assistant", "user"])
        body = rnd_body(rng, long=rng.random() < 0.25)
        imgs = []
        if rng.random() < imgw:
            for _ in range(rng.choice([1, 1, 1, 2, 3])):
                if next_img and rng.random() < 0.15:
                    imgs.append(rng.randrange(next_img))      # the same picture again
                else:
                    imgs.append(next_img)
                    next_img += 1
            for _ in range(rng.choice([0, 0, 1, 2, 4])):
                cut = rng.randint(0, len(body))
                body = body[:cut] + "[img]" + body[cut:]
        elif rng.random() < 0.08:
            body += "[img]"                                 # placeholder without a picture
        m = {"id": k, "role": role, "body": body, "images": imgs}
        if rng.random() < 0.05:
            m["raw"] = ""                                     # empty content (no marker)
        if role == "assistant" and rng.random() < toolw:
            m["tools"] = rng.choice([1, 1, 2])                # assistant message carrying tool calls
            if rng.random() < 0.5 and not imgs:
                m["raw"] = ""                                 # ... typically with empty content
        msgs.append(m)
    return msgs


def tool_dialogue(rng, first_id=0):
    """[system] (user, assistant text, assistant tool calls, tool results..., [assistant text])* user"""
    msgs = []

    def add(role, body=None, **kw):
        m = {"id": first_id + len(msgs), "role": role, "body": rnd_body(rng) if body is None else body, "images": []}
        m.update(kw)
        msgs.append(m)
    if rng.random() < 0.5:
        add("system")
    for _ in range(rng.choice([1, 1, 2])):
        add("user")
        if rng.random() < 0.8:
            add("assistant")                                  # text before the call
        call = {"tools": rng.choice([1, 2])}
        if rng.random() < 0.6:
            call["raw"] = ""
        add("assistant", **call)
        for _ in range(rng.choice([1, 1, 2])):
            add("tool")
        if rng.random() < 0.4:
            add("assistant")
    add("user")
    return msgs


def mk_case(st, msgs, tok, mllama, proj, num_ctx, klass, png=False):
    return {"style": st, "msgs": msgs, "tok": tok, "mllama": mllama, "proj": proj, "num_ctx": num_ctx, "klass": klass, "png": png}


def wire(c):
    """the JSON line for the harness"""
    def imgs(m):
        if c.get("png"):
            return [{"w": 4 + i % 5, "h": 3 + i % 7, "c": (i * 2654435761) % (1 << 24)} for i in m["images"]]
        return [img_bytes(i).hex() for i in m["images"]]
    return {"tmpl": style_text(c["style"]).encode().hex(), "tok": c["tok"], "mllama": c["mllama"], "proj": c["proj"], "num_ctx": c["num_ctx"],
            "png": bool(c.get("png")), "tok_fail": c.get("tok_fail", 0),
            "msgs": [{"role": m["role"].encode().hex(), "content": content_of(m).encode().hex(), "images": imgs(m), "tool_calls": m.get("tools", 0)} for m in c["msgs"]]}


def img_tokens(c):
    return 1 if c["mllama"] else 768


def ctxlens(c, o):
    """the context length chatPrompt attributes to every suffix start (from the real renderings' token counts)"""
    out = []
    for k in range(len(c["msgs"])):
        v = o["cand"][k]
        if v < 0:            # the template refuses this candidate (execution error)
            out.append(None)
            continue
        if c["proj"]:
            v += img_tokens(c) * sum(len(m["images"]) for m in c["msgs"][k:])
        out.append(v)
    return out


# ------------------------------------------------------------------ monitor: the property on the observation

def retained_start(c, o):
    """(n, alternatives): the retained run is msgs[n:] with n the start of the longest recent run all of whose suffixes fit;
    when fitting is not monotone in the suffix start the longest fitting suffix is accepted as well"""
    L = ctxlens(c, o)
    last = len(c["msgs"]) - 1
    n = last
    while n > 0 and L[n - 1] is not None and L[n - 1] <= c["num_ctx"]:
        n -= 1
    alts = [n]
    fitting = [k for k in range(last) if L[k] is not None and L[k] <= c["num_ctx"]]
    if any(v is None for v in L):
        fitting = []
    if fitting and min(fitting) != n:
        alts.append(min(fitting))
    return n, alts


def template_error_expected(c, o):
    """the scan (or the final rendering) reaches a list that the template refuses to render"""
    L = ctxlens(c, o)
    if not any(v is None for v in L):
        return False
    n = len(c["msgs"]) - 1
    while n > 0:
        if L[n - 1] is None:
            return True
        if L[n - 1] > c["num_ctx"]:
            break
        n -= 1
    return L[n] is None      # the final list is candidate n with rewritten contents


def find_all(hay, needle):
    out, i = [], hay.find(needle)
    while i >= 0:
        out.append(i)
        i = hay.find(needle, i + 1)
    return out


def legacy_overwritten(c, n, expect):
    """the messages of the list handed to the template whose content the legacy (System/Prompt/Response) flow of
    Template.Execute overwrites before it is printed: a slot (system / prompt / response) is assigned again while it is
    still pending, which happens when only empty-content or unknown-role messages lie in between (known finding
    C19-legacy-flow-overwrite).  Used only to classify a missing message."""
    msgs = c["msgs"]
    nonempty = lambda k: bool(content_of(msgs[k])) or (k >= n and bool(msgs[k]["images"]))
    coll = []      # collate: [role, nonempty, [message indices]]
    for k in expect:
        if coll and coll[-1][0] == msgs[k]["role"]:
            coll[-1][1] = True          # joined with "\n\n": never empty
            coll[-1][2].append(k)
        else:
            coll.append([msgs[k]["role"], nonempty(k), [k]])
    lost = set()
    slot = {"system": (False, []), "user": (False, []), "assistant": (False, [])}
    clear = lambda: slot.update({"system": (False, []), "user": (False, []), "assistant": (False, [])})
    for role, ne, ks in coll:
        if role == "system":
            if slot["user"][0] or slot["assistant"][0]:
                clear()
        elif role == "user":
            if slot["assistant"][0]:
                clear()
        elif role != "assistant":
            continue
        lost.update(slot[role][1])
        slot[role] = (ne, ks if ne else [])
    return lost


def property_failure(c, o, n):
    """None when the observation satisfies the property for retained run msgs[n:], else (class, text)"""
    msgs, st = c["msgs"], c["style"]
    last = len(msgs) - 1
    prompt = bytes.fromhex(o["prompt"])
    expect = [k for k in range(n) if msgs[k]["role"] == "system"] + list(range(n, last + 1))
    marked = lambda k: "raw" not in msgs[k]
    smark = lambda k: b"(%d:" % msgs[k]["id"]
    emark = lambda k: b":%d)" % msgs[k]["id"]
    legacy = st["fam"] in ("legacy", "legacyif")
    overwritten = legacy_overwritten(c, n, expect) if legacy else set()
    lit_tags = any("[img-" in content_of(m) for m in msgs)

    # --- nothing of another conversation (state kept across requests)
    own = {m["id"] for m in msgs}
    for mm in re.finditer(rb"\((\d+):|:(\d+)\)", prompt):
        fid = int(mm.group(1) or mm.group(2))
        if fid not in own:
            return ("foreign-text", "the prompt contains text of another conversation (marker %d)" % fid)

    # --- image list: exactly the images of the retained messages, in order, numbered from 0
    want = [i for k in range(n, last + 1) for i in msgs[k]["images"]]
    got = []
    for e in o["images"]:
        got.append((e["id"], e.get("_img")))
    if [g[0] for g in got] != list(range(len(got))):
        return ("image-ids", "image IDs are not 0..k-1 in order: %r" % [g[0] for g in got])
    if [g[1] for g in got] != want:
        dropped = [i for k in range(n) for i in msgs[k]["images"]]
        cls = "dropped-image-sent" if any(g[1] in dropped and g[1] not in want for g in got) else "image-list"
        return (cls, "image list %r, images of the retained messages %r" % ([g[1] for g in got], want))

    if True:
        pos = {}
        # --- latest message, retained run, system messages; nothing else
        for k in range(last + 1):
            if not marked(k):
                continue
            s, e = find_all(prompt, smark(k)), find_all(prompt, emark(k))
            if k in expect and not renderable(st, msgs[k]["role"]):
                continue     # the template style has no place for this role
            if k in expect:
                if len(s) != 1 or len(e) != 1 or s[0] > e[0]:
                    if k in overwritten and not s and not e:
                        return ("legacy-flow-overwrite", "message %d (role %s) is handed to the template but the legacy System/Prompt/Response flow of "
                                "Template.Execute overwrites it before it is printed" % (k, msgs[k]["role"]))
                    if k == last:
                        return ("latest-missing", "the latest message does not occur (once) in the prompt")
                    if k >= n:
                        return ("retained-missing", "message %d of the retained run msgs[%d:] does not occur (once) in the prompt" % (k, n))
                    return ("system-dropped-at-stop" if k == n - 1 else "system-dropped",
                            "system message %d precedes the retained run msgs[%d:] but does not occur (once) in the prompt" % (k, n))
                pos[k] = (s[0], e[0])
            elif s or e:
                return ("dropped-present", "message %d (role %s) is outside the retained run msgs[%d:] but occurs in the prompt" % (k, msgs[k]["role"], n))
        # --- original order
        hoist = st["fam"] == "sysrange"   # this family prints the system messages (joined) ahead of the conversation
        seqs = [[k for k in expect if k in pos]] if not hoist else \
               [[k for k in expect if k in pos and msgs[k]["role"] == "system"], [k for k in expect if k in pos and msgs[k]["role"] != "system"]]
        for sq in seqs:
            for a, b in zip(sq, sq[1:]):
                if not pos[a][1] < pos[b][0]:
                    return ("order", "messages %d and %d are not in their original order in the prompt" % (a, b))
        # --- each image of a retained message: exactly one tag with its index in the image list, inside its message
        if not lit_tags:
            tags = [(m.start(), int(m.group(1))) for m in TAG_RE.finditer(prompt)]
            idx = nskip = 0
            for k in range(n, last + 1):
                for _ in msgs[k]["images"]:
                    occ = [p for p, t in tags if t == idx]
                    if not renderable(st, msgs[k]["role"]) or k in overwritten:
                        if occ:
                            return ("image-tag-stray", "tag [img-%d] of message %d, which the template does not print, occurs in the prompt" % (idx, k))
                        idx += 1
                        nskip += 1
                        continue
                    if len(occ) != 1:
                        return ("image-tag-count", "image %d (message %d) has %d tags [img-%d] in the prompt" % (idx, k, len(occ), idx))
                    if k in pos:
                        before = [pos[j][1] for j in pos if pos[j][1] < pos[k][1]]
                        lo = max(before) if before else -1
                        if not (lo < occ[0] < pos[k][1]):
                            return ("image-tag-place", "tag [img-%d] of message %d is not inside that message" % (idx, k))
                    idx += 1
            if len(tags) != idx - nskip:
                return ("image-tag-stray", "%d image tags in the prompt, %d images of printed messages" % (len(tags), idx - nskip))
    # --- without images nothing is rewritten: the prompt is the template's rendering of system messages + retained run
    if not want and not any(m["images"] for m in msgs[n:]):
        if prompt != bytes.fromhex(o["cand_prompt"][n]):
            return ("prompt-differs", "prompt differs from the rendering of [system messages before %d] + msgs[%d:]" % (n, n))
    return None


def decode_images(c, o):
    """attach to every returned image the id of the picture it carries (None if it is none of the conversation's)"""
    flat = [i for m in c["msgs"] for i in m["images"]]
    for e in o.get("images") or []:
        img = None
        if "data" in e and not c.get("png"):
            m = re.fullmatch(rb"IMG(\d+);", bytes.fromhex(e["data"]))
            img = int(m.group(1)) if m else None
        elif 0 <= e.get("src", -1) < len(flat):
            img = flat[e["src"]]
        e["_img"] = img


def judge(c, o):
    """-> None | (sig, text)"""
    msgs = c["msgs"]
    if not msgs:
        return None          # no latest message: the property says nothing (the handler never passes an empty conversation)
    oc = o.get("outcome")
    if oc == 1:
        if c["mllama"] and any(len(m["images"]) > 1 for m in msgs):
            return None      # request rejected (more than one image in a message for this model family): no prompt is built
        return ({"class": "spurious-error"}, "chatPrompt failed with errTooManyImages without cause")
    if "cand" in o and any(x < 0 for x in o["cand"]) and not c["style"].get("boom"):
        return ({"class": "no-prompt", "why": "template-not-executable", "template": "legacy-with-subtemplates" if c["style"]["fam"].startswith("legacy") and c["style"].get("layout") else c["style"]["fam"] + "/" + str(c["style"].get("layout"))},
                "a legal template cannot be executed on this conversation (Template.Execute fails: %s): no prompt is built" % (o.get("err") or "candidate rendering failed"))
    if "cand" in o and template_error_expected(c, o):
        if oc == 3:
            return None      # the template cannot render this conversation: the error is returned, no prompt is built
        return ({"class": "template-error-lost"}, "the template fails on a list chatPrompt must render, but chatPrompt returned outcome %s" % oc)
    if oc == 3 and c.get("tok_fail"):
        return None          # the tokenizer failed: the error is returned, no prompt is built
    if oc != 0:
        return ({"class": "no-prompt", "outcome": oc}, "chatPrompt did not build a prompt: %s" % o.get("err") or o.get("panic"))
    n, alts = retained_start(c, o)
    first = None
    for a in alts:
        f = property_failure(c, o, a)
        if f is None:
            return None
        first = first or f
    return ({"class": first[0]}, first[1])


def classify(c, o):
    if not c["msgs"]:
        return "empty"
    if o.get("outcome") == 1:
        return "too-many-images"
    if o.get("outcome") != 0:
        return "no-prompt"
    n, alts = retained_start(c, o)
    last = len(c["msgs"]) - 1
    if last == 0:
        k = "single-message"
    elif n == 0:
        k = "all-fit"
    elif c["msgs"][n - 1]["role"] == "system":
        k = "stop-at-system"
    elif n == last:
        k = "only-latest"
    else:
        k = "stop-inside"
    if any(c["msgs"][j]["images"] for j in range(n, last + 1)):
        k += "+images"
    if len(alts) > 1:
        k += "+nonmonotone"
    return k


# ------------------------------------------------------------------ rendering for Coq

def msg_term(m):
    return "(mkMsg %s %s %s)" % (cq_bytes(m["role"].encode()), cq_bytes(content_of(m).encode()), cq_list([cq_N(i) for i in m["images"]], "N"))


def msgs_term(c):
    return cq_list([msg_term(m) for m in c["msgs"]], "msg")


def render_chat(c, o):
    oc = o.get("outcome")
    if "cand" in o and c["msgs"] and template_error_expected(c, o) and oc != 1:
        return "true" if oc == 3 else "false"      # template failures are not modelled; the monitor judged the outcome
    if oc not in (0, 1, 2) and not (oc == 3 and c.get("tok_fail")):
        return "false"
    prompt = bytes.fromhex(o.get("prompt", ""))
    imgs = cq_list(["(%s, %s)" % (cq_N(e["id"]), cq_N(e["_img"] if e.get("_img") is not None else 999999)) for e in o.get("images") or []], "(N * N)")
    after = cq_list([cq_bytes(bytes.fromhex(x)) for x in o.get("after") or []], "str")
    return "%s %s %s %s %s %s %s %s %s %s %s" % (
        ("chk_chat_fail %d%%nat" % c["tok_fail"]) if c.get("tok_fail") else "chk_chat",
        style_term(c["style"]), cq_N(c["tok"]), cq_bool(c["mllama"]), cq_bool(c["proj"] != 0), cq_Z(c["num_ctx"]), msgs_term(c),
        cq_N(oc), cq_bytes(prompt), imgs, after)


def render_cand(c, o):
    if any(x < 0 for x in o["cand"]):
        return "true"
    return "chk_cand %s %s %s %s %s" % (
        style_term(c["style"]), cq_N(c["tok"]), msgs_term(c),
        cq_list([cq_bytes(bytes.fromhex(x)) for x in o["cand_prompt"]], "str"), cq_list([cq_N(x) for x in o["cand"]], "N"))


def model_term(c):
    return "model_chat %s %s %s %s %s %s" % (style_term(c["style"]), cq_N(c["tok"]), cq_bool(c["mllama"]), cq_bool(c["proj"] != 0), cq_Z(c["num_ctx"]), msgs_term(c))


# ------------------------------------------------------------------ generation

def corpus_convs():
    """minimal past failures and the conversations of TestChatPrompt (prompt_test.go)"""
    def M(i, role, body, images=()):
        return {"id": i, "role": role, "body": body, "images": list(images)}
    out = [
        [M(0, "system", "you are long and do not fit at all"), M(1, "user", "hi")],
        [M(0, "user", "old message"), M(1, "system", "rules rules rules rules"), M(2, "user", "hi")],
        [M(0, "system", "a"), M(1, "system", "b b b b b b"), M(2, "assistant", "r"), M(3, "user", "hi")],
        [M(0, "user", "You're a test, Harry!"), M(1, "assistant", "I-I'm a what?"), M(2, "user", "A test. And a thumping good one at that, I'd wager.")],
        [M(0, "user", "You're a test, Harry!", [0]), M(1, "assistant", "I-I'm a what?"), M(2, "user", "A test.", [1])],
        [M(0, "user", "You're a test, Harry! [img]", [0]), M(1, "assistant", "I-I'm a what?"), M(2, "user", "A test.", [1])],
        [M(0, "user", "You're a test, Harry!"), M(1, "user", "", [0]), M(2, "user", "", [1]), M(3, "assistant", "I-I'm a what?"), M(4, "user", "A test.")],
        [M(0, "system", "You are the Test Who Lived."), M(1, "user", "You're a test, Harry!"), M(2, "assistant", "I-I'm a what?"), M(3, "user", "A test.")],
        [M(0, "user", "You're a test, Harry!"), M(1, "assistant", "I-I'm a what?"), M(2, "system", "You are the Test Who Lived."), M(3, "user", "A test.")],
        [M(0, "user", "Compare these two pictures of hotdogs", [0, 1])],
        [M(0, "user", "x [img] y [img] z", [0, 1, 2]), M(1, "user", "[img][img]", [3])],
    ]
    return out


def corpus_cases():
    """corpus/C19/*.json: complete minimal cases (template, conversation, context length) that once failed"""
    out = []
    d = os.path.join(vlib.VERIF, "corpus", "C19")
    for fn in sorted(os.listdir(d)) if os.path.isdir(d) else []:
        if fn.endswith(".json"):
            c = json.load(open(os.path.join(d, fn)))
            c["klass"] = "corpus"
            out.append(c)
    return out


def thresholds(rng, c0, o0, how_many):
    """context lengths around the boundaries of the conversation (so that the scan stops at every position)"""
    L = ctxlens(c0, o0)
    cands = set()
    for v in L:
        if v is not None:
            cands.update([v - 1, v, v + 1])
    cands = sorted(x for x in cands)
    picks = set(rng.sample(cands, min(how_many, len(cands)))) or {0}
    if rng.random() < 0.2:
        picks.add(rng.choice([0, -1, 1, 2048, 1 << 31]))
    return sorted(picks)


def gen_convs(ctx):
    rng = ctx.rng
    fixed = fixed_styles()
    convs = []   # (style, msgs, tok, mllama, proj, klass)
    for i, msgs in enumerate(corpus_convs()):
        for st in fixed + [{"fam": "sysrange", "lits": ["<<SYS>>", "<</SYS>>\n", "<INST> ", " </INST>", " ", "</s>", ""]}]:
            convs.append((st, msgs, 0 if i % 2 == 0 else 4, False, 2 if i % 3 else 0, "corpus"))
    # exhaustive role sequences (the proof's case split is on the role at the position where the scan stops)
    maxlen = 3 if ctx.quick() else 4
    k = 0
    for L in range(1, maxlen + 1):
        for roles in itertools.product(ROLES3, repeat=L):
            for longs in ([0], [1]) if ctx.quick() else itertools.product([0, 1], repeat=min(L, 2)):
                msgs = []
                for j, r in enumerate(roles):
                    body = "lorem ipsum lorem ipsum lorem" if (longs[j % len(longs)] and j < L - 1) else "hi"
                    msgs.append({"id": j, "role": r, "body": body, "images": []})
                st = (fixed + [rnd_style(rng)])[k % (len(fixed) + 1)]
                k += 1
                convs.append((st, msgs, rng.choice([0, 1, 4]), False, 0, "exhaustive-roles"))
    n = 300 if ctx.quick() else 4000
    for _ in range(n):
        st = rng.choice(fixed) if rng.random() < 0.25 else rnd_style(rng)
        msgs = rnd_conv(rng, 7 if ctx.quick() else 10)
        mll = rng.random() < 0.25
        proj = rng.choice([0, 1, 2]) if not mll else rng.choice([0, 1, 1])
        convs.append((st, msgs, rng.choice([0, 0, 1, 4, 7]), mll, proj, "random"))
    # contents with a literal image tag / exotic bytes (correspondence only for the tag placement; the property's image
    # clause is stated for contents free of "[img-")
    for _ in range(10 if ctx.quick() else 100):
        msgs = rnd_conv(rng, 4)
        j = rng.randrange(len(msgs))
        msgs[j]["body"] += rng.choice(["[img-0]", "[img-", "[img-1] [img]", "[[img]]", "[img][img-7]"])
        convs.append((rnd_style(rng), msgs, 0, rng.random() < 0.3, rng.choice([0, 1]), "literal-tag"))
    # mllama with a projector: images are real PNGs, pre-processed by chatPrompt
    for _ in range(3 if ctx.quick() else 25):
        msgs = rnd_conv(rng, 4)
        for m in msgs:
            m["images"] = m["images"][:rng.choice([1, 1, 1, 2])]
        convs.append((rnd_style(rng), msgs, 0, True, 2, "mllama-png"))
    # tool-call dialogues (assistant messages with tool calls and empty or non-empty content, tool results) for every family
    fams = ["range", "legacy", "legacyif", "sysrange"]
    for i in range(40 if ctx.quick() else 400):
        st = fixed[i % len(fixed)] if i % 5 == 4 else rnd_style(rng)
        while i % 5 != 4 and st["fam"] != fams[i % 4]:
            st = rnd_style(rng)
        convs.append((st, tool_dialogue(rng), rng.choice([0, 0, 4]), False, 0, "tool-dialogue"))
    # sequences in one process: a chat whose tokenizer / template fails after candidate renderings, then ordinary chats that
    # must be served as if nothing had happened; and big-then-small chats
    for g in range(12 if ctx.quick() else 120):
        kind = ("tok-fail", "tmpl-fail", "big-small")[g % 3]
        st = rnd_style(rng)
        while kind == "tmpl-fail" and st["fam"] != "range":
            st = rnd_style(rng)
        big = [dict(m, id=500 + m["id"]) for m in rnd_conv(rng, 7)]
        while len(big) < 3:
            big = [dict(m, id=500 + m["id"]) for m in rnd_conv(rng, 7)]
        for m in big:
            m["body"] = m["body"] + " " + rnd_body(rng, long=True)
            m.pop("raw", None)
        if kind == "tmpl-fail":
            st = dict(st, boom=True)
            big[rng.randrange(len(big) - 1)]["role"] = "boom"
        convs.append((st, big, 0, False, 0, "seq-" + kind, {"seq": g, "pos": 0, "kind": kind}))
        followers = [[{"id": 0, "role": "user", "body": "hi", "images": []}], rnd_conv(rng, 4), tool_dialogue(rng) if g % 2 else rnd_conv(rng, 3)]
        for pos, fm in enumerate(followers, 1):
            convs.append((rnd_style(rng) if pos > 1 else st, fm, 0, False, 0, "seq-follow", {"seq": g, "pos": pos, "kind": kind}))
    return convs


def run_cases(ctx, binp, cases):
    obs, err = ctx.run_jsonl(binp, [wire(c) for c in cases])
    if obs is None or len(obs) != len(cases):
        ctx.obligation("harness c19 answered every case", False, str(err))
        ctx.proof_failures.append({"obligation": "correspondence: harness c19 did not answer every case", "detail": str(err)})
        return None
    for c, o in zip(cases, obs):
        if "harness_error" in o or ("panic" in o and "outcome" not in o):
            ctx.obligation("harness c19 handled every case", False, json.dumps(o)[:500])
            ctx.proof_failures.append({"obligation": "correspondence: harness c19 failed on a case", "detail": {"case": c, "impl": o}})
            return None
        decode_images(c, o)
    return obs


def shrink(ctx, binp, c, sig):
    """smallest conversation / context of the same failure class"""
    def fails(msgs, num_ctx=None):
        if not msgs:
            return False
        cc = dict(c, msgs=msgs, num_ctx=c["num_ctx"] if num_ctx is None else num_ctx)
        obs, _ = ctx.run_jsonl(binp, [wire(cc)])
        if not obs or "outcome" not in obs[0]:
            return False
        decode_images(cc, obs[0])
        j = judge(cc, obs[0])
        return j is not None and j[0] == sig
    msgs = c["msgs"]
    if len(msgs) > 1:
        if fails([msgs[-1]]):
            msgs = [msgs[-1]]
        else:
            msgs = vlib.ddmin(msgs[:-1], lambda sub: fails(sub + [msgs[-1]]), max_tests=60) + [msgs[-1]]
    # shorter bodies, fewer images
    for i in range(len(msgs)):
        for alt in ({"body": "hi"}, {"body": "a b c d e f"}, {"images": []}):
            if all(msgs[i].get(k) == v for k, v in alt.items()) or "raw" in msgs[i]:
                continue
            cand = msgs[:i] + [dict(msgs[i], **alt)] + msgs[i + 1:]
            if fails(cand):
                msgs = cand
    out = dict(c, msgs=msgs)
    obs, _ = ctx.run_jsonl(binp, [wire(out)])
    decode_images(out, obs[0])
    return out, obs[0]


def describe(c, o):
    return {"template": style_text(c["style"]), "tokenizer": "white-space fields" if c["tok"] == 0 else "one token per %d bytes" % c["tok"],
            "num_ctx": c["num_ctx"], "mllama": c["mllama"], "projector": c["proj"],
            "messages": [dict({"role": m["role"], "content": content_of(m), "images": m["images"]}, **({"tool_calls": m["tools"]} if m.get("tools") else {})) for m in c["msgs"]],
            "tokenizer_fails_on_call": c.get("tok_fail", 0),
            "candidate_context_lengths": ctxlens(c, o) if "cand" in o else None, "after_a_failed_request": c.get("kind"),
            "prompt": bytes.fromhex(o.get("prompt", "")).decode("utf-8", "replace"),
            "images_returned": [(e["id"], e.get("_img")) for e in o.get("images") or []], "outcome": o.get("outcome"), "err": o.get("err")}


def check_cases(ctx, binp, cases, obs, cand_done):
    """monitor + correspondence on executed cases"""
    items, owners = [], []
    for c, o in zip(cases, obs):
        klass = classify(c, o)
        canon = {"t": style_text(c["style"]), "m": [(m["role"], content_of(m), m["images"], m.get("tools", 0)) for m in c["msgs"]], "tf": c.get("tok_fail", 0), "k": c["tok"], "ml": c["mllama"], "p": c["proj"], "n": c["num_ctx"]}
        ctx.note_case(canon, klass not in ("single-message", "empty"), klass, sample=describe(c, o))
        ctx.count("gen:" + c["klass"])
        ctx.count("family:" + c["style"]["fam"])
        if c["style"].get("layout"):
            ctx.count("layout:" + c["style"]["fam"] + "/" + c["style"]["layout"] + ("+tools" if c["style"].get("tools_sub") else ""))
        j = judge(c, o)
        if j is not None:
            sig, text = j
            nclass = sum(1 for v in ctx.violations if v["sig"].get("class") == sig.get("class"))
            fresh = None
            if nclass < 3:
                fo, _ = ctx.run_jsonl(binp, [wire(c)])
                if fo and "outcome" in fo[0]:
                    decode_images(c, fo[0])
                    fresh = judge(c, fo[0])
            if nclass < 3 and fresh is None and fo and "outcome" in fo[0]:
                # the same request is served correctly by a fresh process: the failure depends on what this process did before
                idx = cases.index(c)
                prefix = cases[max(0, idx - 6):idx]
                for k in (1, 2, 3, 4, 6):
                    pre = cases[max(0, idx - k):idx]
                    po, _ = ctx.run_jsonl(binp, [wire(x) for x in pre + [c]])
                    if po and len(po) == len(pre) + 1 and "outcome" in po[-1]:
                        decode_images(c, po[-1])
                        jj = judge(c, po[-1])
                        if jj is not None and jj[0] == sig:
                            prefix = pre
                            break
                decode_images(c, o)
                ctx.violation(dict(sig, state="depends-on-earlier-requests"),
                              text + " (a fresh process serves this request correctly; it fails after %d earlier request(s) in the same process, the first of which: %s) -- %s"
                              % (len(prefix), json.dumps(describe(prefix[0], {}))[:400] if prefix else "-", json.dumps(describe(c, o))[:1200]),
                              {"case": c, "prefix": prefix, "wire": [wire(x) for x in prefix + [c]], "impl": o, "readable": describe(c, o)})
            else:
                if nclass < 3:
                    try:
                        c2, o2 = shrink(ctx, binp, c, sig)
                    except Exception as ex:   # the shrinker must never hide the failure
                        ctx.log("shrink failed:", ex)
                        c2, o2 = c, o
                else:
                    c2, o2 = c, o
                j2 = judge(c2, o2)
                if j2 is None:
                    c2, o2, j2 = c, o, j
                ctx.violation(j2[0], j2[1] + " -- " + json.dumps(describe(c2, o2))[:1500], {"case": c2, "wire": wire(c2), "impl": o2, "readable": describe(c2, o2)})
        items.append(render_chat(c, o))
        owners.append((c, o, "chk_chat"))
        key = id(c["msgs"]), style_text(c["style"]), c["tok"]
        if key not in cand_done and "cand" in o:
            cand_done.add(key)
            items.append(render_cand(c, o))
            owners.append((c, o, "chk_cand"))
    bad, log = ctx.coq_eval(HEADER, items, per_file=max(40, min(250, len(items) // 16 + 1)))
    if bad is None:
        ctx.obligation("correspondence: model evaluated on all cases", False, log)
        ctx.proof_failures.append({"obligation": "correspondence evaluation failed in coqc", "detail": log})
        return
    ctx.disagreements_checked += len(items)
    ctx.obligation("correspondence: model = implementation on %d comparisons" % len(items), not bad)
    explored = 0
    for i in bad[:20]:
        c, o, what = owners[i]
        if explored < 5 and not ctx.violations and c["msgs"] and "cand" in o:
            # look around the disagreeing case for an input on which the property itself fails
            explored += 1
            var = []
            for t in sorted(set(x + d for x in ctxlens(c, o) for d in (-1, 0, 1))):
                for ml, pj in ((c["mllama"], c["proj"]), (False, 0), (False, 1)):
                    var.append(dict(c, num_ctx=t, mllama=ml, proj=pj, png=False if not ml else c.get("png", False)))
            for k in range(1, len(c["msgs"])):
                var.append(dict(c, msgs=c["msgs"][k:]))
            vobs, _ = ctx.run_jsonl(binp, [wire(v) for v in var])
            for v, vo in zip(var, vobs or []):
                if "outcome" not in vo:
                    continue
                decode_images(v, vo)
                j = judge(v, vo)
                if j is not None:
                    ctx.violation(j[0], j[1] + " -- " + json.dumps(describe(v, vo))[:1500], {"case": v, "wire": wire(v), "impl": vo, "readable": describe(v, vo), "found_near_disagreement": describe(c, o)})
                    break
        ctx.mismatch("Prompt/Corr.%s" % what, {"readable": describe(c, o), "case": c, "wire": wire(c)}, o,
                     ctx.coq_print(HEADER, model_term(c)) if len(ctx.mismatches) < 3 else None)


def run(ctx):
    ctx.rule = ("conversations: corpus (past failures, TestChatPrompt's table), every role sequence over {system,user,assistant} up to length %d, "
                "random conversations (roles incl. unknown ones, bodies of 0-20 words with unique begin/end markers, 0-3 images per message, "
                "0-4 [img] placeholders, repeated pictures, empty contents, assistant tool calls and tool results), tool-call dialogues, sequences in one "
                "process (a chat whose tokenizer fails on call k / whose template fails mid-rendering / a big chat, then chats that fit exactly) x templates (chatml.gotmpl, TestChatPrompt's, and four families with random "
                "literal texts) x tokenizers (fields, 1/4/7 bytes) x model kinds (clip/mllama, projector nil/empty/set); for every conversation the "
                "context lengths are picked around the measured candidate lengths so that the scan stops at every position; non-trivial = more than "
                "one message; distinct = canonical JSON of template+conversation+parameters" % (3 if ctx.quick() else 4))
    ctx.trusted = ["Coq 8.16.1 kernel + vm_compute", "hand-written model coq/Prompt/Model.v tied to server/prompt.go and template/template.go by this differential run only",
                   "Go harness harness/cmd/c19 (its two tokenizers are the harness's own) and overlay export VerifChatPrompt (add-only, build tag verif)",
                   "in-package test harness harness/overlay/server/c19_test.go for POST /api/chat (scheduler and runner are the mocks of server/routes_generate_test.go)",
                   "Go text/template for templates outside the four modelled families", "python generator and monitor (props/c19.py)"]
    ctx.assumptions = ["'fits' is what chatPrompt measures: tokens of the template's rendering of [system messages before k] + msgs[k:] (+ image tokens) <= num_ctx",
                       "image clause: contents free of the literal '[img-' (as in DESIGN section 5)",
                       "prompt-level containment is proved for the modelled template families; for an arbitrary renderer the theorems speak about the message list handed to it"]
    ctx.proof_stage(["Prompt"], "Prompt/Properties_C19.v", extra_targets=["Prompt/Corr.v"])
    binp = ctx.go_build("c19")
    if not binp:
        return
    convs = gen_convs(ctx)
    # phase 1: measure the candidate lengths (num_ctx irrelevant for them)
    probe = [dict(mk_case(cv[0], cv[1], cv[2], cv[3], cv[4], 0, cv[5], png=(cv[5] == "mllama-png")), **(cv[6] if len(cv) > 6 else {})) for cv in convs]
    probe.append(mk_case(fixed_styles()[-1], [], 0, False, 0, 5, "empty"))
    obs0 = run_cases(ctx, binp, probe)
    if obs0 is None:
        return
    cases, seqs = [], []
    for c0, o0 in zip(probe, obs0):
        if not c0["msgs"]:
            cases.append(c0)
            continue
        if "seq" in c0:
            L = [v for v in ctxlens(c0, o0) if v is not None]
            if c0["pos"] == 0:
                # everything measured (all candidates rendered); the failure comes at one of the calls / at the boom message
                c1 = dict(c0, num_ctx=max(L + [0]) + ctx.rng.choice([0, 0, 5]))
                if c0["kind"] == "tok-fail":
                    c1["tok_fail"] = ctx.rng.randint(1, len(c0["msgs"]) - 1)
                seqs.append(c1)
            else:
                # the follower fits exactly: any over-count of its first candidate drops a message
                seqs.append(dict(c0, num_ctx=(L[0] if ctx.rng.random() < 0.7 else ctx.rng.choice(L)) if L else 0))
            continue
        per = 3 if c0["klass"] in ("random", "literal-tag", "mllama-png") else (2 if ctx.quick() else 4)
        if c0["klass"] == "corpus":
            per = 4
        for t in thresholds(ctx.rng, c0, o0, per):
            cases.append(dict(c0, num_ctx=t))
    cases = corpus_cases() + cases + seqs      # the sequences stay in order, all in the one harness process
    obs = run_cases(ctx, binp, cases)
    if obs is None:
        return
    check_cases(ctx, binp, cases, obs, set())
    handler_check(ctx)
    if not ctx.quick():
        ctx.coqchk(["V.Prompt.Properties_C19", "V.Prompt.Corr"])


# ------------------------------------------------------------------ end to end: POST /api/chat

def chat_conv(c):
    """the conversation of a chat request as the user sees it: the model's messages, the request's messages, and the
    model's system prompt in front unless the request brings its own leading system message"""
    conv = [dict(m, role=m["role"].lower()) for m in list(c["model_msgs"]) + list(c["msgs"])]   # the API lower-cases roles
    if c["msgs"] and conv[len(c["model_msgs"])]["role"] != "system" and c["system"] is not None:
        conv = [c["system"]] + conv
    return conv


def wire_chat(c):
    w = lambda ms: [{"role": m["role"].encode().hex(), "content": content_of(m).encode().hex(), "images": [img_bytes(i).hex() for i in m["images"]], "tool_calls": m.get("tools", 0)} for m in ms]
    return {"tmpl": style_text(c["style"]).encode().hex(), "system": (content_of(c["system"]) if c["system"] else "").encode().hex(),
            "model_msgs": w(c["model_msgs"]), "msgs": w(c["msgs"]), "num_ctx": c["num_ctx"]}


def as_prompt_case(c):
    return {"style": c["style"], "msgs": chat_conv(c), "tok": 0, "mllama": False, "proj": 0, "num_ctx": c["num_ctx"], "klass": "handler", "png": False}


def render_handler(c, o):
    oc = o.get("outcome")
    imgs = cq_list(["(%s, %s)" % (cq_N(e["id"]), cq_N(e["_img"] if e.get("_img") is not None else 999999)) for e in o.get("images") or []], "(N * N)")
    return "chk_handler %s %s %s %s %s %s %s %s" % (
        style_term(c["style"]), cq_Z(c["num_ctx"]), cq_bytes((content_of(c["system"]) if c["system"] else "").encode()),
        cq_list([msg_term(dict(m, role=m["role"].lower())) for m in c["model_msgs"]], "msg"), cq_list([msg_term(dict(m, role=m["role"].lower())) for m in c["msgs"]], "msg"),
        cq_N(oc if oc in (0, 1, 2) else 3), cq_bytes(bytes.fromhex(o.get("prompt", ""))), imgs)


def run_chat(ctx, binp, cases):
    env = dict(vlib.goenv(), VERIF_C19_CHAT="1")
    obs, err = ctx.run_jsonl(binp, [wire_chat(c) for c in cases], args=["-test.run", "TestVerifC19Chat$"], env=env)
    if obs is None or len(obs) != len(cases) or any("harness_error" in o for o in obs):
        ctx.obligation("harness c19chat answered every case", False, str(err)[-1500:] + json.dumps([o for o in obs or [] if "harness_error" in o][:2]))
        ctx.proof_failures.append({"obligation": "correspondence: harness c19chat (POST /api/chat) did not answer every case", "detail": str(err)[-1500:]})
        return None
    for c, o in zip(cases, obs):
        decode_images(as_prompt_case(c), o)
    return obs


def eval_handler(ctx, c, o, items, owners, tag, extra=None):
    """monitor + model comparison for one POST /api/chat observation; False = the harness misbehaved"""
    pc = as_prompt_case(c)
    ctx.note_case({"handler": wire_chat(c), "tag": tag, "ri": (extra or {}).get("request_index")}, True, tag + ":" + classify(pc, o), sample=describe(pc, o))
    want_conv = [{"role": m["role"].encode().hex(), "content": content_of(m).encode().hex(), "images": [img_bytes(i).hex() for i in m["images"]]} for m in pc["msgs"]]
    if o.get("conv") != want_conv or (o.get("outcome") == 0 and o.get("num_ctx_used") != c["num_ctx"]):
        ctx.obligation("harness c19chat ran the conversation it was given", False, json.dumps({"want": want_conv, "got": o.get("conv"), "num_ctx_used": o.get("num_ctx_used")})[:1500])
        ctx.proof_failures.append({"obligation": "correspondence: harness c19chat", "detail": "conversation / num_ctx differ from the case"})
        return False
    j = judge(pc, o)
    if j is not None:
        sig = dict(j[0], via="POST /api/chat")
        how = ""
        if extra:
            how = " [request %d of %d to one model, %s]" % (extra["request_index"] + 1, len(extra["multi_case"]["reqs"]),
                                                           "first request parked in Tokenize while the others were served" if extra["multi_case"]["overlap"] else "served one after the other")
            sig["requests"] = "overlapping" if extra["multi_case"]["overlap"] else "sequential"
        ctx.violation(sig, "POST /api/chat" + how + ": " + j[1] + " -- " + json.dumps(describe(pc, o))[:1500],
                      dict({"case": pc, "handler_case": c, "wire": wire_chat(c), "impl": o, "readable": describe(pc, o)}, **(extra or {})))
    items.append(render_handler(c, o))
    owners.append((c, o, extra))
    return True


def handler_style(rng):
    """templates of the POST /api/chat stage (legacy templates with sub-templates are left to the direct stage: known finding)"""
    st = rng.choice(fixed_styles()) if rng.random() < 0.3 else rnd_style(rng)
    if st["fam"].startswith("legacy") and st.get("layout"):
        st = {k: v for k, v in st.items() if k != "layout"}
    return st


def handler_corpus():
    """requests that once exposed a defect of the chat handler; they run first, with fixed context lengths.
    Image-only turns (empty / blank content + picture): a handler that drops 'blank' request messages loses the turn and
    its image, or answers without building a prompt at all."""
    def M(i, role, body, images=(), raw=None):
        m = {"id": i, "role": role, "body": body, "images": list(images)}
        if raw is not None:
            m["raw"] = raw
        return m
    fx = fixed_styles()
    sysm = {"id": 900, "role": "system", "body": "be brief", "images": []}
    out = []
    for st in (fx[0], fx[1], fx[2]):
        for system in (None, sysm):
            for blank in ("", " "):
                out.append({"style": st, "system": system, "model_msgs": [], "fixed_ctx": [2048, 1],
                            "msgs": [M(0, "user", "what is this"), M(1, "user", "", [0], raw=blank)]})
                out.append({"style": st, "system": None, "model_msgs": [], "fixed_ctx": [2048],
                            "msgs": [M(0, "system", "rules"), M(1, "user", "", [0], raw=blank)]})
                out.append({"style": st, "system": system, "model_msgs": [M(0, "user", "earlier"), M(1, "assistant", "answer")], "fixed_ctx": [2048],
                            "msgs": [M(2, "user", "", [0], raw=blank), M(3, "user", "and this text")]})
                out.append({"style": st, "system": system, "model_msgs": [], "fixed_ctx": [2048],
                            "msgs": [M(0, "user", "", [0, 1], raw=blank)]})
    for c in out:
        c["num_ctx"] = 1
    return out


def handler_check(ctx):
    """POST /api/chat through the real ChatHandler: what reaches the runner is the prompt of the whole conversation"""
    binp = ctx.go_build(**CHAT_BUILD)
    if not binp:
        return
    rng = ctx.rng
    base = handler_corpus()
    for i in range(50 if ctx.quick() else 500):
        st = handler_style(rng)
        msgs = tool_dialogue(rng) if i % 4 == 3 else rnd_conv(rng, 6)
        if i % 5 == 1:                          # a turn that is just a picture (empty or blank content), last or in the middle
            k = len(msgs) - 1 if i % 2 else rng.randrange(len(msgs))
            msgs[k] = {"id": msgs[k]["id"], "role": "user", "body": "", "raw": rng.choice(["", "", " ", "\n"]), "images": [40 + i]}
        j = rng.randrange(len(msgs))            # msgs[:j] are the model's own messages, msgs[j:] the request
        model_msgs = [dict(m, images=[], body=m["body"].replace("[img]", "")) for m in msgs[:j]]
        system = None if rng.random() < 0.35 else {"id": 900, "role": "system", "body": rnd_body(rng, long=rng.random() < 0.3), "images": []}
        base.append({"style": st, "system": system, "model_msgs": model_msgs, "msgs": msgs[j:], "num_ctx": 1})
    obs0 = run_chat(ctx, binp, base)
    if obs0 is None:
        return
    cases = []
    for c0, o0 in zip(base, obs0):
        pc = as_prompt_case(c0)
        for t in c0.get("fixed_ctx") or thresholds(rng, pc, o0, 2):
            cases.append(dict(c0, num_ctx=max(1, t)))
    obs = run_chat(ctx, binp, cases)
    if obs is None:
        return
    items, owners = [], []
    for c, o in zip(cases, obs):
        if not eval_handler(ctx, c, o, items, owners, "handler"):
            return
    # several requests to one model: A, B, A in order (stale shared state) and A parked inside the runner's Tokenize
    # while B is served completely (state shared between overlapping requests)
    multi = []
    for i in range(40 if ctx.quick() else 300):
        st = handler_style(rng)
        k = rng.choice([0, 1, 2, 3, 3, 5, 5, 6, 7])
        model_msgs = [{"id": j, "role": ("user", "assistant")[j % 2], "body": rnd_body(rng), "images": []} for j in range(k)]
        system = None if rng.random() < 0.55 else {"id": 900, "role": "system", "body": rnd_body(rng), "images": []}

        def req(base):
            ms = [{"id": base, "role": "user", "body": rnd_body(rng) + " q%d" % base, "images": []}]
            if rng.random() < 0.3:
                ms = [{"id": base + 1, "role": rng.choice(["user", "assistant", "system"]), "body": rnd_body(rng), "images": []}] + ms
            return {"msgs": ms, "num_ctx": 2048 if rng.random() < 0.7 else rng.choice([3, 8, 15, 30])}
        a, b = req(100), req(200)
        overlap = i % 2 == 0
        multi.append({"style": st, "system": system, "model_msgs": model_msgs, "reqs": [a, b] if overlap else [a, b, dict(a)], "overlap": overlap,
                      "park": ("(%d:" % a["msgs"][-1]["id"]).encode().hex()})
    env = dict(vlib.goenv(), VERIF_C19_CHAT="1")
    wm = lambda ms: [{"role": m["role"].encode().hex(), "content": content_of(m).encode().hex(), "images": [], "tool_calls": 0} for m in ms]
    wires = [{"tmpl": style_text(c["style"]).encode().hex(), "system": (content_of(c["system"]) if c["system"] else "").encode().hex(), "model_msgs": wm(c["model_msgs"]),
              "reqs": [{"msgs": wm(r["msgs"]), "num_ctx": r["num_ctx"]} for r in c["reqs"]], "overlap": c["overlap"], "park": c["park"]} for c in multi]
    mobs, err = ctx.run_jsonl(binp, wires, args=["-test.run", "TestVerifC19Chat$"], env=env)
    if mobs is None or len(mobs) != len(multi) or any("multi" not in o for o in mobs):
        ctx.obligation("harness c19chat answered every multi-request case", False, str(err)[-1500:] + json.dumps([o for o in mobs or [] if "multi" not in o][:2])[:800])
        ctx.proof_failures.append({"obligation": "correspondence: harness c19chat (several requests per model) did not answer every case", "detail": str(err)[-1500:]})
        return
    nparked = 0
    for c, mo in zip(multi, mobs):
        nparked += 1 if mo.get("parked") else 0
        for ri, (r, o) in enumerate(zip(c["reqs"], mo["multi"])):
            hc = {"style": c["style"], "system": c["system"], "model_msgs": c["model_msgs"], "msgs": r["msgs"], "num_ctx": r["num_ctx"]}
            decode_images(as_prompt_case(hc), o)
            tag = "handler-overlap" if c["overlap"] else "handler-seq"
            if not eval_handler(ctx, hc, o, items, owners, tag, extra={"multi_case": c, "request_index": ri, "parked": mo.get("parked"), "wire_multi": wires[multi.index(c)]}):
                return
    ctx.extra["handler_overlap_parked"] = nparked
    ctx.obligation("overlapping requests really overlapped (request A parked in Tokenize in %d of %d cases)" % (nparked, sum(1 for c in multi if c["overlap"])),
                   nparked * 2 >= sum(1 for c in multi if c["overlap"]))
    bad, log = ctx.coq_eval(HEADER, items, per_file=max(20, len(items) // 8 + 1), name="handler")
    if bad is None:
        ctx.obligation("correspondence: handler model evaluated on all cases", False, log)
        ctx.proof_failures.append({"obligation": "correspondence evaluation failed in coqc (handler)", "detail": log})
        return
    ctx.disagreements_checked += len(items)
    ctx.obligation("correspondence: model = POST /api/chat on %d requests" % len(items), not bad)
    for i in bad[:10]:
        hc, o, extra = owners[i]
        pc = as_prompt_case(hc)
        ctx.mismatch("Prompt/Corr.chk_handler", dict({"readable": describe(pc, o), "handler_case": hc, "wire": wire_chat(hc)}, **(extra or {})), o,
                     ctx.coq_print(HEADER, model_term(pc)) if len(ctx.mismatches) < 3 else None)


def replay(ctx, path):
    r = json.load(open(path))
    ctx.log("replaying", path)
    rp = r.get("replay") or (r.get("disagreements") or [{}])[0].get("case") or {}
    c, hc = rp.get("case"), rp.get("handler_case")
    if not c and not hc:
        return run(ctx)
    ctx.proof_stage(["Prompt"], "Prompt/Properties_C19.v", extra_targets=["Prompt/Corr.v"])
    if hc and rp.get("multi_case"):       # several requests to one model (in order / overlapping): re-run them all
        binp = ctx.go_build(**CHAT_BUILD)
        if not binp:
            return
        mc = rp["multi_case"]
        mobs, err = ctx.run_jsonl(binp, [rp["wire_multi"]], args=["-test.run", "TestVerifC19Chat$"], env=dict(vlib.goenv(), VERIF_C19_CHAT="1"))
        if not mobs or "multi" not in mobs[0]:
            ctx.obligation("harness c19chat answered the replayed case", False, str(err)[-1500:])
            ctx.proof_failures.append({"obligation": "correspondence: harness c19chat did not answer the replayed case", "detail": str(err)[-1500:]})
            return
        items, owners = [], []
        for ri, (r, o) in enumerate(zip(mc["reqs"], mobs[0]["multi"])):
            h = {"style": mc["style"], "system": mc["system"], "model_msgs": mc["model_msgs"], "msgs": r["msgs"], "num_ctx": r["num_ctx"]}
            decode_images(as_prompt_case(h), o)
            print(json.dumps(describe(as_prompt_case(h), o), indent=1))
            eval_handler(ctx, h, o, items, owners, "handler-overlap" if mc["overlap"] else "handler-seq",
                         extra={"multi_case": mc, "request_index": ri, "parked": mobs[0].get("parked"), "wire_multi": rp["wire_multi"]})
        bad, log = ctx.coq_eval(HEADER, items, name="handler")
        ctx.obligation("correspondence: model = POST /api/chat on the replayed requests", bad == [], log)
        for i in bad or []:
            ctx.mismatch("Prompt/Corr.chk_handler", {"handler_case": owners[i][0]}, owners[i][1])
        return
    if hc:       # a POST /api/chat case
        binp = ctx.go_build(**CHAT_BUILD)
        obs = run_chat(ctx, binp, [hc]) if binp else None
        if obs is None:
            return
        pc = as_prompt_case(hc)
        print(json.dumps(describe(pc, obs[0]), indent=1))
        ctx.note_case({"handler": wire_chat(hc)}, True, "handler:" + classify(pc, obs[0]))
        j = judge(pc, obs[0])
        if j is not None:
            ctx.violation(dict(j[0], via="POST /api/chat"), "POST /api/chat: " + j[1], {"case": pc, "handler_case": hc, "impl": obs[0], "readable": describe(pc, obs[0])})
        bad, log = ctx.coq_eval(HEADER, [render_handler(hc, obs[0])], name="handler")
        ctx.obligation("correspondence: model = POST /api/chat on the replayed request", bad == [], log)
        if bad:
            ctx.mismatch("Prompt/Corr.chk_handler", {"readable": describe(pc, obs[0]), "handler_case": hc}, obs[0], ctx.coq_print(HEADER, model_term(pc)))
        return
    binp = ctx.go_build("c19")
    if not binp:
        return
    seq = list(rp.get("prefix") or []) + [c]      # earlier requests of the same process first
    obs = run_cases(ctx, binp, seq)
    if obs is None:
        return
    print(json.dumps(describe(c, obs[-1]), indent=1))
    check_cases(ctx, binp, seq, obs, set())


MANIFEST = {
    "property_id": "C19",
    "quick_cmd": "python3 check.py C19 --tier quick",
    "thorough_cmd": "python3 check.py C19 --tier thorough",
    "evidence_file": "evidence/C19.json",
    "replay_cmd_template": "python3 check.py C19 --replay {path}",
    "engine": "coq-model+go-differential",
    "level_claimed": {
        "category": "proof",
        "text": "Coq theorems about an executable model of server/prompt.go chatPrompt for every conversation, context length, token counter and "
                "renderer (template style): the latest message is retained, the retained messages are the run msgs[n:] with n the least start all of "
                "whose later suffixes fit (the longest fitting suffix when fitting is monotone, only the latest message if nothing more fits), every "
                "system message before n is handed to the template ahead of the run in the original order, every image of a retained message gets "
                "exactly one tag carrying its index in the returned image list and images of dropped messages are not returned; prompt-level "
                "containment for the modelled template families.  The model is tied to the real chatPrompt/Template.Execute/collate by a "
                "differential run evaluated inside Coq (vm_compute), and the property is monitored directly on the implementation's output.",
        "design_ref": "DESIGN.md section 5, C19",
    },
    "level_note": "Trusted: Coq kernel/vm_compute; the model-to-code tie is differential testing (generator-bounded); the renderer is a parameter of the "
                  "theorems (any function), prompt-string statements hold for the modelled template families only; image clause for contents free of '[img-'.",
    "technique": "Coq proof (induction over the backwards scan and over the image-numbering loop) + model/implementation differential check + property monitor",
}
