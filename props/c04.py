"""C04 - every listed model is complete; operations on one model never damage another.

Tie (S): random and corpus histories of API operations (blob upload, create from files / from a model with
overrides so that layers are shared, copy, delete, pull from a local fake registry, start-up prune) are run through
the REAL handlers (server.Server.GenerateRoutes via httptest) and the REAL server.Serve start-up sequence on a scratch
OLLAMA_MODELS; after every operation the directory is projected (manifests parsed independently, every blob hashed)
and compared with the Coq model (Store/Ops.v, evaluated by vm_compute).  Monitor: the property itself on the
projection and on the API's own answers (/api/tags, /api/show).
"""
import hashlib
import json
import os
import re
import subprocess

from lib import vlib
from lib.vlib import cq_bytes, cq_list, cq_N

SETUP_BUILDS = [{"name": "c04"}]
COQ_TARGETS = ["Store/Properties_C04.v", "Store/Corr.v", "Store/Pull2.v"]
HEADER = ("From Coq Require Import List NArith Bool.\nFrom V Require Import Common.Bytes Store.Fs Store.Ops Store.Corr Store.Pull2.\n"
          "Import ListNotations.\nOpen Scope N_scope.\n")

MT = {
    "application/vnd.ollama.image.model": 0, "application/vnd.ollama.image.adapter": 1,
    "application/vnd.ollama.image.projector": 2, "application/vnd.ollama.image.template": 3,
    "application/vnd.ollama.image.system": 4, "application/vnd.ollama.image.params": 5,
    "application/vnd.ollama.image.messages": 6, "application/vnd.ollama.image.license": 7,
    "application/vnd.docker.container.image.v1+json": 8, "": 9,
}
DEFAULT_HOST, DEFAULT_NS, DEFAULT_TAG = "registry.ollama.ai", "library", "latest"
HEX64 = re.compile(r"^[0-9a-fA-F]{64}$")


def sha(b):
    return hashlib.sha256(b).hexdigest()


# ----------------------------------------------------------------------------------------------- names

def parse_name(s):
    """model.ParseName for the well-formed names the generator produces -> (host, ns, model, tag)"""
    tag = DEFAULT_TAG
    s = re.sub(r"^https?://", "", s)   # (the new pull path takes the scheme from the name)
    if s.rfind(":") > s.rfind("/"):
        s, tag = s.rsplit(":", 1)
    parts = s.split("/")
    if len(parts) == 1:
        return (DEFAULT_HOST, DEFAULT_NS, parts[0], tag)
    if len(parts) == 2:
        return (DEFAULT_HOST, parts[0], parts[1], tag)
    return (parts[-3], parts[-2], parts[-1], tag)


def fold(n):
    return tuple(x.lower() for x in n)


def cq_name(n):
    return "(MkName %s %s %s %s)" % tuple(cq_bytes(x.encode()) for x in n)


# ----------------------------------------------------------------------------------------------- id tables

class Ids:
    """hex strings (exact spelling) <-> small numbers; sizes of contents"""

    def __init__(self):
        self.hexid = {}
        self.size = {}

    def h(self, hexstr):
        if hexstr not in self.hexid:
            self.hexid[hexstr] = len(self.hexid) + 1
        return self.hexid[hexstr]

    def content(self, b):
        i = self.h(sha(b))
        self.size[i] = len(b)
        return i

    def digest(self, s):
        """'sha256:<hex>' / 'sha256-<hex>' -> Coq digest"""
        m = re.match(r"^sha256([:-])([0-9a-fA-F]{64})$", s)
        if not m:
            raise ValueError("digest outside the modelled grammar: %r" % s)
        return "(MkDigest %s %s)" % ("true" if m.group(1) == ":" else "false", cq_N(self.h(m.group(2))))

    def tbl(self):
        return cq_list(["(%s,%s)" % (cq_N(k), cq_N(v)) for k, v in sorted(self.size.items())], "(N*N)")


def cq_layer(ids, l):
    return "(MkLayer %s %s %s)" % (cq_N(MT.get(l["mediaType"], 9)), ids.digest(l["digest"]), cq_N(l["size"]))


def cq_store(ids, st):
    mans = []
    for e in st["manifests"] + st["blobs"]:
        if e.get("linked") or e.get("symlink") is not None or e.get("nlink"):
            raise ValueError("%s shares an inode with / is a link to another file (%s): the model has no aliased files"
                             % (e.get("path") or e.get("name"), e.get("linked") or e.get("symlink") or "nlink=%s" % e.get("nlink")))
    for m in st["manifests"]:
        parts = m["path"].split("/")
        if len(parts) != 4:
            raise ValueError("manifest file outside the modelled layout: %r" % m["path"])
        if m["readable"]:
            ms = "(Readable (MkManifest %s %s))" % (cq_layer(ids, m["config"]), cq_list([cq_layer(ids, l) for l in m["layers"]], "layer"))
        else:
            ms = "Unreadable"
        mans.append("(%s, %s)" % (cq_name(tuple(parts)), ms))
    blobs, debris = [], []
    for b in st["blobs"]:
        nm = b["name"]
        ids.size.setdefault(ids.h(b["sha"]), b["size"])
        mc = re.match(r"^sha256:([0-9a-fA-F]{64})(-partial)?$", nm)
        if mc:
            debris.append("(DColonPartial %s)" % cq_N(ids.h(mc.group(1))) if mc.group(2) else
                          "(DColon %s %s)" % (cq_N(ids.h(mc.group(1))), cq_N(ids.h(b["sha"]))))
            continue
        m = re.match(r"^sha256-([0-9a-fA-F]{64})(-partial(-(\d+))?)?$", nm)
        if m and not m.group(2):
            blobs.append("(%s,%s)" % (cq_N(ids.h(m.group(1))), cq_N(ids.h(b["sha"]))))
        elif m and m.group(4) is not None:
            debris.append("(DPartRec %s %s %s)" % (cq_N(ids.h(m.group(1))), cq_N(int(m.group(4))),
                                                   {"torn": "PRTorn", "todo": "PRTodo", "done": "PRDone"}[b.get("part", "torn")]))
        elif m:
            debris.append("(DPartial %s)" % cq_N(ids.h(m.group(1))))
        elif re.match(r"^sha256-\d+$", nm):
            debris.append("DTemp")
        else:
            raise ValueError("file in blobs/ outside the modelled kinds: %r" % nm)
    if st.get("other"):
        raise ValueError("unexpected entries in the models directory: %r" % st["other"])
    return "(MkStore %s %s %s)" % (cq_list(mans, "(name*mstate)"), cq_list(blobs, "(N*N)"), cq_list(debris, "dfile"))


# ----------------------------------------------------------------------------------------------- fixtures

class Fixtures:
    """GGUF files written by the real ggml.WriteGGUF, and what create derives from each of them (probe run)"""

    def __init__(self, ctx, binp):
        idx = json.load(open(os.path.join(vlib.REPO, "template", "index.json")))
        chat = {e["name"]: e["template"] for e in reversed(idx)}
        kvs = {
            "g0": {"general.architecture": "llama"},
            "g1": {"general.architecture": "llama", "general.name": "one"},
            "ga": {"general.architecture": "llama", "general.type": "adapter"},
            "gp": {"general.architecture": "clip", "general.type": "projector"},
            "gt": {"general.architecture": "llama", "tokenizer.chat_template": chat["chatml"]},
            "gz": {"general.architecture": "llama", "general.name": "z", "tokenizer.chat_template": chat["zephyr"]},
        }
        p = subprocess.run([binp, "gguf"], input="".join(json.dumps({"kv": kv}) + "\n" for kv in kvs.values()),
                           capture_output=True, text=True, timeout=120)
        outs = [json.loads(l) for l in p.stdout.split("\n") if l.startswith("{")]
        if len(outs) != len(kvs):
            raise RuntimeError("gguf fixture generation failed: " + p.stderr[-1500:])
        self.data = {k: bytes.fromhex(o["data"]) for k, o in zip(kvs, outs)}
        # a GGUF followed by trailing bytes: the decoder stops before the end of the file, the layer becomes a section
        # copy (NewLayer) and the next decode fails; two concatenated GGUFs: two section copies
        self.data["g0x"] = self.data["g0"] + b"\x00\x01\x02trailing"
        self.data["g01"] = self.data["g0"] + self.data["g1"]
        self.data["gt1"] = self.data["gt"] + self.data["g1"]
        # blobs in which no GGUF can be decoded: a GGUF cut inside its header (after the magic, the version, the counts,
        # a complete key/value) makes ggml.Decode answer io.EOF; something that is no GGUF at all
        self.data["c4"] = self.data["g0"][:4]
        self.data["c8"] = self.data["g0"][:8]
        self.data["c24"] = self.data["g1"][:24]
        self.data["ckv"] = self.data["g1"][:len(self.data["g0"])]   # g1 after its first key/value (as long as all of g0)
        self.data["gbad"] = b"this is not a GGUF file, whatever its name says"
        self.empty = {"c4", "c8", "c24", "ckv", "gbad"}
        self.parts = {k: [None] for k in kvs}          # None: the GGUF spans the whole blob
        self.parts.update({k: [] for k in self.empty})
        self.parts.update({"g0x": ["g0"], "g01": ["g0", "g1"], "gt1": ["gt", "g1"]})
        self.fail = {"g0x"}
        # probe: what does create derive from each file (media types, detected layers)?
        ops = []
        for k, b in self.data.items():
            ops.append({"op": "blob", "digest": "sha256:" + sha(b), "data": b.hex()})
            ops.append({"op": "create", "name": "probe-" + k, "files": {"f.gguf": "sha256:" + sha(b)}})
        obs, err = ctx.run_jsonl(binp, [{"ops": ops, "noapi": True, "keep": True}])
        if not obs or len(obs[0]["obs"]) != len(ops):
            raise RuntimeError("fixture probe failed: " + str(err))
        self.probe = {}
        self.det_bytes = {}
        pdir = obs[0]["dir"]
        for i, k in enumerate(self.data):
            st = obs[0]["obs"][2 * i + 1]["state"]
            man = [m for m in st["manifests"] if m["path"].split("/")[2] == "probe-" + k]
            if k in self.empty:
                # (whether the create is rejected is what the check is about: no expectation here)
                self.probe[k] = {"mts": [], "det": []}
                continue
            if k in self.fail:
                if man:
                    raise RuntimeError("fixture probe: create from %s was expected to fail" % k)
                self.probe[k] = {"mts": [self.probe[c]["mts"][0] for c in self.parts[k]], "det": []}
                continue
            if not man or not man[0]["readable"]:
                raise RuntimeError("fixture probe: create from %s failed: %s" % (k, obs[0]["obs"][2 * i + 1].get("body")))
            ls = man[0]["layers"]
            np_ = len(self.parts[k])
            sizes = {b["name"][7:]: b["size"] for b in st["blobs"]}
            self.probe[k] = {"mts": [MT[l["mediaType"]] for l in ls[:np_]],
                             "det": [(MT[l["mediaType"]], l["digest"][7:], sizes[l["digest"][7:]]) for l in ls[np_:]]}
            for l in ls[np_:]:
                self.det_bytes[(k, MT[l["mediaType"]])] = open(os.path.join(pdir, "blobs", "sha256-" + l["digest"][7:]), "rb").read()
        import shutil
        shutil.rmtree(pdir, ignore_errors=True)
        self.names = list(self.data)
        self.by_sha = {sha(b): k for k, b in self.data.items()}


# ----------------------------------------------------------------------------------------------- generator

HOSTS = ["", "example.com/", "Example.com/"]
NSS = ["", "ns/", "NS/", "ns2/"]
MODELS = ["m", "M", "model", "Model", "mo"]
TAGS = ["", ":t", ":T", ":t2", ":latest"]
SYSTEMS = ["You are S1.", "You are S2.", "sys three"]
TEMPLATES = ["{{ .Prompt }}", "{{ .System }} {{ .Prompt }}", "{{ if .System }}<s>{{ .System }}{{ end }}{{ .Prompt }}"]
BAD_TEMPLATE = "{{ .Prompt"
LICENSES = ["MIT", "Apache-2.0 text"]
PARAMS = [{"temperature": 0.5}, {"stop": ["a", "b"]}, {"temperature": 0.5, "top_k": 10}]
MESSAGES = [[{"role": "user", "content": "hi"}], [{"role": "user", "content": "hi"}, {"role": "assistant", "content": "yo"}]]


def rnd_name(rng, used, p_used=0.6):
    if used and rng.random() < p_used:
        n = rng.choice(used)
        r = rng.random()
        if r < 0.45:
            return n
        # a case variant of a used name (any subset of the parts re-cased)
        tag = ""
        body = n
        if body.rfind(":") > body.rfind("/"):
            body, tag = body.rsplit(":", 1)
            tag = ":" + tag
        parts = body.split("/")
        parts = [x.swapcase() if rng.random() < 0.5 else x for x in parts]
        if rng.random() < 0.3:
            tag = tag.swapcase()
        return "/".join(parts) + tag
    h = rng.choice(HOSTS)
    ns = rng.choice(NSS)
    if h and not ns:
        ns = "ns/"
    return h + ns + rng.choice(MODELS) + rng.choice(TAGS)


MT_NAME = {v: k for k, v in MT.items()}
CONFIGS = [b'{"model_format":"gguf","model_family":"llama"}', b'{"model_format":"gguf"}']


def mk_layer(mt, b):
    return {"mediaType": MT_NAME[mt], "digest": "sha256:" + sha(b), "size": len(b)}


def gen_pull(rng, fx, name, fault=None, small=False):
    """a pull of `name` from the fake registry serving a manifest assembled from the shared pools"""
    bodies = [(0, fx.data[rng.choice(["g0", "g1"])])]
    if not small and rng.random() < 0.6:
        bodies.append((4, rng.choice(SYSTEMS).encode()))
    if not small and rng.random() < 0.4:
        bodies.append((3, rng.choice(TEMPLATES).encode()))
    if not small and rng.random() < 0.2:
        bodies.append((7, rng.choice(LICENSES).encode()))
    if rng.random() < 0.3:
        # an empty layer (no parts, the -partial file is renamed at once): first, in the middle or last
        have = {mt for mt, _ in bodies}
        mt = rng.choice([m for m in (4, 3, 7) if m not in have] or [7])
        bodies.insert(rng.randint(0, len(bodies)), (mt, b""))
    cfg = rng.choice(CONFIGS)
    man = {"schemaVersion": 2, "mediaType": "application/vnd.docker.distribution.manifest.v2+json",
           "config": mk_layer(8, cfg), "layers": [mk_layer(mt, b) for mt, b in bodies]}
    blobs = {"sha256:" + sha(b): b.hex() for _, b in bodies + [(8, cfg)]}
    n = parse_name(name)
    op = {"op": "pull", "name": name, "_served": [b for _, b in bodies] + [cfg]}
    if fault == "no-manifest":
        reg = {"manifests": {}, "blobs": {}}
        op["_served"] = None
    else:
        if fault == "missing-blob":
            i = rng.randrange(len(bodies) + 1)
            d = (man["layers"] + [man["config"]])[i]["digest"]
            # every layer with that digest is unavailable
            first = [l["digest"] for l in man["layers"] + [man["config"]]].index(d)
            blobs.pop(d)
            op["_served"] = [None if l["digest"] == d else b for l, b in zip(man["layers"] + [man["config"]], op["_served"])]
        elif fault == "corrupt-last":
            d = man["config"]["digest"]
            blobs[d] = (cfg + b"!").hex()
            op["_served"][-1] = cfg + b"!"
        reg = {"manifests": {(n[1] + "/" + n[2] + ":" + n[3]).lower(): man}, "blobs": blobs}
    op["registry"] = reg
    op["_manifest"] = man
    return op


LINKS = [("dir", "example.com"), ("dir", "Example.com"), ("dir", "registry.ollama.ai/ns"), ("dir", "registry.ollama.ai/NS"),
         ("dir", "example.com/ns2"), ("dir", "registry.ollama.ai/library/m"), ("dir", "registry.ollama.ai/ns/model"),
         ("dir", "example.com/ns/M"), ("dangling", "registry.ollama.ai/ghost"), ("dangling", "example.com/ns/ghost"), ("blobs", "")]


def gen_links(rng, choices=None):
    """store layouts with symbolic links: a host / namespace / model directory below manifests/ (or blobs/) is a link to a
    directory elsewhere, or a link that dangles; planted before anything uses the path"""
    picks = rng.sample(choices or LINKS, rng.randint(1, 3))
    seen, out = set(), []
    for kind, path in picks:
        # a link below a dangling link or below the same path cannot be made
        if path in seen or any(path.startswith(p + "/") or p.startswith(path + "/") for p in seen if kind == "dangling" or p in [x for k, x in picks if k == "dangling"]):
            continue
        seen.add(path)
        out.append({"op": "linkdir", "kind": kind, "path": path})
    out.sort(key=lambda o: o["path"].count("/"))   # outer directories first
    return out


def gen_legacy(rng, fx, uploaded):
    """the store as an older version left it: some blob files named sha256:<hex>, old partial downloads"""
    cand = [sha(fx.data[k]) for k in uploaded] + [sha(x.encode()) for x in SYSTEMS + TEMPLATES + LICENSES] + [sha(c) for c in CONFIGS]
    for k in uploaded:
        cand += [h for (_, h, _) in fx.probe[k]["det"]]
    blobs = rng.sample(cand, min(len(cand), rng.randint(1, 4))) + ([sha(b"nothing has this content")] if rng.random() < 0.3 else [])
    partials = [sha(fx.data[rng.choice(fx.names)])] if rng.random() < 0.5 else []
    return {"op": "legacy", "blobs": blobs, "partials": partials}


_ZERO_SHA = {}


def zero_sha(n):
    if n not in _ZERO_SHA:
        h = hashlib.sha256()
        chunk = bytes(1 << 20)
        left = n
        while left > 0:
            h.update(chunk[:min(left, len(chunk))])
            left -= len(chunk)
        _ZERO_SHA[n] = h.hexdigest()
    return _ZERO_SHA[n]


def gen_pull_big(rng, fx, name):
    """a pull whose manifest has a layer of two download parts: 100 MB + a few KB of zeros, served procedurally"""
    n_big = 100 * 1000 * 1000 + rng.choice([4096, 70000])
    model = fx.data[rng.choice(["g0", "g1"])]
    cfg = rng.choice(CONFIGS)
    big = {"mediaType": MT_NAME[7], "digest": "sha256:" + zero_sha(n_big), "size": n_big}
    man = {"schemaVersion": 2, "mediaType": "application/vnd.docker.distribution.manifest.v2+json",
           "config": mk_layer(8, cfg), "layers": [mk_layer(0, model), big]}
    n = parse_name(name)
    blobs = {"sha256:" + sha(model): model.hex(), "sha256:" + sha(cfg): cfg.hex(), big["digest"]: "zeros:%d" % n_big}
    return {"op": "pull", "name": name, "registry": {"manifests": {(n[1] + "/" + n[2] + ":" + n[3]).lower(): man}, "blobs": blobs},
            "_manifest": man, "_served": None, "_big": True}


MIB = 1 << 20
EMPTY_DIGEST = "sha256:" + sha(b"")


def gen_pull2_hist(rng, fx, name):
    """a pull through the new code path (OLLAMA_EXPERIMENT=client2) as one operation of a history: a model layer, some of
    system / template / a license long enough to come in chunks, mostly with a layer of length 0 (first, in the middle or last);
    now and then one chunk fails (the scratch file and the records of the other chunks stay)"""
    import random
    bodies = [(0, fx.data[rng.choice(["g0", "g1"])])]
    if rng.random() < 0.5:
        bodies.append((4, rng.choice(SYSTEMS).encode()))
    if rng.random() < 0.4:
        bodies.append((7, P2_LICENSE + rng.choice([b"A", b"BB"])))
    if rng.random() < 0.3:
        bodies.append((3, rng.choice(TEMPLATES).encode()))
    if rng.random() < 0.75:
        have = {mt for mt, _ in bodies}
        mt = rng.choice([m for m in (4, 3, 7) if m not in have] or [7])
        bodies.insert(rng.randint(0, len(bodies)), (mt, b""))
    cfg = rng.choice(CONFIGS)
    # (one chunking per content, whatever the history: the records name the ranges)
    layouts = {sha(b): chunk_layout(random.Random(int(sha(b)[:8], 16)), b) for _, b in bodies if len(b) >= P2_THRESHOLD}
    faults = None
    if rng.random() < 0.2:
        _, b = rng.choice(bodies)
        a = rng.choice(layouts.get(sha(b), [[0, len(b) - 1]]))[0]
        faults = {"sha256:%s@%d" % (sha(b), a): "404" if not b else rng.choice(["404", "corrupt"])}
    return gen_pull2(rng, fx, name, bodies, cfg, layouts, faults=faults)


def gen_abort(rng, fx, uploaded, used):
    """a request whose body ends with a read error after k bytes were received (the client went away): k = 0, a few
    bytes, more than 1 MiB.  A blob upload (of a fixture, padded with zeros for the long one) or a create request."""
    size = rng.choice(["zero", "small", "small", "big", "big"])
    if rng.random() < 0.7:
        k = rng.choice(fx.names if rng.random() < 0.8 or not uploaded else uploaded)
        b = fx.data[k]
        op = {"op": "blob", "digest": "sha256:" + sha(b), "data": b.hex(), "_fx": k}
        if size == "big":
            op["zeros"] = 2 * MIB
            op["abort"] = MIB + rng.randint(1, 200000)
        else:
            op["abort"] = 0 if size == "zero" else rng.randint(1, max(1, len(b) - 1))
        return op
    if uploaded and rng.random() < 0.5:
        op = {"op": "create", "name": rnd_name(rng, used), "files": {"model.gguf": "sha256:" + sha(fx.data[rng.choice(uploaded)])}}
    else:
        op = {"op": "create", "name": rnd_name(rng, used), "from": rnd_name(rng, used, 0.9)}
    op["system"] = rng.choice(SYSTEMS)
    op["template"] = rng.choice(TEMPLATES)
    if size == "big":
        op["pad"] = MIB + MIB // 2
        op["abort"] = MIB + rng.randint(1, 200000)
    else:
        op["abort"] = 0 if size == "zero" else rng.randint(1, 60)
    return op


def gen_history(rng, fx, n_ops, klass):
    """one history; returns list of ops (harness format, plus private '_' keys used for the oracle)"""
    ops, used, uploaded = [], [], []
    p_abort = 0.75 if klass == "abort" else 0.12
    if klass in ("mixed", "long") and rng.random() < 0.3:
        ops += gen_links(rng)

    def upload(k, spelling="colon"):
        b = fx.data[k]
        d = ("sha256:" if spelling != "dash" else "sha256-") + (sha(b).upper() if spelling == "upper" else sha(b))
        ops.append({"op": "blob", "digest": d, "data": b.hex(), "_fx": k})
        if k not in uploaded:
            uploaded.append(k)

    def overrides(op, p=0.45):
        if rng.random() < p:
            op["system"] = rng.choice(SYSTEMS)
        if rng.random() < p * 0.7:
            op["template"] = rng.choice(TEMPLATES) if rng.random() < 0.9 else BAD_TEMPLATE
        if rng.random() < p * 0.4:
            op["license"] = rng.choice(LICENSES) if rng.random() < 0.7 else list(LICENSES)
        if rng.random() < p * 0.6:
            op["parameters"] = rng.choice(PARAMS)
        if rng.random() < p * 0.4:
            op["messages"] = rng.choice(MESSAGES)

    for _ in range(n_ops):
        r = rng.random()
        if klass == "abort":
            r = 0.10 + r * 0.55 if uploaded and rng.random() < 0.7 else r    # mostly creates
        if 0.10 <= r < 0.55 and uploaded:
            # a fault before a create: nothing of the failed request may show in the layers made afterwards
            while rng.random() < p_abort:
                ops.append(gen_abort(rng, fx, uploaded, used))
        if klass in ("pull", "pull2") and rng.random() < 0.12:
            # the empty blob is there before a pull that may list an empty layer
            ops.append({"op": "blob", "digest": EMPTY_DIGEST, "data": ""})
        if klass == "pull2" and rng.random() < 0.4:
            n4 = parse_name(rnd_name(rng, used, 0.5))
            ops.append(gen_pull2_hist(rng, fx, "%s/%s/%s:%s" % n4))
            used.append("%s/%s/%s:%s" % n4)
        elif klass in ("pull", "pull2") and rng.random() < 0.3:
            name = rnd_name(rng, used, 0.5)
            ops.append(gen_pull(rng, fx, name, rng.choice([None] * 5 + ["no-manifest", "missing-blob", "corrupt-last"])))
            used.append(name)
        elif r < 0.10 or not uploaded:
            upload(rng.choice(fx.names), rng.choice(["colon"] * 6 + ["dash", "upper"]))
        elif r < 0.32:
            k = rng.choice(uploaded) if rng.random() < 0.9 else rng.choice(fx.names)
            sp = rng.choice(["colon"] * 5 + ["dash"] * 2 + ["upper"])
            d = ("sha256:" if sp != "dash" else "sha256-") + (sha(fx.data[k]).upper() if sp == "upper" else sha(fx.data[k]))
            if klass != "spelling" and sp != "colon" and rng.random() < 0.5:
                d = "sha256:" + sha(fx.data[k])
            if rng.random() < 0.25 and k not in uploaded:
                pass
            elif rng.random() < 0.3:
                upload(k)
            op = {"op": "create", "name": rnd_name(rng, used), "files": {"model.gguf": d}, "_fx": k}
            overrides(op, 0.9 if klass == "abort" else 0.45)
            ops.append(op)
            used.append(op["name"])
        elif r < 0.55:
            src = rnd_name(rng, used, 0.92)
            op = {"op": "create", "name": rnd_name(rng, used, 0.7), "from": src}
            if rng.random() < 0.25:
                op["name"] = src  # re-create in place
            overrides(op, 0.9 if klass == "abort" else 0.6)
            ops.append(op)
            used.append(op["name"])
        elif r < 0.70:
            op = {"op": "copy", "src": rnd_name(rng, used, 0.95), "dst": rnd_name(rng, used, 0.55)}
            ops.append(op)
            used.append(op["dst"])
        elif r < 0.86:
            ops.append({"op": "delete", "name": rnd_name(rng, used, 0.95)})
        elif r < 0.875 and uploaded:
            # does the blob exist?  both spellings name one file, the hex case is kept
            h = sha(fx.data[rng.choice(uploaded if rng.random() < 0.8 else fx.names)])
            ops.append({"op": "head", "digest": rng.choice(["sha256:" + h, "sha256-" + h, "sha256:" + h.upper(), "sha256-" + h.upper()])})
        elif r < 0.89 and klass not in ("pull", "pull2"):
            ops.append(gen_legacy(rng, fx, uploaded))
            ops.append({"op": "startup"})
        else:
            ops.append({"op": "startup"} if rng.random() < 0.75 else {"op": "startup", "env": ["OLLAMA_NOPRUNE=1"]})
    blobs_linked = any(o["op"] == "linkdir" and o["kind"] == "blobs" for o in ops)
    if blobs_linked:
        ops = [o for o in ops if o["op"] != "legacy"]
    if klass not in ("pull", "pull2") and not blobs_linked and rng.random() < 0.35:
        ops.append(gen_legacy(rng, fx, uploaded))
    if rng.random() < 0.7 or (ops and ops[-1]["op"] == "legacy"):
        ops.append({"op": "startup"})
    return ops


def corpus_empty_layers(fx):
    """listed models whose manifest has a layer of length 0, made by both pull paths: the empty layer last / first / in the
    middle, the blob sha256-e3b0c442... absent, present (another model uses it; uploaded), gone again; a pull that fails at the
    empty layer and is repeated; then the user works on what is listed"""
    import random
    g0, g1, cfg, lic = fx.data["g0"], fx.data["g1"], CONFIGS[0], P2_LICENSE + b"A"

    def p2(name, bodies, faults=None):
        lay = {sha(b): chunk_layout(random.Random(int(sha(b)[:8], 16)), b) for _, b in bodies if len(b) >= P2_THRESHOLD}
        return gen_pull2(None, fx, name, bodies, cfg, lay, faults=faults)

    def p1(name, bodies):
        man = {"schemaVersion": 2, "mediaType": "application/vnd.docker.distribution.manifest.v2+json",
               "config": mk_layer(8, cfg), "layers": [mk_layer(mt, b) for mt, b in bodies]}
        n = parse_name(name)
        return {"op": "pull", "name": name, "_served": [b for _, b in bodies] + [cfg], "_manifest": man,
                "registry": {"manifests": {(n[1] + "/" + n[2] + ":" + n[3]).lower(): man},
                             "blobs": {"sha256:" + sha(b): b.hex() for _, b in bodies + [(8, cfg)]}}}
    return [
        p2("example.com/ns/last:t", [(0, g0), (4, b"")]),                                    # blob absent
        {"op": "create", "name": "d-last", "from": "example.com/ns/last:t", "template": TEMPLATES[0]},
        {"op": "startup"},
        p2("example.com/ns/first:t", [(7, b""), (0, g0), (4, SYSTEMS[1].encode())]),          # blob present: used by two models
        {"op": "delete", "name": "d-last"},
        {"op": "delete", "name": "example.com/ns/last:t"},
        {"op": "delete", "name": "example.com/ns/first:t"},                                  # ... and gone again
        {"op": "startup"},                                                                   # (the chunk records go)
        p2("example.com/ns/mid:t", [(0, g1), (3, b""), (7, lic)], faults={EMPTY_DIGEST + "@0": "404"}),   # fails at the empty layer
        p2("example.com/ns/mid:t", [(0, g1), (3, b""), (7, lic)]),
        {"op": "create", "name": "d-mid", "from": "example.com/ns/mid:t", "system": SYSTEMS[0]},
        {"op": "startup", "env": ["OLLAMA_NOPRUNE=1"]},
        {"op": "delete", "name": "example.com/ns/mid:t"},
        {"op": "delete", "name": "d-mid"},
        # (the records of the deleted layers are still there; the scratch files are not: since fix 701fe013a no record counts
        #  when the scratch file is empty on opening, every chunk is fetched again and the pull succeeds)
        p2("example.com/ns/stale:t", [(0, g1), (4, b"")]),
        {"op": "startup"},
        {"op": "blob", "digest": EMPTY_DIGEST, "data": ""},                                  # uploaded, used by nothing
        p2("example.com/ns/two:t", [(4, b""), (0, g0), (7, b"")]),
        p1("example.com/ns/old-first:t", [(4, b""), (0, g0)]),
        {"op": "delete", "name": "example.com/ns/two:t"},
        {"op": "delete", "name": "example.com/ns/old-first:t"},
        p1("example.com/ns/old-last:t", [(0, g1), (7, lic), (3, b"")]),                       # the old path, blob absent
        {"op": "create", "name": "d-old", "from": "example.com/ns/old-last:t", "system": SYSTEMS[2]},
        {"op": "startup"},
    ]


def corpus_pull_over_existing(fx):
    """the old pull over a model that exists (its clean-up of the replaced manifest's layers must keep what another model or
    the new manifest still uses), then the start-up prune; create from a GGUF whose detected template equals the TEMPLATE given"""
    g0, g1, cfg = fx.data["g0"], fx.data["g1"], CONFIGS[0]

    def p1(name, bodies):
        man = {"schemaVersion": 2, "mediaType": "application/vnd.docker.distribution.manifest.v2+json",
               "config": mk_layer(8, cfg), "layers": [mk_layer(mt, b) for mt, b in bodies]}
        n = parse_name(name)
        return {"op": "pull", "name": name, "_served": [b for _, b in bodies] + [cfg], "_manifest": man,
                "registry": {"manifests": {(n[1] + "/" + n[2] + ":" + n[3]).lower(): man},
                             "blobs": {"sha256:" + sha(b): b.hex() for _, b in bodies + [(8, cfg)]}}}
    s1, s2, lic = SYSTEMS[0].encode(), SYSTEMS[1].encode(), LICENSES[0].encode()
    return [
        p1("example.com/ns/a:t", [(0, g0), (4, s1), (7, lic)]),
        {"op": "copy", "src": "example.com/ns/a:t", "dst": "example.com/ns/b:t"},
        p1("example.com/ns/a:t", [(0, g0), (4, s2)]),          # replaces a:t; g0 and the config stay in use, s1 and the license by b:t
        {"op": "startup"},
        p1("example.com/ns/b:t", [(0, g1), (4, s2)]),          # replaces b:t: now s1, the license (and g0? no: a:t) go
        {"op": "startup"},
        {"op": "blob", "digest": "sha256:" + sha(fx.data["gt"]), "data": fx.data["gt"].hex(), "_fx": "gt"},
        {"op": "create", "name": "same-tpl", "files": {"m.gguf": "sha256:" + sha(fx.data["gt"])}, "_fx": "gt",
         "template": fx.det_bytes[("gt", 3)].decode()},
        {"op": "create", "name": "other-tpl", "files": {"m.gguf": "sha256:" + sha(fx.data["gt"])}, "_fx": "gt", "template": TEMPLATES[1]},
        {"op": "startup"},
    ]


CORPUS = [
    ("pull-over-existing-then-prune", corpus_pull_over_existing),
    ("pulls-with-empty-layers", corpus_empty_layers),
    # faults before a create: uploads and a create request whose bodies end with a read error after 0 / a few /
    # more than 2^20 bytes; the layers the server makes afterwards (system, template, params, messages, license,
    # config) must be stored under the hash of their own content
    ("aborted-requests-then-create", lambda fx: [
        {"op": "blob", "digest": "sha256:" + sha(fx.data["g0"]), "data": fx.data["g0"].hex(), "_fx": "g0"},
        {"op": "blob", "digest": "sha256:" + sha(fx.data["g1"]), "data": fx.data["g1"].hex(), "_fx": "g1", "abort": 0},
        {"op": "blob", "digest": "sha256:" + sha(fx.data["g1"]), "data": fx.data["g1"].hex(), "_fx": "g1", "abort": 17},
        {"op": "create", "name": "a1", "files": {"m.gguf": "sha256:" + sha(fx.data["g0"])}, "_fx": "g0", "system": SYSTEMS[0],
         "template": TEMPLATES[1], "parameters": PARAMS[2], "messages": MESSAGES[1], "license": list(LICENSES)},
        {"op": "blob", "digest": "sha256:" + sha(fx.data["gt"]), "data": fx.data["gt"].hex(), "_fx": "gt", "zeros": 2 * MIB, "abort": MIB + 4097},
        {"op": "create", "name": "a2", "from": "a1", "system": SYSTEMS[1], "parameters": PARAMS[1]},
        {"op": "create", "name": "a3", "from": "a1", "system": SYSTEMS[2], "abort": 23},
        {"op": "create", "name": "a3", "from": "a2", "system": SYSTEMS[2], "pad": MIB + MIB // 2, "abort": MIB + 5},
        {"op": "create", "name": "a4", "from": "a2", "template": TEMPLATES[2], "messages": MESSAGES[0], "license": LICENSES[0]},
        {"op": "blob", "digest": "sha256:" + sha(fx.data["g1"]), "data": fx.data["g1"].hex(), "_fx": "g1"},
        {"op": "startup"},
    ]),
    # getExistingName: the stored names h/ns/Model:t and h/ns2/model:t2, then create of a case variant
    ("case-two-stored", lambda fx: [
        {"op": "blob", "digest": "sha256:" + sha(fx.data["g0"]), "data": fx.data["g0"].hex(), "_fx": "g0"},
        {"op": "create", "name": "example.com/ns/Model:t", "files": {"m.gguf": "sha256:" + sha(fx.data["g0"])}, "_fx": "g0"},
        {"op": "create", "name": "example.com/ns2/model:t2", "files": {"m.gguf": "sha256:" + sha(fx.data["g0"])}, "_fx": "g0", "system": "You are S1."},
        {"op": "create", "name": "example.com/ns/model:t", "from": "example.com/ns/Model:t", "system": "You are S2."},
        {"op": "delete", "name": "example.com/ns/Model:t"},
        {"op": "startup"}]),
    # digest spelled sha256-<hex> in the create request
    ("dash-spelling", lambda fx: [
        {"op": "blob", "digest": "sha256:" + sha(fx.data["g0"]), "data": fx.data["g0"].hex(), "_fx": "g0"},
        {"op": "create", "name": "a", "files": {"m.gguf": "sha256:" + sha(fx.data["g0"])}, "_fx": "g0"},
        {"op": "create", "name": "c", "files": {"m.gguf": "sha256-" + sha(fx.data["g0"])}, "_fx": "g0"},
        {"op": "delete", "name": "a"},
        {"op": "startup"}]),
    # a GGUF cut after its magic: ggml.Decode answers io.EOF, ggufLayers found no layer at all
    ("create-from-truncated-gguf", lambda fx: [
        {"op": "blob", "digest": "sha256:" + sha(fx.data["c4"]), "data": fx.data["c4"].hex(), "_fx": "c4"},
        {"op": "create", "name": "cut", "files": {"model.gguf": "sha256:" + sha(fx.data["c4"])}, "_fx": "c4", "system": "You are S1."},
        {"op": "create", "name": "cut2", "from": "cut"},
        {"op": "blob", "digest": "sha256:" + sha(fx.data["ckv"]), "data": fx.data["ckv"].hex(), "_fx": "ckv"},
        {"op": "create", "name": "cut3", "files": {"model.gguf": "sha256:" + sha(fx.data["ckv"])}, "_fx": "ckv"},
        {"op": "startup"}]),
    # create FROM a model that does not exist
    ("from-missing", lambda fx: [
        {"op": "create", "name": "x", "from": "nonexistent", "system": "You are S2."}]),
    # removeLayer only scans the stored manifests: a LICENSE text equal to the auto-detected params JSON loses its blob when
    # a PARAMETER override replaces the detected params layer
    ("inflight-layer-deleted", lambda fx: [
        {"op": "blob", "digest": "sha256:" + sha(fx.data["gt"]), "data": fx.data["gt"].hex(), "_fx": "gt"},
        {"op": "create", "name": "x", "files": {"m.gguf": "sha256:" + sha(fx.data["gt"])}, "_fx": "gt",
         "license": fx.det_bytes[("gt", 5)].decode(), "parameters": {"temperature": 0.5}}]),
    # a store of an older version: blob files spelled sha256:<hex>; start-up has to rename them before it prunes
    ("legacy-colon-blobs", lambda fx: [
        {"op": "blob", "digest": "sha256:" + sha(fx.data["gt"]), "data": fx.data["gt"].hex(), "_fx": "gt"},
        {"op": "create", "name": "a", "files": {"m.gguf": "sha256:" + sha(fx.data["gt"])}, "_fx": "gt", "system": "You are S1."},
        {"op": "create", "name": "b", "from": "a", "system": "You are S2."},
        {"op": "legacy", "blobs": [sha(fx.data["gt"]), sha(b"You are S1."), fx.probe["gt"]["det"][0][1], sha(b"absent")],
         "partials": [sha(fx.data["g0"])]},
        {"op": "startup"},
        {"op": "startup"},
        {"op": "delete", "name": "a"}]),
    # a namespace directory that is a symbolic link (PruneDirectory keeps such links; create/copy/pull/show work through them):
    # the models below it must take part in every reference scan
    ("linked-namespace", lambda fx: [
        {"op": "linkdir", "kind": "dir", "path": "registry.ollama.ai/team"},
        {"op": "linkdir", "kind": "dangling", "path": "registry.ollama.ai/ghost"},
        {"op": "blob", "digest": "sha256:" + sha(fx.data["g0"]), "data": fx.data["g0"].hex(), "_fx": "g0"},
        {"op": "create", "name": "team/base", "files": {"m.gguf": "sha256:" + sha(fx.data["g0"])}, "_fx": "g0", "system": "You are S1."},
        {"op": "create", "name": "scratch", "files": {"m.gguf": "sha256:" + sha(fx.data["g0"])}, "_fx": "g0"},
        {"op": "delete", "name": "scratch"},
        {"op": "startup"},
        {"op": "copy", "src": "team/base", "dst": "team/copy"},
        {"op": "delete", "name": "team/base"},
        {"op": "startup"}]),
    ("legacy-store-linked-blobs-dir", lambda fx: [
        {"op": "linkdir", "kind": "blobs", "path": ""},
        {"op": "blob", "digest": "sha256:" + sha(fx.data["g0"]), "data": fx.data["g0"].hex(), "_fx": "g0"},
        {"op": "create", "name": "a", "files": {"m.gguf": "sha256:" + sha(fx.data["g0"])}, "_fx": "g0", "system": "You are S1."},
        {"op": "legacy", "blobs": [sha(fx.data["g0"]), sha(b"You are S1.")], "partials": [sha(fx.data["g1"])]},
        {"op": "startup"}]),
    ("linked-blobs-dir", lambda fx: [
        {"op": "linkdir", "kind": "blobs", "path": ""},
        {"op": "linkdir", "kind": "dir", "path": "registry.ollama.ai/library/m"},
        {"op": "blob", "digest": "sha256:" + sha(fx.data["gt"]), "data": fx.data["gt"].hex(), "_fx": "gt"},
        {"op": "create", "name": "m:t", "files": {"m.gguf": "sha256:" + sha(fx.data["gt"])}, "_fx": "gt"},
        {"op": "create", "name": "m:t2", "from": "m:t", "system": "You are S2."},
        {"op": "startup"},
        {"op": "delete", "name": "m:t"},
        {"op": "startup"}]),
    # pull of a name whose default host is stored with another letter case
    ("pull-default-host-case", lambda fx: [
        {"op": "blob", "digest": "sha256:" + sha(fx.data["g0"]), "data": fx.data["g0"].hex(), "_fx": "g0"},
        {"op": "create", "name": "Registry.Ollama.AI/library/m:t", "files": {"m.gguf": "sha256:" + sha(fx.data["g0"])}, "_fx": "g0"},
        gen_pull(__import__("random").Random(4), fx, "m:t"),
        {"op": "startup"}]),
]


# ----------------------------------------------------------------------------------------------- oracle: op -> Coq

def op_target(op):
    """the names an operation is about (folded): only these may change"""
    k = op["op"]
    if op.get("abort") is not None:
        return set()
    if k in ("create", "delete", "pull"):
        return {fold(parse_name(op["name"]))}
    if k == "copy":
        return {fold(parse_name(op["dst"]))}
    return set()


def find_manifest(st, n, exact=True):
    for m in st["manifests"]:
        p = tuple(m["path"].split("/"))
        if p == n or (not exact and fold(p) == fold(n)):
            return m
    return None


def canon_existing(st, n):
    """the repaired getExistingName (python twin used only to locate the oracle's manifest)"""
    best, bk = n, 0
    for m in st["manifests"]:
        if not m["readable"]:
            continue
        e = tuple(m["path"].split("/"))
        k = 0
        while k < 4 and e[k].lower() == n[k].lower():
            k += 1
        c = e[:k] + n[k:]
        s = lambda x: "%s/%s/%s:%s" % x
        if k > bk or (k == bk and k > 0 and s(c).encode() < s(best).encode()):
            best, bk = c, k
    return best


def cq_opt(x):
    return "None" if x is None else "(Some %s)" % x


def op_to_coq(ids, fx, op, before, after):
    k = op["op"]
    if k == "blob":
        return "(OBlob %s %s)" % (ids.digest(op["digest"]), cq_N(ids.content(bytes.fromhex(op["data"]))))
    if k == "copy":
        return "(OCopy %s %s)" % (cq_name(parse_name(op["src"])), cq_name(parse_name(op["dst"])))
    if k == "delete":
        return "(ODelete %s)" % cq_name(parse_name(op["name"]))
    if k == "startup":
        return "OStartup"
    if k == "pull":
        order = cq_list([cq_N(ids.h(h)) for h in op.get("_ord", [])], "N")
        if op["_served"] is None:
            return "(OPull %s None %s)" % (cq_name(parse_name(op["name"])), order)
        man = op["_manifest"]
        for l in man["layers"] + [man["config"]]:
            ids.size.setdefault(ids.h(l["digest"][7:]), l["size"])
        m = "(MkManifest %s %s)" % (cq_layer(ids, man["config"]), cq_list([cq_layer(ids, l) for l in man["layers"]], "layer"))
        return "(OPull %s (Some (MkServed %s %s)) %s)" % (cq_name(parse_name(op["name"])), m, cq_list(["None" if b is None else "(Some %s)" % cq_N(ids.content(b)) for b in op["_served"]], "(option N)"), order)
    if k == "create":
        n = parse_name(op["name"])
        res = find_manifest(after, canon_existing(before, n))
        res_layers = res["layers"] if res and res["readable"] else []
        has_params = False
        if "files" in op:
            d = list(op["files"].values())[0]
            f = op.get("_fx") or fx.by_sha.get(d[7:].lower())
            if f is None:
                raise ValueError("create from a blob that is none of the fixtures: %r" % d)
            pr = fx.probe[f]
            parts = []
            for mt, comp in zip(pr["mts"], fx.parts[f]):
                parts.append("(%s,%s)" % (cq_N(mt), "None" if comp is None else "(Some %s)" % cq_N(ids.content(fx.data[comp]))))
            det = []
            for (mt, hx_, sz) in pr["det"]:
                i = ids.h(hx_)
                ids.size[i] = sz
                det.append("(%s,%s)" % (cq_N(mt), cq_N(i)))
                has_params = has_params or mt == 5
            base = "(BFiles %s %s %s %s)" % (ids.digest(d), cq_list(parts, "(N*option N)"), "true" if f in fx.fail else "false", cq_list(det, "(N*N)"))
        else:
            src = parse_name(op["from"])
            base = "(BFrom %s)" % cq_name(src)
            sm = find_manifest(before, src)
            if sm and sm["readable"]:
                has_params = any(MT.get(l["mediaType"]) == 5 for l in sm["layers"])

        def from_result(mt):
            for l in reversed(res_layers):
                if MT.get(l["mediaType"]) == mt:
                    return cq_N(ids.h(l["digest"][7:]))
            return cq_N(0)
        tmpl = None
        if op.get("template"):
            tmpl = "(%s,%s)" % ("false" if op["template"] == BAD_TEMPLATE else "true", cq_N(ids.content(op["template"].encode())))
        system = cq_N(ids.content(op["system"].encode())) if op.get("system") else None
        lic = op.get("license")
        lic = [] if not lic else ([lic] if isinstance(lic, str) else lic)
        params = from_result(5) if (op.get("parameters") or has_params) else None
        msgs = from_result(6) if op.get("messages") else None
        cfg = cq_N(ids.h(res["config"]["digest"][7:])) if res and res["readable"] else cq_N(0)
        return "(OCreate (MkCreate %s %s %s %s %s %s %s %s))" % (
            cq_name(n), base, cq_opt(tmpl), cq_opt(system), cq_list([cq_N(ids.content(x.encode())) for x in lic], "N"),
            cq_opt(params), cq_opt(msgs), cfg)
    raise ValueError(k)


def act_to_coq(ids, fx, op, before, after):
    """an element of a history for the model: an API operation / start-up, or the legacy scaffolding"""
    if op.get("abort") is not None:
        return "(AAbortBlob %s)" % ids.digest(op["digest"]) if op["op"] == "blob" else "AAbortReq"
    if op["op"] == "legacy":
        return "(ALegacy %s %s)" % (cq_list([cq_N(ids.h(h)) for h in op.get("blobs", [])], "N"),
                                    cq_list([cq_N(ids.h(h)) for h in op.get("partials", [])], "N"))
    if op["op"] == "linkdir":
        return "(ALegacy (@nil N) (@nil N))"   # a symbolic link to a directory is transparent to the store: no change in the model
    if op["op"] == "head":
        return "(AHead %s)" % ids.digest(op["digest"])
    if op["op"] == "corrupt":
        return "(ACorrupt %s)" % cq_name(tuple(op["path"].split("/")))
    if op["op"] == "startup" and op.get("env"):
        return "ANoPruneStartup"
    return "(AOp %s)" % op_to_coq(ids, fx, op, before, after)


def res_class(op, o):
    code = o.get("code")
    if "panic" in o:
        return "RErr"
    if o.get("errors"):
        return "RErr"
    if code in (200, 201):
        return "ROk"
    if code == 404:
        return "RNotFound"
    return "RErr"


EMPTY_STATE = {"manifests": [], "blobs": [], "other": [], "empty_dirs": 0, "links": []}


def render_history(fx, ops, obs):
    ids = Ids()
    steps = []
    before = EMPTY_STATE
    if any(is_pull2(o) for o in ops):
        # a history with pulls through the new code: the store has scratch files, Store/Pull2.chk_history2
        emp = cq_N(ids.content(b""))
        tab = p2_tables(ops)
        for op, o in zip(ops, obs):
            st = o["state"]
            for b in st["blobs"]:
                ids.size.setdefault(ids.h(b["sha"]), b["size"])
            if is_pull2(op):
                act = "(A2Pull %s %s)" % (cq_name(parse_name(op["name"])), cq_served2(ids, op))
            else:
                flat = lambda x: dict(x, blobs=[b for b in x["blobs"] if not b["name"].endswith(".chunked")])
                act = "(A2Old %s)" % act_to_coq(ids, fx, op, flat(before), flat(st))
            steps.append("(MkStep2 %s %s %s)" % (act, res_class(op, o), cq_st2(ids, st, tab)))
            before = st
        return "chk_history2 %s %s %s" % (ids.tbl(), emp, cq_list(steps, "step2"))
    for op, o in zip(ops, obs):
        st = o["state"]
        # register sizes first so that contents written by this op are known
        for b in st["blobs"]:
            ids.size.setdefault(ids.h(b["sha"]), b["size"])
        steps.append("(MkStep %s %s %s)" % (act_to_coq(ids, fx, op, before, st), res_class(op, o), cq_store(ids, st)))
        before = st
    return "chk_history %s %s" % (ids.tbl(), cq_list(steps, "step"))


# ----------------------------------------------------------------------------------------------- the new pull path (client2)

def norm2(st):
    """an empty scratch file sha256-<h>.chunked (opened with O_CREATE, never truncated) is the same as none"""
    if any(b["size"] == 0 and b["name"].endswith(".chunked") for b in st["blobs"]):
        st = dict(st, blobs=[b for b in st["blobs"] if not (b["size"] == 0 and b["name"].endswith(".chunked"))])
    return st


P2_THRESHOLD = 64
P2_LICENSE = ("Permission is hereby granted, free of charge, to any person obtaining a copy of this software and associated "
              "documentation files, to deal in the Software without restriction. ").encode()


def chunk_layout(rng, b):
    """the ranges the chunksums endpoint announces for a layer: 2-4 ranges covering it, none of them all zeros (a range
    of the scratch file that was never written reads as zeros; the projection tells written from unwritten by content)"""
    n = len(b)
    for _ in range(20):
        cuts = sorted(rng.sample(range(8, n - 8), rng.randint(1, 3)))
        rs = [[a, e - 1] for a, e in zip([0] + cuts, cuts + [n])]
        if all(any(b[a:e + 1]) for a, e in rs):
            return rs
    return [[0, n - 1]]


def cache_key(lhex, chex, a, e):
    return ("v1 pull chunksum sha256:%s sha256:%s %d-%d" % (lhex, chex, a, e)).encode()


def gen_pull2(rng, fx, name, bodies, cfg, layouts, faults=None):
    """POST /api/pull through the routes of OLLAMA_EXPERIMENT=client2 (Registry.Pull + blob.DiskCache)"""
    man = {"schemaVersion": 2, "mediaType": "application/vnd.docker.distribution.manifest.v2+json",
           "config": mk_layer(8, cfg), "layers": [mk_layer(mt, b) for mt, b in bodies]}
    raw = json.dumps(man)
    n = parse_name(name)
    layers = []
    for _, b in bodies + [(8, cfg)]:
        layers.append((sha(b), b, layouts[sha(b)] if len(b) >= P2_THRESHOLD else [[0, len(b) - 1]]))
    reg = {"manifests_raw": {(n[1] + "/" + n[2] + ":" + n[3]).lower(): raw},
           "blobs": {"sha256:" + h: b.hex() for h, b, _ in layers},
           "chunks": {"sha256:" + h: rs for h, b, rs in layers if len(b) >= P2_THRESHOLD},
           "faults": faults or {}}
    return {"op": "pull", "client2": True, "threshold": P2_THRESHOLD, "name": "http://%s/%s/%s:%s" % n, "registry": reg,
            "_p2": {"raw": raw, "man": man, "layers": layers, "faults": faults or {}}}


def is_pull2(op):
    return op["op"] == "pull" and op.get("client2")


def p2_tables(ops):
    """file content of a scratch file -> the set of chunks in it, for every layer of every client2 pull of the case"""
    tab = {}
    for op in ops:
        if not is_pull2(op):
            continue
        for h, b, rs in op["_p2"]["layers"]:
            for mask in range(1, 1 << len(rs)):
                size = max(e + 1 for i, (a, e) in enumerate(rs) if mask >> i & 1)
                buf = bytearray(size)
                for i, (a, e) in enumerate(rs):
                    if mask >> i & 1:
                        buf[a:e + 1] = b[a:e + 1]
                tab[(h, sha(bytes(buf)))] = [i for i in range(len(rs)) if mask >> i & 1]
    return tab


def cq_st2(ids, st, tab):
    chunked = []
    for b in st["blobs"]:
        m = re.match(r"^sha256-([0-9a-f]{64})\.chunked$", b["name"])
        if m:
            got = tab.get((m.group(1), b["sha"]))
            if got is None:
                raise ValueError("scratch file %s holds something else than whole chunks of its layer" % b["name"])
            chunked.append("(%s,%s)" % (cq_N(ids.h(m.group(1))), cq_list(["%d%%nat" % i for i in got], "nat")))
    base = dict(st, blobs=[b for b in st["blobs"] if not b["name"].endswith(".chunked")])
    return "(MkSt2 %s %s)" % (cq_store(ids, base), cq_list(chunked, "(N * list nat)"))


def cq_served2(ids, op):
    p = op["_p2"]
    man = p["man"]
    for l in man["layers"] + [man["config"]]:
        ids.size.setdefault(ids.h(l["digest"][7:]), l["size"])
    m = "(MkManifest %s %s)" % (cq_layer(ids, man["config"]), cq_list([cq_layer(ids, l) for l in man["layers"]], "layer"))
    chunks, seen = [], set()
    for h, b, rs in p["layers"]:
        if h in seen:
            continue
        seen.add(h)
        cs = []
        for a, e in rs:
            key = ids.content(cache_key(h, sha(b[a:e + 1]), a, e))
            cs.append("(MkChunk %s %s)" % (cq_N(key), "false" if ("sha256:%s@%d" % (h, a)) in p["faults"] else "true"))
        chunks.append("(%s,%s)" % (cq_N(ids.h(h)), cq_list(cs, "chunk")))
    return "(MkServed2 %s %s %s)" % (m, cq_N(ids.content(p["raw"].encode())), cq_list(chunks, "(N * list chunk)"))



# ----------------------------------------------------------------------------------------------- monitor

def blob_index(st):
    return {b["name"]: b for b in st["blobs"]}


def check_complete(st, m):
    """all layers + config of a readable manifest present, intact, right size -> list of problems"""
    bi = blob_index(st)
    probs = []
    for l in m["layers"] + [m["config"]]:
        d = l["digest"]
        mm = re.match(r"^sha256[:-]([0-9a-fA-F]{64})$", d)
        if not mm:
            probs.append(("bad-digest", d))
            continue
        b = bi.get("sha256-" + mm.group(1))
        if b is None:
            probs.append(("missing", d))
        elif b["sha"] != mm.group(1).lower():
            probs.append(("corrupt", d))
        elif b["size"] != l["size"]:
            probs.append(("size", d))
    return probs


def monitor_step(op, before, o):
    """the property on one step of the real store.  Returns list of (sig, what)."""
    out = []
    if op["op"] in ("legacy", "corrupt", "linkdir"):
        return out  # scaffolding: the store of an older version / a torn manifest is planted, nothing to judge
    st = o["state"]
    api = o.get("api") or {}
    listed = api.get("listed")
    readable = [m for m in st["manifests"] if m["readable"]]
    # every listed model can be shown; listed = readable manifests
    if listed is not None:
        for e in listed:
            if e["show"] != 200:
                m = find_manifest(st, parse_name(e["name"]))
                cause = "other"
                if m and m["readable"]:
                    if check_complete(st, m):
                        cause = "incomplete"
                    elif not any(MT.get(l["mediaType"]) == 0 for l in m["layers"]):
                        cause = "no-model-layer:" + ("adapter-or-projector-only" if any(MT.get(l["mediaType"]) in (1, 2) for l in m["layers"])
                                                     else "no-base-layers")
                out.append(({"class": "listed-not-showable", "cause": cause},
                            "listed model %s cannot be shown (%s): %s" % (e["name"], cause, e.get("show_body"))))
        if len(listed) != len(readable):
            out.append(({"class": "listed-differs-from-manifests"}, "api lists %d models, %d readable manifests" % (len(listed), len(readable))))
    # every listed model complete
    for m in readable:
        for kind, d in check_complete(st, m):
            spelled = "canonical" if re.match(r"^sha256:[0-9a-f]{64}$", d) else "non-canonical"
            own = op["op"] == "create" and fold(tuple(m["path"].split("/"))) in op_target(op)
            # (the one known way a create loses a layer of its own: a text layer with the bytes of the params JSON that PARAMETER replaces)
            lic = op.get("license") or []
            texts = [op.get("system"), op.get("template")] + ([lic] if isinstance(lic, str) else list(lic))
            pc = bool(own and kind == "missing" and op.get("parameters") and any(t and sha(t.encode()) == d[7:] for t in texts))
            out.append(({"class": "listed-incomplete", "cause": kind, "spelling": spelled, "own_create": own, "params_collision": pc},
                        "model %s: layer %s is %s after %s" % (m["path"], d, kind, op["op"])))
    # every blob file holds the content its name is the hash of (re-hashed after every operation), used or not
    was = {b["name"]: b["sha"] for b in before["blobs"]}
    for b in st["blobs"]:
        mm = re.match(r"^sha256[:-]([0-9a-fA-F]{64})$", b["name"])
        if mm and b["sha"] != mm.group(1).lower() and was.get(b["name"]) != b["sha"]:
            used = any(re.sub(r"^sha256[:-]", "", l["digest"]) == mm.group(1) for m in readable for l in m["layers"] + [m["config"]])
            out.append(({"class": "blob-corrupt", "referenced": used},
                        "after %s the blob file %s holds content whose sha256 is %s" % (op["op"], b["name"], b["sha"])))
    # a request that ended with a read error in its body leaves nothing behind
    if op.get("abort") is not None and st != before:
        out.append(({"class": "aborted-request-trace", "op": op["op"]},
                    "the %s request whose body broke off after %d bytes changed the store" % (op["op"], op["abort"])))
    # no two files of the store are one file: an operation on one model would alter the other
    for e in st["manifests"] + st["blobs"]:
        if e.get("linked") or e.get("symlink") is not None:
            out.append(({"class": "aliased-files", "op": op["op"], "kind": "symlink" if e.get("symlink") is not None else "hardlink"},
                        "after %s, %s %s: changing one changes the other" % (
                            op["op"], e.get("path") or e.get("name"),
                            ("is a symbolic link to %s" % e["symlink"]) if e.get("symlink") is not None else ("shares its inode with %s" % e["linked"]))))
    # a directory that is a symbolic link is part of the layout the user chose: no operation removes or replaces it
    have = {(l["path"], bool(l.get("dangling"))) for l in st.get("links", [])}
    for l in before.get("links", []):
        if (l["path"], bool(l.get("dangling"))) not in have:
            out.append(({"class": "link-removed", "op": op["op"]}, "%s removed or replaced the symbolic link %s" % (op["op"], l["path"])))
    # no two listed names differ only by case
    seen = {}
    for m in readable:
        f = m["path"].lower()
        if f in seen:
            out.append(({"class": "case-duplicate"}, "listed models %s and %s differ only by letter case" % (seen[f], m["path"])))
        seen[f] = m["path"]
    # frame: manifests of other names unchanged, blobs they reference unchanged
    tg = op_target(op)
    bmap = {m["path"]: m for m in before["manifests"]}
    amap = {m["path"]: m for m in st["manifests"]}
    bi_b, bi_a = blob_index(before), blob_index(st)
    for p, m in bmap.items():
        if fold(tuple(p.split("/"))) in tg:
            continue
        if amap.get(p) != m:
            out.append(({"class": "frame-manifest", "op": op["op"]}, "%s changed manifest %s of another model" % (op["op"], p)))
        elif m["readable"]:
            for l in m["layers"] + [m["config"]]:
                mm = re.match(r"^sha256[:-]([0-9a-fA-F]{64})$", l["digest"])
                if mm:
                    nm = "sha256-" + mm.group(1)
                    if nm in bi_b and bi_a.get(nm) != bi_b[nm]:
                        spelled = "canonical" if re.match(r"^sha256:[0-9a-f]{64}$", l["digest"]) else "non-canonical"
                        out.append(({"class": "frame-blob", "op": op["op"], "spelling": spelled},
                                    "%s removed/altered blob %s still referenced by %s" % (op["op"], nm, p)))
    for p in amap:
        if p not in bmap and fold(tuple(p.split("/"))) not in tg:
            out.append(({"class": "frame-manifest", "op": op["op"]}, "%s created manifest %s of another model" % (op["op"], p)))
    # start-up prune leaves exactly the referenced blobs
    if op["op"] == "startup" and not op.get("env") and all(m["readable"] for m in st["manifests"]) and o.get("code") == 200:
        ref = set()
        for m in readable:
            for l in m["layers"] + [m["config"]]:
                mm = re.match(r"^sha256[:-]([0-9a-fA-F]{64})$", l["digest"])
                if mm:
                    ref.add("sha256-" + mm.group(1))
        have = set(bi_a)
        if have != ref:
            out.append(({"class": "prune-inexact", "extra": len(have - ref) > 0, "missing": len(ref - have) > 0},
                        "after start-up prune blobs != referenced set: extra %s missing %s" % (sorted(have - ref)[:3], sorted(ref - have)[:3])))
        if st["empty_dirs"]:
            out.append(({"class": "prune-empty-dirs"}, "start-up prune left %d empty manifest directories" % st["empty_dirs"]))
    if "panic" in o:
        out.append(({"class": "panic", "op": op["op"]}, "handler panicked: %s" % o["panic"]))
    return out


def monitor_history(ops, obs):
    out = []
    before = EMPTY_STATE
    for i, (op, o) in enumerate(zip(ops, obs)):
        for sig, what in monitor_step(op, before, o):
            out.append((i, sig, what))
        before = o["state"]
    return out


# ----------------------------------------------------------------------------------------------- driver

def strip(ops):
    return [{k: v for k, v in op.items() if not k.startswith("_")} for op in ops]


def run_histories(ctx, binp, hists, noapi=False, timeout=900):
    """run the histories on the implementation, several harness processes in parallel"""
    import concurrent.futures
    nproc = min(8, max(1, len(hists) // 4))
    chunks = [hists[i::nproc] for i in range(nproc)]

    def work(ch):
        return ctx.run_jsonl(binp, [{"ops": strip(h), "noapi": noapi} for h in ch], timeout=timeout)
    res = [None] * len(hists)
    with concurrent.futures.ThreadPoolExecutor(nproc) as ex:
        for ci, (obs, err) in enumerate(ex.map(work, chunks)):
            if obs is None or len(obs) != len(chunks[ci]):
                return None, err
            for j, o in enumerate(obs):
                res[ci + j * nproc] = o["obs"]
    return res, ""


def shrink(ctx, binp, ops, sig):
    """smallest sub-history that still shows a violation of the same class"""
    def fails(sub):
        obs, _ = ctx.run_jsonl(binp, [{"ops": strip(sub)}], timeout=120)
        if not obs:
            return False
        return any(s == sig for _, s, _ in monitor_history(sub, obs[0]["obs"]))
    try:
        return vlib.ddmin(ops, fails, max_tests=120)
    except Exception:
        return ops


def describe(op):
    d = {k: v for k, v in op.items() if not k.startswith("_") and k not in ("data", "registry")}
    if "registry" in op:
        d["registry"] = {"manifests": op["registry"].get("manifests") or op["registry"].get("manifests_raw"),
                         "chunks": op["registry"].get("chunks"), "faults": op["registry"].get("faults"), "blobs": {k: "<%d bytes>" % (len(v) // 2) for k, v in op["registry"]["blobs"].items()}}
    if "data" in op:
        d["data"] = "<%d bytes, sha256 %s>" % (len(op["data"]) // 2, sha(bytes.fromhex(op["data"]))[:12])
    return d


def run(ctx):
    ctx.rule = ("cases = histories of API operations on a fresh store: blob uploads (digest spelled sha256:<hex>, sha256-<hex>, upper-case), "
                "create from uploaded GGUF files (plain, adapter, projector, with auto-detected chat template, with trailing bytes) and FROM "
                "existing/missing/case-variant models with system/template/params/license/messages overrides drawn from small pools so that layers "
                "are shared, copy, delete, start-up prune; blob uploads and create requests whose body ends with a read error after 0 / a few / "
                "> 2^20 bytes, placed before creates; pulls from a fake registry through the old code and through the new code path (client2: chunked "
                "layers, one chunk failing now and then), manifests with a layer of length 0 first / in the middle / last, the empty blob there before or not; names over hosts/namespaces/models/tags incl. case variants of names already used. "
                "non-trivial = the history changed the store in >= 3 steps; distinct = by canonical JSON of the history")
    ctx.trusted = ["Coq 8.16.1 kernel + vm_compute", "hand-written model coq/Store/{Fs,Ops}.v tied to the code by this differential run only",
                   "Go harness harness/cmd/c04 (exported API of /repo only: Server.GenerateRoutes, server.Serve, ggml.WriteGGUF), python generator/monitor",
                   "the file system (effects atomic per system call), encoding/json, crypto/sha256, gin, net/http"]
    ctx.assumptions = ["blob contents are identified with their SHA-256 (no collisions among the contents of a history)",
                       "the contents the server derives itself (config JSON, merged params JSON, messages JSON, auto-detected template) are oracle "
                       "inputs of the model, read off the implementation's resulting manifest / a probe run; the monitor checks them independently",
                       "directories are not modelled; the monitor checks that start-up prune leaves no empty manifest directory"]
    ctx.proof_stage(["Store"], "Store/Properties_C04.v", extra_targets=["Store/Corr.v", "Store/Pull2.v"],
                    expect_theorems=["C04_listed_complete", "C04_frame", "C04_prune_exact", "C04_case_unique", "C04_get_existing_order_free",
                                     "C04_fixblobs_migrates", "C04_fixblobs_idempotent"])
    if not ctx.quick():
        ctx.coqchk(["V.Store.Properties_C04"])
    binp = ctx.go_build("c04")
    if not binp:
        return
    fx = Fixtures(ctx, binp)
    rng = ctx.rng
    n_hist = 60 if ctx.quick() else 1500
    hists, klasses = [], []
    for name, mk in CORPUS:
        hists.append(mk(fx))
        klasses.append("corpus:" + name)
    cdir = os.path.join(vlib.VERIF, "corpus", "C04")
    for f in sorted(os.listdir(cdir)) if os.path.isdir(cdir) else []:
        if f.endswith(".json"):
            hists.append(json.load(open(os.path.join(cdir, f)))["ops"])
            klasses.append("corpus:" + f)
    for i in range(n_hist):
        klass = rng.choice(["mixed", "mixed", "spelling", "long", "abort"]) if i >= (8 if ctx.quick() else 200) else ("pull", "pull2")[i % 2]
        n_ops = rng.randint(4, 10) if klass != "long" else rng.randint(14, 28)
        hists.append(gen_history(rng, fx, n_ops, klass))
        klasses.append(klass)
    obs, err = run_histories(ctx, binp, hists)
    for ob in obs or []:
        for o in ob:
            o["state"] = norm2(o["state"])
    if obs is None:
        ctx.obligation("harness c04 answered every history", False, err)
        ctx.proof_failures.append({"obligation": "correspondence: harness c04 did not answer every history", "detail": err})
        return
    items, item_idx = [], []
    reported = set()
    for hi, (h, ob, kl) in enumerate(zip(hists, obs, klasses)):
        changed = sum(1 for a, b in zip([{"state": EMPTY_STATE}] + ob, ob) if a["state"] != b["state"])
        ctx.note_case(strip(h), changed >= 3, kl, sample={"ops": [describe(o) for o in h[:6]]})
        for o in h:
            ctx.count("op:" + o["op"] + ("(client2)" if is_pull2(o) else ""))
            if o["op"] == "pull" and any(l["size"] == 0 for l in ((o.get("_manifest") or (o.get("_p2") or {}).get("man") or {}).get("layers") or [])):
                ctx.count("pull-with-empty-layer" + ("(client2)" if is_pull2(o) else ""))
        for o in ob:
            ctx.count("result:%s" % o.get("code"))
        for (i, sig, what) in monitor_history(h, ob):
            key = json.dumps(sig, sort_keys=True)
            if key in reported:
                continue
            reported.add(key)
            small = shrink(ctx, binp, h[:i + 1], sig)
            ctx.violation(sig, what, {"history": [describe(o) for o in small], "found_in_class": kl, "step": i,
                                      "how_to_replay": "python3 check.py C04 --replay <this file>", "ops": strip(small)})
        try:
            items.append(render_history(fx, h, ob))
            item_idx.append(hi)
        except ValueError as ex:
            ctx.mismatch("Store/Corr.chk_history (observation outside the model's vocabulary: %s)" % ex, [describe(o) for o in h], None)
    bad, log = ctx.coq_eval(HEADER, items, per_file=8)
    if bad is None:
        ctx.obligation("correspondence: model evaluated on all histories", False, log)
        ctx.proof_failures.append({"obligation": "correspondence evaluation failed in coqc", "detail": log})
        return
    ctx.disagreements_checked = len(items)
    ctx.obligation("correspondence: model = implementation after every operation of %d histories" % len(items), not bad)
    for bi in bad[:10]:
        hi = item_idx[bi]
        h, ob = hists[hi], obs[hi]
        fb = ("chk_history2", "(fun t e l => first_bad2 (size_tbl t) e (MkSt2 empty_store []) l 0%nat)") if items[bi].startswith("chk_history2") \
            else ("chk_history", "(fun t l => first_bad (size_tbl t) empty_store l 0%nat)")
        where = ctx.coq_print(HEADER, items[bi].replace(fb[0], fb[1], 1)) if len(ctx.mismatches) < 3 else None
        ctx.mismatch("Store/Corr.chk_history", {"history": [describe(o) for o in h], "class": klasses[hi]},
                     [{"code": o.get("code"), "errors": o.get("errors"), "body": (o.get("body") or "")[-200:]} for o in ob], where)


def replay(ctx, path):
    r = json.load(open(path))
    ctx.log("replaying", path)
    binp = ctx.go_build("c04")
    if not binp:
        return
    ops = (r.get("replay") or {}).get("ops") or r.get("ops")
    if not ops:
        run(ctx)
        return
    obs, err = ctx.run_jsonl(binp, [{"ops": ops}])
    for (i, sig, what) in monitor_history(ops, obs[0]["obs"]):
        ctx.violation(sig, what, {"ops": ops, "step": i})
    ctx.note_case(ops, True, "replay")


MANIFEST = {
    "property_id": "C04",
    "quick_cmd": "python3 check.py C04 --tier quick",
    "thorough_cmd": "python3 check.py C04 --tier thorough",
    "evidence_file": "evidence/C04.json",
    "replay_cmd_template": "python3 check.py C04 --replay {path}",
    "engine": "coq-model+go-differential",
    "level_claimed": {
        "category": "proof",
        "text": "Coq theorems over the store model (any operation list from the empty store, by induction): every readable manifest has all layers "
                "and config present, intact and of the recorded size; an operation changes only the manifest it names and never removes a blob "
                "another readable manifest uses; start-up prune leaves exactly the referenced blobs; no two readable names are equal up to letter case. "
                "The hand-written model is tied to the real handlers and the real start-up sequence by an operation-sequence differential run with "
                "state projection after every operation; the property is also monitored directly on the directory and on /api/tags, /api/show.",
        "design_ref": "DESIGN.md section 5, C04",
    },
    "level_note": "The model describes /repo/server with fixes/C04-*.patch applied (four genuine defects found on the unchanged tree: digest spelling, "
                  "create FROM a missing model, pull re-parsing the short name, getExistingName). Theorems are stated for histories whose creates meet the "
                  "decidable guard create_check (proved to hold for every create FROM a model; false only for the contrived class recorded as known finding "
                  "C04-create-deletes-own-layer, refuted without the guard) and whose pulls meet served_ok (honest registry; C03 covers dishonest ones). "
                  "'Can be shown' is proved as: all layers served + a model layer + every layer content well-formed for its media type, under ops_have_model (known finding: adapter-only models) and ops_wf (well-formed request contents, arbitrary wf). fixBlobs is modelled and proved to migrate old-version stores (C04_fixblobs_migrates) and to be idempotent. Trusted: Coq kernel/vm_compute; "
                  "the model-to-code tie is differential testing (generator-bounded); contents the server derives itself are oracle inputs of the model; "
                  "directories are not modelled.",
    "technique": "Coq proof (invariant by induction over the operation list and over the effect list of each operation) + model/implementation differential check",
}
