"""C14 - streamed text stops before stop sequences and is whole UTF-8.

Tie: (P) the four helpers of runner/common/stop.go, utf8.ValidString and flushPending are run on generated
and exhaustively enumerated byte strings and compared with the Coq model (Runner/Stop.v); (S) whole scripted
generations are pushed through the REAL ollamarunner Server (NewSequence, LoadCacheSlot, processBatch,
flushPending, removeSequence; in "http" mode also the real completion handler and run loop) by harness c14run:
the i-th sampled token decodes to the i-th scripted piece (arbitrary bytes) or is EOS.  Everything sent on
Sequence.responses, pendingResponses/numPredicted after every batch, and the done reason are compared with the
model's `run`/`settle`/`trace` (Runner/StopCorr.v chk_run, chk_trace).  Monitor: the property itself evaluated on
the observation in Python, independently of the model (prefix; ends immediately before the earliest stop and
contains none, else ends at EOS / the limit; valid text => every piece whole UTF-8 and stop-free; reason).
(L) runner/llamarunner: its processBatch cannot run in place without a llama.cpp model (Decode / Sample / TokenToPiece
are cgo calls on concrete types), but (L1) its REAL flushPending, removeSequence and the prediction-limit check of
processBatch(nil, nil) run on a Server + Sequence built by an overlay shim (harness c14lr), at the pending states
the scripted generations reach (derived from the ollamarunner trace) and on random pending states, with a fast, a
slow (reads only when the producer blocks on the full 100-entry channel) and an absent reader; (L2) the statements
of its per-token loop body (everything after `piece := s.model.TokenToPiece(token)`) are extracted from the CURRENT
source by harness/cmd/c14gen (go/ast; only `s.model.TokenIsEog(token)` is rewritten to a parameter), compiled into
package llamarunner as c14Tail and driven with the same scripts; both are monitored and compared with the model like
the ollamarunner runs.  (T) the go/ast twin comparison of the two runners' statements is kept as a cross-check.
The slow-reader cases also run on ollamarunner (c14run mode "slow").
"""
import itertools
import time
from lib import vlib
from lib.vlib import cq_bytes, cq_list, cq_bool, cq_nat, cq_N

SETUP_BUILDS = [{"name": "c14"}, {"name": "c14run"}, {"name": "c14lr"}, {"name": "c14gen"}, {"name": "twin"}]
COQ_TARGETS = ["Runner/Properties_C14.v", "Runner/StopCorr.v"]
HEADER = "From Coq Require Import List NArith Bool.\nFrom V Require Import Common.Bytes Runner.Stop Runner.StopCorr.\nImport ListNotations.\nOpen Scope N_scope.\n"
ALPHA = [b"a", b"b", b"c", b" ", b"\xc3", b"\xa9", b"\xe2", b"\x82", b"\xac", b"\xf0", b"\x9f", b"\x98", b"\x80", b"\xff", b"\xed", b"\xa0", b"\xc0", b"\xf4", b"\x90"]
CHARS = ["a", "b", "c", " ", "é", "€", "😀", "ab", "ba", "\n"]


def hx(b):
    return b.hex()


def rnd_text(rng, n):
    return "".join(rng.choice(CHARS) for _ in range(n)).encode()


def rnd_bytes(rng, n):
    return b"".join(rng.choice(ALPHA) for _ in range(n))


def split_pieces(rng, b, k):
    cuts = sorted(rng.randrange(0, len(b) + 1) for _ in range(k))
    out, last = [], 0
    for c in cuts + [len(b)]:
        out.append(b[last:c])
        last = c
    return out


def gen_cases(ctx):
    rng = ctx.rng
    cases = []
    n = 250 if ctx.quick() else 4000
    # corpus first: the minimal cases that once violated / disagreed
    cases.append({"op": "find_stop", "seq": hx(b"ab"), "stops": [hx(b"b"), hx(b"a")], "klass": "corpus"})
    cases.append({"op": "find_stop", "seq": hx(b"xaby"), "stops": [hx(b"by"), hx(b"ab"), hx(b"x")], "klass": "corpus"})
    for _ in range(n):
        stops = [rnd_text(rng, rng.randint(1, 3)) for _ in range(rng.randint(1, 4))]
        body = rnd_text(rng, rng.randint(0, 6))
        if rng.random() < 0.7:
            s = rng.choice(stops)
            body = body + s[: rng.randint(1, len(s))] + rnd_text(rng, rng.randint(0, 2))
        if rng.random() < 0.3:
            body = body + rng.choice(stops)
        cases.append({"op": "find_stop", "seq": hx(body), "stops": [hx(s) for s in stops], "klass": "find_stop"})
        cases.append({"op": "suffix", "seq": hx(body), "stops": [hx(s) for s in stops], "klass": "suffix"})
        pieces = split_pieces(rng, body, rng.randint(0, 4))
        stop = rng.choice(stops) if rng.random() < 0.8 else rnd_text(rng, 2)
        cases.append({"op": "truncate", "pieces": [hx(p) for p in pieces], "stop": hx(stop), "klass": "truncate"})
        raw = rnd_bytes(rng, rng.randint(0, 9)) if rng.random() < 0.5 else rnd_text(rng, 4)[: rng.randint(0, 12)]
        cases.append({"op": "incomplete", "s": hx(raw), "klass": "incomplete"})
        cases.append({"op": "valid", "s": hx(raw), "klass": "valid"})
        cases.append({"op": "flush", "pieces": [hx(p) for p in split_pieces(rng, raw, rng.randint(0, 2))], "klass": "flush"})
    # exhaustive short strings over the UTF-8 class representatives
    maxlen = 3 if ctx.quick() else 4
    alpha = ALPHA if not ctx.quick() else ALPHA[:1] + ALPHA[4:]
    for L in range(0, maxlen + 1):
        for t in itertools.product(alpha, repeat=L):
            b = b"".join(t)
            cases.append({"op": "valid", "s": hx(b), "klass": "valid-exhaustive"})
            cases.append({"op": "incomplete", "s": hx(b), "klass": "incomplete-exhaustive"})
    return cases


def contains_any(b, stops):
    return any(s in b for s in stops if s)


def is_valid(b):
    try:
        b.decode("utf-8")
        return True
    except UnicodeDecodeError:
        return False


def monitor(ctx, c, o):
    """the property itself, on the implementation's observation"""
    if "panic" in o:
        ctx.violation({"op": c["op"], "class": "panic"}, "stop helper panicked: %s" % o["panic"], {"case": c, "impl": o})
        return
    if c["op"] == "find_stop":
        seq = bytes.fromhex(c["seq"])
        stops = [bytes.fromhex(s) for s in c["stops"]]
        if o["found"]:
            st = bytes.fromhex(o["stop"])
            i = seq.find(st)
            if st not in stops or i < 0:
                ctx.violation({"op": "find_stop", "class": "bogus-stop"}, "FindStop returned a stop that is not in the text", {"case": c, "impl": o})
            elif contains_any(seq[:i], stops):
                ctx.violation({"op": "find_stop", "class": "output-contains-stop"},
                              "output truncated at the reported stop %r still contains a stop sequence: text %r stops %r -> %r" % (st, seq, stops, seq[:i]),
                              {"case": c, "impl": o, "text": repr(seq), "stops": repr(stops), "output": repr(seq[:i])})
        elif contains_any(seq, stops):
            ctx.violation({"op": "find_stop", "class": "missed-stop"}, "FindStop missed a stop contained in the text", {"case": c, "impl": o})
    elif c["op"] == "flush":
        joined = b"".join(bytes.fromhex(p) for p in c["pieces"])
        res = b"".join(bytes.fromhex(p) for p in o["res"])
        if not is_valid(res) or not joined.startswith(res):
            ctx.violation({"op": "flush", "class": "invalid-or-not-prefix"}, "flushPending streamed %r for pending %r" % (res, joined), {"case": c, "impl": o})


def render(c, o):
    def bl(h):
        return cq_bytes(bytes.fromhex(h))

    def strs(l):
        return cq_list([bl(x) for x in l], "str")
    op = c["op"]
    if op == "find_stop":
        return "chk_find_stop %s %s %s %s" % (bl(c["seq"]), strs(c["stops"]), cq_bool(o["found"]), bl(o["stop"]))
    if op == "suffix":
        return "chk_suffix %s %s %s" % (bl(c["seq"]), strs(c["stops"]), cq_bool(o["r"]))
    if op == "truncate":
        return "chk_truncate %s %s %s %s" % (strs(c["pieces"]), bl(c["stop"]), strs(o["res"] or []), cq_bool(o["trunc"]))
    if op == "incomplete":
        return "chk_incomplete %s %s" % (bl(c["s"]), cq_bool(o["r"]))
    if op == "valid":
        return "chk_valid %s %s" % (bl(c["s"]), cq_bool(o["r"]))
    if op == "flush":
        return "chk_trim %s %s" % (cq_bytes(b"".join(bytes.fromhex(p) for p in c["pieces"])), cq_bytes(b"".join(bytes.fromhex(p) for p in o["res"])))
    raise ValueError(op)


def nontrivial(c, o):
    op = c["op"]
    if op == "find_stop":
        return o.get("found", False)
    if op == "suffix":
        return o.get("r", False)
    if op == "truncate":
        return bool(o.get("res")) and o.get("res") != c["pieces"]
    if op in ("incomplete", "valid"):
        return len(c["s"]) >= 4
    if op == "flush":
        return bool(o.get("res"))
    return True


def run(ctx):
    ctx.rule = ("helper cases: random texts over {a,b,c,space,e-acute,euro,emoji,...} with stops planted whole/partially/split across pieces, "
                "plus every byte string up to length %d over UTF-8 class representatives (exhaustive); non-trivial = a stop was found / suffix held / "
                "truncation changed the pieces / string of >= 2 bytes.  run cases: scripted generations (token pieces + EOS position, stops, limit) through the real "
                "ollamarunner processBatch, classes %s, server configuration (cache none/stub/stub-nopartial, batch 1..64, context 4..256 with shifts, 1-3 sequences, "
                "step or http mode) drawn at random, plus every token list up to length %d over {a,b,c3,a9,empty,EOS}; non-trivial = something was streamed and the "
                "case has a stop or a multi-byte piece; distinct = by canonical JSON of the case" % (3 if ctx.quick() else 4, ",".join(RUN_CLASSES), 3 if ctx.quick() else 5))
    ctx.trusted = ["Coq 8.16.1 kernel + vm_compute", "hand-written model coq/Runner/Stop.v tied to the code by this differential run only",
                   "Go harness harness/cmd/c14 and overlay export VerifFlush (add-only, build tag verif)",
                   "Go harness harness/cmd/c14run: scripted model/TextProcessor/backend/cache stub behind the real Server (overlay c14run.go, model/c14.go, add-only); "
                   "its step mode copies the slot-assignment block of (*Server).completion, its http mode calls the real handler",
                   "Go harness harness/cmd/c14lr + overlay shim runner/llamarunner/c14lr.go (hand-built Server/Sequence without a llama.cpp model; a stand-in for Decode that moves "
                   "the handed-back token into the cache slot) and the extractor harness/cmd/c14gen: llamarunner's loop body runs as a mechanically extracted copy of the current "
                   "source (statements after `piece := ...`), its sampling/Decode part is not executed", "python case generator and monitor (props/c14.py)"]
    ctx.assumptions = ["stop strings are non-empty in the theorems (an empty stop string is contained in every text)",
                       "prefix / stop-freeness / exactness assume the generated text is (a prefix of) valid UTF-8 (C14_*_partial, C14_valid_text_lossless); "
                       "without it they are refuted (C14_prefix_refuted, C14_stop_free_refuted; known finding C14-invalid-utf8-dropped)",
                       "contexts so small that a stop spans more tokens than the input cache holds after a shift are excluded (the stop branch's cache trimming panics there: cache matter, C07)"]
    ctx.proof_stage(["Runner"], "Runner/Properties_C14.v", extra_targets=["Runner/StopCorr.v"])
    binp = ctx.go_build("c14")
    if not binp:
        return
    twin_check(ctx)
    cases = gen_cases(ctx)
    obs, err = ctx.run_jsonl(binp, cases)
    if obs is None or len(obs) != len(cases):
        ctx.obligation("harness c14 answered every case", False, err)
        ctx.proof_failures.append({"obligation": "correspondence: harness c14 did not answer every case", "detail": err})
        return
    items = []
    for c, o in zip(cases, obs):
        ctx.note_case({k: v for k, v in c.items() if k != "klass"}, nontrivial(c, o), c["klass"], sample={"case": c, "impl": o})
        monitor(ctx, c, o)
        items.append(render(c, o) if "panic" not in o else "false")
    bad, log = ctx.coq_eval(HEADER, items, per_file=400)
    if bad is None:
        ctx.obligation("correspondence: model evaluated on all cases", False, log)
        ctx.proof_failures.append({"obligation": "correspondence evaluation failed in coqc", "detail": log})
        return
    ctx.disagreements_checked = len(items)
    ctx.obligation("correspondence: model = implementation on %d cases" % len(items), not bad)
    for i in bad[:20]:
        ctx.mismatch("Runner/StopCorr.%s" % render(cases[i], obs[i]).split()[0], cases[i], obs[i],
                     ctx.coq_print(HEADER, model_term(cases[i])) if len(ctx.mismatches) < 3 else None)
    run_stage(ctx)



# ====================================================================================================================
# (S) whole streaming runs through the REAL ollamarunner Server.processBatch (harness c14run)
# ====================================================================================================================

TXT = ["a", "b", "c", " ", "\n", "H", "é", "€", "😀", "한"]
MB = ["é", "€", "😀", "한", "ß", "🙂"]
RECUR_STOPS = [b"\n\nHuman:", b"aab", b"abab", b"<<e>", b"\n\n", "éé!".encode(), "€€".encode(), b"a\na\nb"]
INVALID = [b"\xff", b"\x80", b"\xe2\x82", b"\xc0\x80", b"\xed\xa0\x80", b"\xf0\x9f", b"\xc3", b"\xf4\x90\x80\x80", b"\xbf"]


def text(rng, n, mb=0.3):
    return "".join(rng.choice(MB) if rng.random() < mb else rng.choice(TXT[:6]) for _ in range(n))


def tok_bytes(b):
    return [bytes([x]) for x in b]


def tok_random(rng, b, maxlen=3):
    out, i = [], 0
    while i < len(b):
        k = rng.randint(1, maxlen)
        out.append(b[i:i + k])
        i += k
    return out


def tok_mb(rng, t):
    """multi-byte characters one byte per token (1+1, 1+1+1, 1+1+1+1); ASCII glued to neighbours at random"""
    out = []
    for ch in t:
        e = ch.encode()
        if len(e) > 1:
            out.extend(tok_bytes(e))
        elif out and rng.random() < 0.4:
            out[-1] = out[-1] + e
        else:
            out.append(e)
    return out


def tok_chars(t):
    return [ch.encode() for ch in t]


def planted(rng, pre, stop, post, parts):
    """pre + stop + post with the stop cut into `parts` tokens; the first may carry the tail of pre, the last the
    head of post (stop strings overlapping piece boundaries)"""
    parts = max(1, min(parts, len(stop)))
    cuts = sorted(rng.sample(range(1, len(stop)), parts - 1)) if parts > 1 else []
    segs = [stop[a:b] for a, b in zip([0] + cuts, cuts + [len(stop)])]
    a = tok_random(rng, pre)
    z = tok_random(rng, post)
    if a and rng.random() < 0.5:
        segs[0] = a.pop() + segs[0]
    if z and rng.random() < 0.5:
        segs[-1] = segs[-1] + z.pop(0)
    return a + segs + z, len(a) + len(segs)      # pieces, number of tokens after which the stop is complete


def rnd_stop(rng):
    r = rng.random()
    if r < 0.3:
        return rng.choice(RECUR_STOPS)
    return text(rng, rng.randint(1, 3), 0.25).encode()


def gen_seq(rng, klass):
    """-> dict(pieces=[bytes], eos=index or None, stops=[bytes], limit=int)"""
    stops, limit, eos = [], 0, "end"
    if klass == "empty-pieces":
        # any structured class, with empty pieces forced in below (also first, last, inside a stop / a character)
        q = gen_seq(rng, rng.choice(["mb-split", "byte-fallback", "stop-split", "stop-recur", "prefix-stops", "eos-pending"]))
        toks = list(q["pieces"])
        eos_at = q["eos"]
        for _ in range(rng.randint(1, 3)):
            i = rng.randint(0, len(toks))
            toks.insert(i, b"")
            if eos_at is not None and i <= eos_at:
                eos_at += 1
        return {"pieces": toks, "eos": eos_at, "stops": q["stops"], "limit": q["limit"] + (1 if q["limit"] and rng.random() < 0.5 else 0)}
    if klass == "mb-split":
        t = text(rng, rng.randint(2, 7), 0.6)
        pieces = tok_mb(rng, t)
        stops = [rnd_stop(rng) for _ in range(rng.randint(0, 2))]
    elif klass == "byte-fallback":
        t = text(rng, rng.randint(2, 6), 0.5)
        pieces = tok_bytes(t.encode())
        stops = [rng.choice([rng.choice(MB).encode(), rnd_stop(rng), (rng.choice(MB) + "!").encode()]) for _ in range(rng.randint(0, 2))]
    elif klass in ("stop-split", "stop-at-limit"):
        stop = rnd_stop(rng) if rng.random() < 0.5 else text(rng, rng.randint(2, 4), 0.3).encode()
        pre = text(rng, rng.randint(0, 4), 0.3).encode()
        post = text(rng, rng.randint(0, 3), 0.3).encode()
        pieces, j = planted(rng, pre, stop, post, rng.randint(2, 4))
        stops = [stop] + [rnd_stop(rng) for _ in range(rng.randint(0, 2))]
        rng.shuffle(stops)
        if klass == "stop-at-limit":
            limit = max(1, j + rng.choice([-1, 0, 0, 1]))
    elif klass == "stop-recur":
        stop = rng.choice(RECUR_STOPS)
        k = rng.randint(1, len(stop) - 1)
        body = text(rng, rng.randint(0, 3), 0.2).encode() + stop[:k] * rng.randint(1, 2) + (stop if rng.random() < 0.8 else stop[:-1]) + text(rng, rng.randint(0, 2), 0.2).encode()
        pieces = tok_random(rng, body, rng.choice([1, 2, 3]))
        stops = [stop] + ([rnd_stop(rng)] if rng.random() < 0.3 else [])
    elif klass == "limit-pending":
        # the limit falls inside a split character or a partially matched stop
        if rng.random() < 0.5:
            pre_toks = tok_random(rng, text(rng, rng.randint(0, 3), 0.0).encode())
            chb = rng.choice(MB).encode()
            pieces = pre_toks + tok_bytes(chb) + tok_random(rng, text(rng, 2, 0.3).encode())
            limit = len(pre_toks) + rng.randint(1, len(chb) - 1)
            stops = [rnd_stop(rng)] if rng.random() < 0.3 else []
        else:
            stop = rng.choice(RECUR_STOPS)
            pieces, j = planted(rng, text(rng, rng.randint(0, 3), 0.2).encode(), stop, b"zz", rng.randint(2, 4))
            limit = max(1, j - rng.randint(1, 2))
            stops = [stop]
    elif klass == "eos-pending":
        if rng.random() < 0.5:
            ch = rng.choice(MB).encode()
            pieces = tok_random(rng, text(rng, rng.randint(0, 3), 0.2).encode()) + tok_bytes(ch)[:rng.randint(1, len(ch) - 1)]
        else:
            stop = rng.choice(RECUR_STOPS)
            pieces = tok_random(rng, text(rng, rng.randint(0, 3), 0.2).encode() + stop[:rng.randint(1, len(stop) - 1)], 2)
            stops = [stop]
    elif klass == "prefix-stops":
        fam = rng.choice([[b"ab", b"abc"], [b"abc", b"ab"], [b"b", b"abc"], [b"bc", b"abc", b"c"], [b"abc", b"bcd"], [b"aa", b"a"],
                          ["é".encode(), "é!".encode()], [b"\n\nH", b"\n\nHuman:"], [b"abcd", b"bc"], [b"ab", b"ba"]])
        body = (text(rng, rng.randint(0, 3), 0.2) + rng.choice(["abcd", "xabc", "aabc", "ababc", "é!", "\n\nHuman:", "abd", "bcd", "ba"]) + text(rng, rng.randint(0, 2), 0.2)).encode()
        pieces = tok_random(rng, body, rng.choice([1, 2, 3, 4]))
        stops = list(fam)
    elif klass == "invalid":
        parts = [text(rng, rng.randint(0, 2), 0.4).encode(), rng.choice(INVALID), text(rng, rng.randint(0, 3), 0.4).encode()]
        if rng.random() < 0.3:
            parts += [rng.choice(INVALID)]
        pieces = tok_random(rng, b"".join(parts), rng.choice([1, 1, 2, 3]))
        stops = [rnd_stop(rng) for _ in range(rng.randint(0, 2))] + ([b"ab", b"a\xffb"] if rng.random() < 0.2 else [])
    else:  # random
        alpha = [b"a", b"b", b"ab", b"ba", b"", b"\xc3", b"\xa9", b"\xe2\x82", b"\xac", b"c", b" ", b"\xc3\xa9"]
        pieces = [rng.choice(alpha) for _ in range(rng.randint(0, 8))]
        stops = [b"".join(rng.choice(alpha[:4] + alpha[9:]) for _ in range(rng.randint(1, 3))) or b"a" for _ in range(rng.randint(0, 3))]
    # common perturbations
    if rng.random() < 0.15:
        for _ in range(rng.randint(1, 3)):
            pieces.insert(rng.randint(0, len(pieces)), b"")
    if klass not in ("stop-at-limit", "limit-pending") and rng.random() < 0.3:
        limit = rng.randint(1, max(1, len(pieces) + 1))
    r = rng.random()
    if klass == "eos-pending" or r < 0.55:
        eos = len(pieces)
    elif r < 0.7 and pieces:
        eos = rng.randint(0, len(pieces))
    else:
        eos = None
    stops = [x for x in stops if x]
    return {"pieces": pieces, "eos": eos, "stops": stops, "limit": limit}


RUN_CLASSES = ["mb-split", "byte-fallback", "stop-split", "stop-recur", "stop-at-limit", "limit-pending", "eos-pending",
               "empty-pieces", "prefix-stops", "invalid", "random"]


def seq_json(q, prompt, keep):
    toks = [hx(p_) for p_ in q["pieces"]]
    if q["eos"] is not None:
        toks = toks[:q["eos"]] + ["EOS"] + toks[q["eos"]:]
    return {"prompt": prompt, "toks": toks, "stops": [hx(s_) for s_ in q["stops"]], "limit": q["limit"], "keep": keep}


def run_case(rng, seqs, klass, mode=None):
    """wrap sequences into a harness case with a random server configuration"""
    mode = mode or ("http" if rng.random() < 0.12 else "step")
    cache = rng.choice(["none", "none", "stub", "stub", "stub-nopartial"])
    if cache == "none":
        parallel, batch, ctxn = 1, 64, 256
    else:
        parallel = 2 if len(seqs) > 1 else rng.choice([1, 1, 2])
        batch = rng.choice([1, 2, 3, 64])
        # small contexts force context shifts (and, with stub-nopartial, reprocessing) in the middle of a generation.
        # Only for sequences without stops: after a shift the stop branch's cache trimming
        # (seq.cache.Inputs[:tokenLen]) panics when the pending pieces outnumber the cached inputs, which needs a
        # stop spanning more tokens than about numCtx/2 - a cache matter (C07), not part of C14's quantifier.
        if any(q["stops"] for q in seqs):
            ctxn = max(2 * max(len(q["pieces"]) for q in seqs) + 8, rng.choice([16, 256]))
        else:
            ctxn = rng.choice([4, 5, 6, 8, 12, 256])
    js = []
    for q in seqs:
        if mode == "http" or len(seqs) > 1:
            # the real run loop panics when the script is exhausted and a batch aborts for every sequence: always end
            if q["eos"] is None:
                q["eos"] = len(q["pieces"])
        js.append(seq_json(q, rng.randint(1, min(4, ctxn - 1)), rng.randint(0, 2)))
    return {"op": "run", "mode": mode, "parallel": parallel, "batch": batch, "ctx": ctxn, "cache": cache, "seqs": js, "klass": klass}


def long_slow_cases(rng):
    q = gen_seq(rng, rng.choice(["mb-split", "stop-split", "stop-recur", "limit-pending", "eos-pending", "prefix-stops", "stop-at-limit"]))
    npre = 100 + rng.randint(0, 3)
    pre = [rng.choice([b"x", b"y", b"z", b"w", b"xy"]) for _ in range(npre)]
    q = {"pieces": pre + q["pieces"], "eos": None if q["eos"] is None else q["eos"] + npre, "stops": q["stops"],
         "limit": q["limit"] + npre if q["limit"] else 0}
    if q["eos"] is None and not q["limit"]:
        q["eos"] = len(q["pieces"])
    cache = rng.choice(["none", "stub"])
    base = {"op": "run", "parallel": 1, "batch": 256 if cache == "none" else rng.choice([8, 64]), "ctx": 512, "cache": cache,
            "seqs": [seq_json(q, rng.randint(1, 3), 0)], "klass": "long-slow"}
    return [dict(base, mode="step"), dict(base, mode="slow")]


def corpus_runs():
    """minimal cases that matter (each would expose one realistic regression of the loop)"""
    def c(pieces, stops, limit=0, eos=True, klass="corpus"):
        toks = [hx(x) for x in pieces] + (["EOS"] if eos else [])
        return {"op": "run", "mode": "step", "parallel": 1, "batch": 64, "ctx": 256, "cache": "none",
                "seqs": [{"prompt": 2, "toks": toks, "stops": [hx(x) for x in stops], "limit": limit, "keep": 0}], "klass": klass}
    e = "€".encode()
    g = "😀".encode()
    return [
        c([e[:1], e[1:2], e[2:], b"a"], []),                      # 1+1+1: hold-back must look at the whole pending text
        c([g[:1], g[1:2], g[2:3], g[3:], b"!"], []),              # 1+1+1+1
        c([b"x", b"\n", b"\n", b"\n\nHu", b"man", b":", b"y"], [b"\n\nHuman:"]),
        c([b"a", b"b"], [b"ab"], limit=2),                        # stop completes exactly at the limit
        c([b"a", b"b"], [b"ab"], limit=1),                        # limit hit while a stop prefix is pending
        c([b"x", e[:1], e[1:2]], [], limit=3),                    # limit hit inside a character
        c([b"x", e[:2]], []),                                     # EOS inside a character
        c([b"x", b"a"], [b"ab"]),                                 # EOS while a stop prefix is pending
        c([b"", b"a", b"", b"b", b""], [b"ab"]),
        c([b"xa", b"bc", b"d"], [b"abc", b"ab"]),
        c([b"xa", b"bc", b"d"], [b"bc", b"abc"]),
        c([b"a", b"\xff", b"b"], [b"ab"]),                        # invalid byte dropped mid-stream (known finding)
        c([b"a", b"b", b"c"], [], limit=2, eos=False),
        c([b"a", b"b"], [], eos=False),
    ]


def gen_run_cases(ctx):
    rng = ctx.rng
    cases = corpus_runs()
    import glob
    import json
    import os
    for pth in sorted(glob.glob(os.path.join(vlib.VERIF, "corpus", "C14", "*.json"))):
        try:
            c = json.load(open(pth))
            if c.get("op") == "run":
                c["klass"] = "corpus"
                cases.append(c)
        except Exception:
            pass
    n = 100 if ctx.quick() else 900
    for klass in RUN_CLASSES:
        for _ in range(n):
            k = 1 if rng.random() < 0.85 else rng.randint(2, 3)
            cases.append(run_case(rng, [gen_seq(rng, klass) for _ in range(k)], klass))
    # slow / blocked reader: more than 100 flushed pieces (the response channel buffers 100) before a tail that ends
    # with text pending; the same script once with the step-by-step reader and once with a reader that only reads
    # when the producer is blocked
    for _ in range(10 if ctx.quick() else 60):
        cases.extend(long_slow_cases(rng))
    # exhaustive small scope: every token list up to length L over a small piece alphabet (incl. EOS), stop "ab" / e-acute
    L = 3 if ctx.quick() else 5
    alpha = ["61", "62", "c3", "a9", "", "EOS"]
    for n_ in range(0, L + 1):
        for t in itertools.product(alpha, repeat=n_):
            for stops, limit in (([b"ab"], 0), ([b"ab", "é".encode()], 2)):
                cases.append({"op": "run", "mode": "step", "parallel": 1, "batch": 64, "ctx": 256, "cache": "stub",
                              "seqs": [{"prompt": 1, "toks": list(t), "stops": [hx(x) for x in stops], "limit": limit, "keep": 0}], "klass": "run-exhaustive"})
    return cases


# ---- the property evaluated on one sequence's observation (independent of the Coq model)

def earliest_stop(b, stops):
    ks = [b.find(s_) for s_ in stops if s_ and b.find(s_) >= 0]
    return min(ks) if ks else None


def expected_end(pieces, eos, stops, limit):
    """when and why generation has to end, from the property text: E = number of tokens sampled when it ends,
    cause in stop|eos|limit|None (script ran out first)"""
    cands = []
    acc = b""
    npieces = len(pieces) if eos is None else eos
    for j in range(npieces):
        acc += pieces[j]
        if earliest_stop(acc, stops) is not None:
            cands.append((j + 1, 0, "stop"))
            break
    if eos is not None:
        cands.append((eos + 1, 1, "eos"))
    if limit > 0:
        cands.append((limit, 2, "limit"))
    cands = [x for x in cands if x[0] <= npieces + (1 if eos is not None else 0)]
    if not cands:
        return None, None
    E, _, cause = min(cands)
    return E, cause


def valid_prefix(b):
    while not is_valid(b):
        b = b[:-1]
    return b


def monitor_seq(c, q, o, top):
    """returns list of (class, message)"""
    toks = q["toks"]
    eos = toks.index("EOS") if "EOS" in toks else None
    pieces = [bytes.fromhex(t) for t in toks if t != "EOS"]
    stops = [bytes.fromhex(s_) for s_ in q["stops"]]
    limit = q["limit"]
    outs = [bytes.fromhex(x) for x in o["outs"]]
    cat = b"".join(outs)
    viol = []
    E, cause = expected_end(pieces, eos, stops, limit)
    ntext = len(pieces) if eos is None else eos
    G = b"".join(pieces[:min(E, ntext)]) if E is not None else b"".join(pieces[:ntext])
    # "the generated text is valid UTF-8": valid, possibly cut inside its last character by the limit / EOS / script end
    gvalid = is_valid_prefix_of_text(G)

    def v(klass, msg):
        if not gvalid and klass in ("not-prefix", "wrong-end", "output-contains-stop"):
            klass = "invalid-utf8-dropped"
        viol.append((klass, msg))
    if not G.startswith(cat):
        v("not-prefix", "streamed text %r is not a prefix of the generated text %r" % (cat, G))
    k = earliest_stop(G, stops)
    if earliest_stop(cat, stops) is not None:
        v("output-contains-stop", "streamed text %r contains a stop sequence of %r" % (cat, stops))
    if E is not None:
        if not o["closed"]:
            v("not-finished", "generation had to end after %d tokens (%s) but the stream was not closed" % (E, cause))
        else:
            want = G[:k] if cause == "stop" else G
            # a character cut by the stop / limit / EOS cannot be streamed (it would split a character)
            if cat != valid_prefix(want):
                v("wrong-end", "generation ended by %s after %d tokens: streamed %r, the property requires %r (generated %r, stops %r)" % (cause, E, cat, valid_prefix(want), G, stops))
            wantr = "length" if cause == "limit" else "stop"
            if o["reason"] != wantr:
                v("wrong-reason", "generation ended by %s but the reported reason is %r" % (cause, o["reason"]))
            if o["npred"] != E:
                v("wrong-count", "generation ended by %s after %d sampled tokens but %d are reported" % (cause, E, o["npred"]))
    elif o["closed"]:
        v("finished-early", "stream closed (reason %r) although no stop, EOS or limit was reached in %r" % (o["reason"], G))
    if gvalid:
        for x in outs:
            if not is_valid(x):
                v("piece-splits-character", "streamed piece %r is not whole UTF-8 (generated text %r is valid)" % (x, G))
            if earliest_stop(x, stops) is not None:
                v("piece-contains-stop", "streamed piece %r contains a stop sequence" % x)
    return viol


def is_valid_prefix_of_text(b):
    """valid UTF-8 possibly cut inside its last character (an unfinished or cut-off generation)"""
    import codecs
    try:
        codecs.getincrementaldecoder("utf-8")().decode(b, final=False)
        return True
    except UnicodeDecodeError:
        return False


def render_seq(q, o):
    def bl(h_):
        return cq_bytes(bytes.fromhex(h_))

    def strs(l):
        return cq_list([bl(x) for x in l], "str")
    ts = cq_list(["(true, (@nil N))" if t == "EOS" else "(false, %s)" % bl(t) for t in q["toks"]], "(bool * str)")
    rc = {"stop": 1, "length": 2}.get(o["reason"], 3) if o["closed"] else 0
    items = ["chk_run %s %s %s %s %s" % (strs(q["stops"]), cq_nat(q["limit"]), ts, strs(o["outs"]), cq_N(rc))]
    if o["submit"] == "ok":
        evs = cq_list(["(%s, %s, %s, %s)" % (strs(e["emit"]), strs(e["pend"]), cq_nat(e["npred"]), cq_bool(e["done"])) for e in o["events"]], "ev")
        items.append("chk_trace %s %s %s %s" % (strs(q["stops"]), cq_nat(q["limit"]), ts, evs))
    return items


def run_model_term(q):
    def bl(h_):
        return cq_bytes(bytes.fromhex(h_))
    ts = cq_list(["(true, (@nil N))" if t == "EOS" else "(false, %s)" % bl(t) for t in q["toks"]], "(bool * str)")
    st = cq_list([bl(x) for x in q["stops"]], "str")
    return "let s := settle %s (run %s %s (map mk_tok %s)) in (out s, pending s, npred s, fin s)" % (cq_nat(q["limit"]), st, cq_nat(q["limit"]), ts)


def shrink_run(ctx, binp, c, si, klass):
    """smallest token list (then fewer stops) of sequence si on which the monitor still reports klass"""
    import copy

    def fails_with(toks, stops):
        c2 = copy.deepcopy(c)
        c2["seqs"] = [dict(c["seqs"][si], toks=list(toks), stops=list(stops))]
        if c2["mode"] == "http" and "EOS" not in toks:
            return False
        obs, _ = ctx.run_jsonl(binp, [c2], timeout=60)
        if not obs or "seqs" not in obs[0] or not obs[0]["seqs"]:
            return False
        return any(k_ == klass for k_, _ in monitor_seq(c2, c2["seqs"][0], obs[0]["seqs"][0], obs[0]))
    q = c["seqs"][si]
    toks, stops = list(q["toks"]), list(q["stops"])
    if not fails_with(toks, stops):
        return None
    toks = vlib.ddmin(toks, lambda t: fails_with(t, stops), max_tests=60)
    if len(stops) > 1:
        stops = vlib.ddmin(stops, lambda s_: fails_with(toks, s_), max_tests=20)
    c2 = copy.deepcopy(c)
    c2["seqs"] = [dict(q, toks=toks, stops=stops)]
    return c2


def run_stage(ctx, cases=None, with_lr=True, lr_extra=None):
    binp = ctx.go_build("c14run")
    if not binp:
        return
    cases = cases if cases is not None else gen_run_cases(ctx)
    obs, err = ctx.run_jsonl(binp, cases)
    if obs is None or len(obs) != len(cases):
        ctx.obligation("harness c14run answered every case", False, err)
        ctx.proof_failures.append({"obligation": "correspondence: harness c14run did not answer every case", "detail": err})
        return
    items, owners = [], []
    shrunk = set()
    for c, o in zip(cases, obs):
        canon = {k: v for k, v in c.items() if k != "klass"}
        bad = o.get("panic") or o.get("hang") or o.get("err") or (o.get("steps", 0) >= 1000000)
        if bad or "seqs" not in o or len(o["seqs"]) != len(c["seqs"]):
            ctx.note_case(canon, True, c["klass"])
            ctx.violation({"op": "run", "class": "crash"}, "the runner loop crashed/hung/failed on a scripted generation: %s" % {k: o.get(k) for k in ("panic", "hang", "err")},
                          {"case": c, "impl": o})
            continue
        nontriv = False
        for si, (q, so) in enumerate(zip(c["seqs"], o["seqs"])):
            if so["submit"] not in ("ok", "http", "slow") or (c["mode"] == "http" and so.get("status") != 200):
                ctx.violation({"op": "run", "class": "submit-failed"}, "sequence could not be submitted: %s %s" % (so["submit"], so.get("body")), {"case": c, "impl": o})
                continue
            nontriv = nontriv or len(so["outs"]) > 0 and (len(q["stops"]) > 0 or any(len(t) > 2 and t != "EOS" for t in q["toks"]))
            for klass, msg in monitor_seq(c, q, so, o):
                rep = {"case": c, "sequence": si, "impl": o, "replay_cmd": "echo '<case json>' | build/bin/c14run"}
                if klass not in shrunk and len(shrunk) < 6 and not vlib.match_known(ctx.known, {"op": "run", "class": klass}):
                    shrunk.add(klass)
                    m = shrink_run(ctx, binp, c, si, klass)
                    if m:
                        rep["minimal_case"] = m
                ctx.violation({"op": "run", "class": klass}, msg, rep)
            for it in render_seq(q, so):
                items.append(it)
                owners.append((c, si, o))
        ctx.note_case(canon, nontriv, c["klass"], sample={"case": c, "impl": o})
    slow = [o["seqs"][0] for c, o in zip(cases, obs) if c.get("mode") == "slow" and o.get("seqs")]
    if slow:
        ctx.extra["ollamarunner_slow_reader_cases"] = len(slow)
        ctx.extra["ollamarunner_slow_reader_cases_producer_blocked"] = sum(1 for x in slow if x.get("status"))
    if with_lr:
        lr_stage(ctx, cases, obs, extra=lr_extra)
    badi, log = ctx.coq_eval(HEADER, items, per_file=120, name="runs")
    if badi is None:
        ctx.obligation("correspondence (runs): model evaluated on all cases", False, log)
        ctx.proof_failures.append({"obligation": "correspondence evaluation (runs) failed in coqc", "detail": log})
        return
    ctx.disagreements_checked += len(items)
    ctx.obligation("correspondence: model run/settle/trace = real processBatch loop on %d observations (%d scripted generations)" % (len(items), len(cases)), not badi)
    for i in badi[:20]:
        c, si, o = owners[i]
        ctx.mismatch("Runner/StopCorr.%s" % items[i].split()[0], {"case": c, "sequence": si}, o["seqs"][si],
                     ctx.coq_print(HEADER, run_model_term(c["seqs"][si])) if len(ctx.mismatches) < 3 else None)



# ====================================================================================================================
# (L) the end-of-sequence paths of the REAL llamarunner (harness c14lr): flushPending, removeSequence, the limit check
#     of processBatch(nil, nil), at the pending states a scripted generation reaches; fast / slow / absent reader
# ====================================================================================================================

def build_lr(ctx):
    """harness c14lr, with llamarunner's loop body (the statements of processBatch after the sampling of a token)
    extracted from the CURRENT tree by harness/cmd/c14gen and compiled into package llamarunner as c14Tail
    (-tags verif,c14gen).  Returns (binary, loop_available).  vlib.go_build cannot add a generated overlay file, so
    the second build is done here (same lock, same overlay mechanism; nothing is written into the repo)."""
    import hashlib
    import json
    import os
    import shutil
    import subprocess
    plain = ctx.go_build("c14lr")
    gen = ctx.go_build("c14gen")
    if not plain or not gen:
        return plain, False
    p = subprocess.run([gen, vlib.REPO], capture_output=True, text=True, timeout=120)
    if p.returncode != 0 or "func (s *Server) c14Tail" not in p.stdout:
        ctx.obligation("llamarunner's per-token loop body extracted from the tree (c14gen)", False, p.stderr + p.stdout[-500:])
        ctx.proof_failures.append({"obligation": "correspondence: runner/llamarunner processBatch no longer has the shape c14gen extracts the loop body from "
                                                 "(statements after `piece := ...` in `for i, seq := range s.seqs`, no return / llama.cpp call other than TokenIsEog)",
                                   "detail": (p.stderr + p.stdout)[-2000:]})
        return plain, False
    tag = "" if vlib.REPO == "/repo" else "-" + hashlib.sha1(vlib.REPO.encode()).hexdigest()[:8]
    gdir = os.path.join(vlib.BUILD, "c14gen" + tag)
    os.makedirs(gdir, exist_ok=True)
    gfile = os.path.join(gdir, "c14tail_gen.go")
    if not os.path.exists(gfile) or open(gfile).read() != p.stdout:
        open(gfile, "w").write(p.stdout)
    outp = os.path.join(vlib.BUILD, "bin", "c14lrgen" + tag)
    with vlib.Lock("go"):
        # the shared build copy may have been re-synced for another checkout in the meantime
        shutil.copy(os.path.join(vlib.REPO, "go.sum"), os.path.join(vlib.HARNESS, "go.sum"))
        gm = open(os.path.join(vlib.HARNESS_SRC, "go.mod")).read().replace("/repo", vlib.REPO)
        open(os.path.join(vlib.HARNESS, "go.mod"), "w").write(gm)
        pkg = os.path.join(vlib.REPO, "runner", "llamarunner")
        repl = {os.path.join(pkg, "zz_verif_c14lr.go"): os.path.join(vlib.HARNESS_SRC, "overlay", "runner", "llamarunner", "c14lr.go"),
                os.path.join(pkg, "zz_verif_c14tailstub.go"): os.path.join(vlib.HARNESS_SRC, "overlay", "runner", "llamarunner", "c14tailstub.go"),
                os.path.join(pkg, "zz_verif_c14tail_gen.go"): gfile}
        ovj = os.path.join(gdir, "overlay.json")
        json.dump({"Replace": repl}, open(ovj, "w"))
        t = time.time()
        rc, out = vlib.sh(["go", "build", "-tags", "verif,c14gen", "-overlay", ovj, "-o", outp, "./cmd/c14lr"], cwd=vlib.HARNESS, env=vlib.goenv(), timeout=1500)
        ctx.extra["go_build_s"] = round(ctx.extra.get("go_build_s", 0) + time.time() - t, 1)
    ok = rc == 0
    ctx.obligation("llamarunner's per-token loop body extracted from the tree (c14gen) and compiled into package llamarunner", ok, out[-3000:])
    if not ok:
        ctx.proof_failures.append({"obligation": "correspondence: the extracted llamarunner loop body does not compile as an overlay function", "detail": out[-3000:]})
        return plain, False
    return outp, True


def lr_segments(q, so):
    """from the per-batch events of the real ollamarunner loop (whose body is the twin of llamarunner's): the points at
    which the loop calls flushPending / removeSequence / the limit check, with the pending pieces it has there"""
    segs, prev_pend, prev_np, ti = [], [], 0, 0
    toks = q["toks"]
    for e in so["events"]:
        if e["npred"] == prev_np:
            segs.append({"kind": "limit", "pend": prev_pend, "npred": prev_np})
        else:
            if ti >= len(toks):
                return None
            t = toks[ti]
            ti += 1
            if t == "EOS":
                segs.append({"kind": "eos", "pend": prev_pend, "npred": e["npred"]})
            elif e["done"]:
                segs.append({"kind": "stop", "pend": prev_pend + [t], "npred": e["npred"]})
            elif e["emit"]:
                segs.append({"kind": "flush", "pend": prev_pend + [t], "npred": e["npred"]})
            if not e["done"]:
                # start of the next batch: the limit check (a no-op unless the limit is reached)
                segs.append({"kind": "settle", "pend": e["pend"], "npred": e["npred"]})
        prev_pend, prev_np = e["pend"], e["npred"]
    return segs


def lr_random_seg(rng):
    alpha = [b"a", b"b", b"ab", b"x", b"", b"\xc3", b"\xa9", b"\xe2\x82", b"\xac", "é".encode(), "€".encode(), "😀".encode()[:2], b"\n\nHu", b"\xff"]
    pend = [rng.choice(alpha) for _ in range(rng.randint(0, 4))]
    kind = rng.choice(["flush", "eos", "stop", "settle", "settle"])
    stops = rng.choice([[], [b"ab"], [b"\n\nHuman:", b"b"], ["é".encode()]])
    limit = rng.randint(0, 4)
    return {"op": "lr", "stops": [hx(x) for x in stops], "limit": limit, "reader": "fast", "klass": "lr-seg",
            "segs": [{"kind": kind, "pend": [hx(x) for x in pend], "npred": rng.randint(0, 5)}]}


def lr_render(c, o):
    def bl(h_):
        return cq_bytes(bytes.fromhex(h_))

    def strs(l):
        return cq_list([bl(x) for x in l], "str")
    items = []
    if c["reader"] != "fast":
        return items
    for sg, so in zip(c["segs"], o["segs"]):
        k = sg["kind"]
        if k == "flush":
            items.append("chk_seg_flush %s %s %s" % (strs(sg["pend"]), strs(so["emit"]), strs(so["pend"])))
        elif k == "eos":
            items.append("chk_seg_eos %s %s %s %s" % (strs(sg["pend"]), strs(so["emit"]), strs(so["pend"]), cq_bool(so["closed"])))
        elif k == "stop":
            items.append("chk_seg_stop %s %s %s %s %s" % (strs(c["stops"]), strs(sg["pend"]), strs(so["emit"]), strs(so["pend"]), cq_bool(so["closed"])))
        else:
            rc = {"stop": 1, "length": 2}.get(o["reason"], 3) if so["closed"] else 0
            items.append("chk_seg_settle %s %s %s %s %s %s %s" % (cq_nat(c["limit"]), strs(sg["pend"]), cq_nat(sg["npred"]), strs(so["emit"]), strs(so["pend"]),
                                                                 cq_bool(so["closed"]), cq_N(rc)))
    return items


def lr_monitor_seg(c, o):
    """a single end-of-sequence operation on a scripted pending state: what is sent is whole UTF-8 and a prefix of the
    pending text (of its part before the earliest stop); nothing is lost when that text is valid UTF-8"""
    viol = []
    sg, so = c["segs"][0], o["segs"][0]
    stops = [bytes.fromhex(x) for x in c["stops"]]
    joined = b"".join(bytes.fromhex(x) for x in sg["pend"])
    sent = b"".join(bytes.fromhex(x) for x in so["emit"])
    target = joined
    fires = sg["kind"] in ("flush", "eos", "stop") or (c["limit"] > 0 and sg["npred"] >= c["limit"])
    if sg["kind"] == "stop":
        k = earliest_stop(joined, stops)
        target = joined if k is None else joined[:k]
    if not fires:
        target = b""
    if not is_valid(sent):
        viol.append(("piece-splits-character", "%s sent %r, which is not whole UTF-8" % (sg["kind"], sent)))
    if sent != valid_prefix(target):
        viol.append(("pending-text-lost" if target.startswith(sent) else "not-prefix",
                     "%s on pending %r (stops %r): sent %r, expected %r" % (sg["kind"], joined, stops, sent, valid_prefix(target))))
    want_closed = sg["kind"] in ("eos", "stop") or (sg["kind"] in ("limit", "settle") and fires)
    if bool(so["closed"]) != want_closed:
        viol.append(("not-finished" if want_closed else "finished-early", "%s: response channel closed=%r, expected %r" % (sg["kind"], so["closed"], want_closed)))
    if want_closed and so["closed"]:
        wantr = "length" if sg["kind"] in ("limit", "settle") else "stop"
        if o["reason"] != wantr:
            viol.append(("wrong-reason", "%s: reported reason %r, expected %r" % (sg["kind"], o["reason"], wantr)))
    return viol


def lr_stage(ctx, run_cases, run_obs, extra=None):
    binp, loop_ok = build_lr(ctx)
    if not binp:
        return
    rng = ctx.rng
    cases = []
    if loop_ok:
        # (L2) whole scripted generations through llamarunner's own loop body (generated c14Tail) + its real limit check,
        # flushPending and removeSequence: the same scripts as the ollamarunner stage
        for c in run_cases:
            if c.get("mode") not in ("step", "slow") or len(c["seqs"]) != 1:
                continue
            q = c["seqs"][0]
            cases.append({"op": "loop", "toks": q["toks"], "stops": q["stops"], "limit": q["limit"], "prompt": q["prompt"],
                          "reader": "fast" if c["mode"] == "step" else "slow", "klass": "lr-loop", "src": c})
    for c, o in zip(run_cases, run_obs):
        if c.get("mode") != "step" or len(c["seqs"]) != 1 or "seqs" not in o or len(o["seqs"]) != 1 or o["seqs"][0]["submit"] != "ok":
            continue
        q, so = c["seqs"][0], o["seqs"][0]
        segs = lr_segments(q, so)
        if segs is None:
            continue
        base = {"op": "lr", "stops": q["stops"], "limit": q["limit"], "segs": segs, "klass": "lr-" + c["klass"], "src": c, "src_npred": so["npred"]}
        cases.append(dict(base, reader="fast"))
        if c["klass"] == "long-slow":
            cases.append(dict(base, reader="slow"))
            if rng.random() < 0.4:
                cases.append(dict(base, reader="never"))
    if extra is not None:
        cases.extend(extra)
    else:
        for _ in range(300 if ctx.quick() else 5000):
            cases.append(lr_random_seg(rng))
    send = [{k: v for k, v in c.items() if k not in ("src", "src_npred", "klass")} for c in cases]
    obs, err = ctx.run_jsonl(binp, send)
    if obs is None or len(obs) != len(cases):
        ctx.obligation("harness c14lr answered every case", False, err)
        ctx.proof_failures.append({"obligation": "correspondence: harness c14lr did not answer every case", "detail": err})
        return
    items, owners = [], []
    for c, sc, o in zip(cases, send, obs):
        if o.get("panic") or o.get("hang") or ("events" if c["klass"] == "lr-loop" else "segs") not in o:
            ctx.note_case(sc, True, c["klass"])
            ctx.violation({"op": "lr", "runner": "llamarunner", "class": "crash"}, "llamarunner end-of-sequence path crashed/hung: %s" % {k: o.get(k) for k in ("panic", "hang")},
                          {"case": sc, "impl": o})
            continue
        viol = []
        if c["klass"] == "lr-loop":
            if o.get("notail"):
                continue
            q = c["src"]["seqs"][0]
            viol = monitor_seq(c["src"], q, o, o)
            for it in render_seq(q, o):
                items.append(it)
                owners.append((sc, o))
            nontriv = len(o["outs"]) > 0 and (len(q["stops"]) > 0 or any(len(t) > 2 and t != "EOS" for t in q["toks"]))
            for klass, msg in viol:
                ctx.violation({"op": "loop", "runner": "llamarunner", "class": klass}, "llamarunner loop body (reader %s): %s" % (c["reader"], msg),
                              {"case": sc, "impl": o, "replay_cmd": "echo '<case json>' | build/bin/c14lrgen"})
            ctx.note_case(sc, nontriv, "lr-loop-" + c["reader"], sample={"case": sc, "impl": o})
            continue
        if c["klass"] == "lr-seg":
            viol = lr_monitor_seg(c, o)
            nontriv = bool(o["outs"])
        else:
            q = c["src"]["seqs"][0]
            comb = {"outs": o["outs"], "reason": o["reason"], "closed": o["closed"], "npred": c["src_npred"], "submit": "lr"}
            viol = monitor_seq(c["src"], q, comb, o)
            if c["reader"] == "never":
                # the reader went away (quit closed while the producer was blocked): the stream may be cut short, nothing else
                viol = [(k_, m_) for k_, m_ in viol if k_ in ("not-prefix", "piece-splits-character", "piece-contains-stop", "output-contains-stop", "invalid-utf8-dropped")] \
                    if o["blocked"] else viol
            elif not (c["reader"] == "never"):
                items.extend(render_seq(q, comb)[:1])
                owners.extend([(sc, o)])
            nontriv = len(o["outs"]) > 0
        for klass, msg in viol:
            ctx.violation({"op": "lr", "runner": "llamarunner", "class": klass}, "llamarunner (reader %s): %s" % (c["reader"], msg),
                          {"case": sc, "impl": o, "derived_from_run_case": c.get("src"), "replay_cmd": "echo '<case json>' | build/bin/c14lr"})
        for it in lr_render(c, o):
            items.append(it)
            owners.append((sc, o))
        ctx.note_case(sc, nontriv, c["klass"] if c["klass"] == "lr-seg" else "lr-" + c["reader"], sample={"case": sc, "impl": o} if c["klass"] == "lr-seg" else None)
    slow = [(c, o) for c, o in zip(cases, obs) if c.get("reader") in ("slow", "never") and isinstance(o, dict)]
    nblocked = sum(1 for c, o in slow if o.get("blocked"))
    ctx.extra["llamarunner_slow_reader_cases"] = len(slow)
    ctx.extra["llamarunner_slow_reader_cases_producer_blocked"] = nblocked
    if slow:
        ctx.obligation("slow-reader cases reach the full response channel (producer found blocked in %d of %d)" % (nblocked, len(slow)), nblocked > 0)
    badi, log = ctx.coq_eval(HEADER, items, per_file=200, name="lr")
    if badi is None:
        ctx.obligation("correspondence (llamarunner end paths): model evaluated on all cases", False, log)
        ctx.proof_failures.append({"obligation": "correspondence evaluation (llamarunner) failed in coqc", "detail": log})
        return
    ctx.disagreements_checked += len(items)
    ctx.obligation("correspondence: model flush/finish/settle/run = real llamarunner flushPending/removeSequence/limit check on %d observations (%d cases)" % (len(items), len(cases)), not badi)
    for i in badi[:20]:
        sc, o = owners[i]
        ctx.mismatch("Runner/StopCorr.%s (llamarunner)" % items[i].split()[0], sc, o, None)


def twin_check(ctx):
    """llamarunner cannot be executed without a llama.cpp model: its streaming logic is tied to the model through
    ollamarunner's, by requiring that the statements that make it up are the same in both source files (extracted
    from the current tree by harness/cmd/twin with go/ast).  A difference is a correspondence break."""
    import json as _json
    import subprocess
    tw = ctx.go_build("twin")
    if not tw:
        return
    p = subprocess.run([tw, vlib.REPO], capture_output=True, text=True, timeout=120)
    try:
        o = _json.loads(p.stdout)
    except Exception:
        ctx.obligation("twin extraction of the runners' streaming logic", False, p.stdout + p.stderr)
        ctx.proof_failures.append({"obligation": "twin extraction failed", "detail": (p.stdout + p.stderr)[-2000:]})
        return
    a, b = o["ollamarunner"], o["llamarunner"]
    need = ["tail", "flush", "remove", "limit_cond", "limit_body", "eos_body", "inc_count"]
    diffs = [k for k in need if not a.get(k) or a.get(k) != b.get(k)]
    if not (a.get("order_ok") and b.get("order_ok")):
        diffs.append("order(limit check < numPredicted++ < EOS test < append)")
    ctx.obligation("llamarunner streaming statements identical to ollamarunner's (%d sections)" % len(need), not diffs, str(diffs))
    ctx.extra["twin_sections"] = need
    if diffs:
        ctx.mismatch("twin: runner/llamarunner streaming logic no longer matches runner/ollamarunner (sections %s); llamarunner cannot be "
                     "executed here, so no failing input can be produced for it" % diffs,
                     {"sections": diffs}, {k: b.get(k) for k in diffs}, {k: a.get(k) for k in diffs})


def model_term(c):
    def bl(h):
        return cq_bytes(bytes.fromhex(h))

    def strs(l):
        return cq_list([bl(x) for x in l], "str")
    op = c["op"]
    if op == "find_stop":
        return "find_stop %s %s" % (bl(c["seq"]), strs(c["stops"]))
    if op == "suffix":
        return "contains_stop_suffix %s %s" % (bl(c["seq"]), strs(c["stops"]))
    if op == "truncate":
        return "truncate_stop %s %s" % (strs(c["pieces"]), bl(c["stop"]))
    if op == "incomplete":
        return "incomplete_unicode %s" % bl(c["s"])
    if op == "valid":
        return "utf8_valid %s" % bl(c["s"])
    return "trim_valid %s" % cq_bytes(b"".join(bytes.fromhex(p) for p in c["pieces"]))


def replay(ctx, path):
    import json
    r = json.load(open(path))
    ctx.log("replaying", path)
    rp = r.get("replay") or {}
    cands = [rp.get("minimal_case"), rp.get("case"), rp.get("derived_from_run_case")]
    for d in r.get("disagreements", []):
        dc = d.get("case") or {}
        cands.append(dc.get("case") if isinstance(dc.get("case"), dict) else dc)
    cases, segs = [], []
    for c in cands:
        if not isinstance(c, dict):
            continue
        if c.get("op") == "run":
            cases.append(c)
        elif c.get("op") == "loop":
            # a scripted generation through llamarunner's loop body: replay it as a run case (both runners see it)
            cases.append({"op": "run", "mode": "step" if c.get("reader", "fast") == "fast" else "slow", "parallel": 1, "batch": 256, "ctx": 512, "cache": "none",
                          "seqs": [{"prompt": c.get("prompt", 1), "toks": c["toks"], "stops": c["stops"], "limit": c["limit"], "keep": 0}]})
        elif c.get("op") == "lr" and len(c.get("segs", [])) == 1:
            segs.append(dict(c, klass="lr-seg"))
    if cases or segs:
        # run exactly these cases through the real loops, the monitor and the model
        for c in cases:
            c.setdefault("klass", "replay")
        ctx.proof_stage(["Runner"], "Runner/Properties_C14.v", extra_targets=["Runner/StopCorr.v"])
        run_stage(ctx, cases, lr_extra=segs)
        return
    run(ctx)


MANIFEST = {
    "property_id": "C14",
    "quick_cmd": "python3 check.py C14 --tier quick",
    "thorough_cmd": "python3 check.py C14 --tier thorough",
    "evidence_file": "evidence/C14.json",
    "replay_cmd_template": "python3 check.py C14 --replay {path}",
    "engine": "coq-model+go-differential",
    "level_claimed": {
        "category": "proof",
        "text": "Coq theorems over the streaming state machine of processBatch (any token list incl. EOS, any stop set, any limit): when the generated text is "
                "(a prefix of) valid UTF-8 the streamed text is a prefix of it, never contains a stop, every streamed piece is whole UTF-8 and stop-free, a running "
                "sequence has generated no stop yet, a finished one streamed exactly the text up to EOS/limit or up to the EARLIEST stop (less a character cut at the "
                "end), and the reason is length iff the limit check ended it; without the valid-text hypothesis prefix/stop-freeness are refuted (known finding "
                "C14-invalid-utf8-dropped).  The hand-written model is tied to the code on every run: (P) runner/common/stop.go helpers, utf8.ValidString and "
                "flushPending on random + exhaustive short byte strings; (S) whole scripted generations through the REAL ollamarunner Server.processBatch / "
                "NewSequence / removeSequence / completion handler (scripted model+TextProcessor behind an overlay shim) compared batch by batch with the model's "
                "run/settle/trace inside Coq (vm_compute), including readers that leave the 100-entry response channel full; (L) runner/llamarunner: its real "
                "flushPending / removeSequence / limit check of processBatch(nil,nil) executed on a model-less Server+Sequence at the pending states of the same "
                "scripts (fast, slow, absent reader), and its per-token loop body executed as a function extracted mechanically from the current source (c14gen) - "
                "Decode/sampling, which need llama.cpp, are not executed; the property itself is monitored in Python on every observation of both runners; "
                "(T) go/ast twin comparison of the two runners kept as a cross-check.",
        "design_ref": "DESIGN.md section 5, C14",
    },
    "level_note": "Trusted: Coq kernel/vm_compute; the model-to-code tie is differential testing (generator-bounded) through a scripted fake model/backend; llamarunner's "
                  "loop body runs as an extracted copy of the current source, its Decode/sampling not at all; theorems assume non-empty stop strings and, for prefix/stop-freeness/exactness, valid UTF-8 generated text.",
    "technique": "Coq proof (invariant by induction over the token list) + model/implementation differential check",
}
