"""C14 - streamed text stops before stop sequences and is whole UTF-8.

Tie: (P) the four helpers of runner/common/stop.go, utf8.ValidString and flushPending are run on generated
and exhaustively enumerated byte strings and compared with the Coq model (Runner/Stop.v); (S) the per-token
loop of the real ollamarunner processBatch is driven with scripted pieces (harness c14run, added with the
runner harness) and compared with the model's `run`.  Monitor: the property evaluated on what the
implementation returned (stop-freeness of the truncated output, prefix, validity).
"""
import itertools
from lib import vlib
from lib.vlib import cq_bytes, cq_list, cq_bool, cq_nat, cq_N

SETUP_BUILDS = [{"name": "c14"}, {"name": "twin"}]
COQ_TARGETS = ["Runner/Properties_C14.v", "Runner/StopCorr.v"]
HEADER = "From Coq Require Import List NArith Bool.\nFrom V Require Import Common.Bytes Runner.Stop Runner.StopCorr.\nImport ListNotations.\nOpen Scope N_scope.\n"
ALPHA = [b"a", b"b", b"c", b" ", b"\xc3", b"\xa9", b"\xe2", b"\x82", b"\xac", b"\xf0", b"\x9f", b"\x98", b"\x80", b"\xff", b"\xed", b"\xa0", b"\xc0", b"\xf4", b"\x90"]
CHARS = ["a", "b", "c", " ", "é", "€", "😀", "ab", "ba", "\n"]


def hx(b):
    return b.hex()


def rnd_text(rng, n):
    return "".join(rng.choice(CHARS) for _ in range(n)).encode()


def rnd_bytes(rng, n):
    return b"".join(rng.choice(ALPHA) for _ in range(n))


def split_pieces(rng, b, k):
    cuts = sorted(rng.randrange(0, len(b) + 1) for _ in range(k))
    out, last = [], 0
    for c in cuts + [len(b)]:
        out.append(b[last:c])
        last = c
    return out


def gen_cases(ctx):
    rng = ctx.rng
    cases = []
    n = 250 if ctx.quick() else 4000
    # corpus first: the minimal cases that once violated / disagreed
    cases.append({"op": "find_stop", "seq": hx(b"ab"), "stops": [hx(b"b"), hx(b"a")], "klass": "corpus"})
    cases.append({"op": "find_stop", "seq": hx(b"xaby"), "stops": [hx(b"by"), hx(b"ab"), hx(b"x")], "klass": "corpus"})
    for _ in range(n):
        stops = [rnd_text(rng, rng.randint(1, 3)) for _ in range(rng.randint(1, 4))]
        body = rnd_text(rng, rng.randint(0, 6))
        if rng.random() < 0.7:
            s = rng.choice(stops)
            body = body + s[: rng.randint(1, len(s))] + rnd_text(rng, rng.randint(0, 2))
        if rng.random() < 0.3:
            body = body + rng.choice(stops)
        cases.append({"op": "find_stop", "seq": hx(body), "stops": [hx(s) for s in stops], "klass": "find_stop"})
        cases.append({"op": "suffix", "seq": hx(body), "stops": [hx(s) for s in stops], "klass": "suffix"})
        pieces = split_pieces(rng, body, rng.randint(0, 4))
        stop = rng.choice(stops) if rng.random() < 0.8 else rnd_text(rng, 2)
        cases.append({"op": "truncate", "pieces": [hx(p) for p in pieces], "stop": hx(stop), "klass": "truncate"})
        raw = rnd_bytes(rng, rng.randint(0, 9)) if rng.random() < 0.5 else rnd_text(rng, 4)[: rng.randint(0, 12)]
        cases.append({"op": "incomplete", "s": hx(raw), "klass": "incomplete"})
        cases.append({"op": "valid", "s": hx(raw), "klass": "valid"})
        cases.append({"op": "flush", "pieces": [hx(p) for p in split_pieces(rng, raw, rng.randint(0, 2))], "klass": "flush"})
    # exhaustive short strings over the UTF-8 class representatives
    maxlen = 3 if ctx.quick() else 4
    alpha = ALPHA if not ctx.quick() else ALPHA[:1] + ALPHA[4:]
    for L in range(0, maxlen + 1):
        for t in itertools.product(alpha, repeat=L):
            b = b"".join(t)
            cases.append({"op": "valid", "s": hx(b), "klass": "valid-exhaustive"})
            cases.append({"op": "incomplete", "s": hx(b), "klass": "incomplete-exhaustive"})
    return cases


def contains_any(b, stops):
    return any(s in b for s in stops if s)


def is_valid(b):
    try:
        b.decode("utf-8")
        return True
    except UnicodeDecodeError:
        return False


def monitor(ctx, c, o):
    """the property itself, on the implementation's observation"""
    if "panic" in o:
        ctx.violation({"op": c["op"], "class": "panic"}, "stop helper panicked: %s" % o["panic"], {"case": c, "impl": o})
        return
    if c["op"] == "find_stop":
        seq = bytes.fromhex(c["seq"])
        stops = [bytes.fromhex(s) for s in c["stops"]]
        if o["found"]:
            st = bytes.fromhex(o["stop"])
            i = seq.find(st)
            if st not in stops or i < 0:
                ctx.violation({"op": "find_stop", "class": "bogus-stop"}, "FindStop returned a stop that is not in the text", {"case": c, "impl": o})
            elif contains_any(seq[:i], stops):
                ctx.violation({"op": "find_stop", "class": "output-contains-stop"},
                              "output truncated at the reported stop %r still contains a stop sequence: text %r stops %r -> %r" % (st, seq, stops, seq[:i]),
                              {"case": c, "impl": o, "text": repr(seq), "stops": repr(stops), "output": repr(seq[:i])})
        elif contains_any(seq, stops):
            ctx.violation({"op": "find_stop", "class": "missed-stop"}, "FindStop missed a stop contained in the text", {"case": c, "impl": o})
    elif c["op"] == "flush":
        joined = b"".join(bytes.fromhex(p) for p in c["pieces"])
        res = b"".join(bytes.fromhex(p) for p in o["res"])
        if not is_valid(res) or not joined.startswith(res):
            ctx.violation({"op": "flush", "class": "invalid-or-not-prefix"}, "flushPending streamed %r for pending %r" % (res, joined), {"case": c, "impl": o})


def render(c, o):
    def bl(h):
        return cq_bytes(bytes.fromhex(h))

    def strs(l):
        return cq_list([bl(x) for x in l], "str")
    op = c["op"]
    if op == "find_stop":
        return "chk_find_stop %s %s %s %s" % (bl(c["seq"]), strs(c["stops"]), cq_bool(o["found"]), bl(o["stop"]))
    if op == "suffix":
        return "chk_suffix %s %s %s" % (bl(c["seq"]), strs(c["stops"]), cq_bool(o["r"]))
    if op == "truncate":
        return "chk_truncate %s %s %s %s" % (strs(c["pieces"]), bl(c["stop"]), strs(o["res"] or []), cq_bool(o["trunc"]))
    if op == "incomplete":
        return "chk_incomplete %s %s" % (bl(c["s"]), cq_bool(o["r"]))
    if op == "valid":
        return "chk_valid %s %s" % (bl(c["s"]), cq_bool(o["r"]))
    if op == "flush":
        return "chk_trim %s %s" % (cq_bytes(b"".join(bytes.fromhex(p) for p in c["pieces"])), cq_bytes(b"".join(bytes.fromhex(p) for p in o["res"])))
    raise ValueError(op)


def nontrivial(c, o):
    op = c["op"]
    if op == "find_stop":
        return o.get("found", False)
    if op == "suffix":
        return o.get("r", False)
    if op == "truncate":
        return bool(o.get("res")) and o.get("res") != c["pieces"]
    if op in ("incomplete", "valid"):
        return len(c["s"]) >= 4
    if op == "flush":
        return bool(o.get("res"))
    return True


def run(ctx):
    ctx.rule = ("cases: random texts over {a,b,c,space,e-acute,euro,emoji,...} with stops planted whole/partially/split across pieces, "
                "plus every byte string up to length %d over UTF-8 class representatives (exhaustive); non-trivial = a stop was found / suffix held / "
                "truncation changed the pieces / string of >= 2 bytes; distinct = by canonical JSON of the case" % (3 if ctx.quick() else 4))
    ctx.trusted = ["Coq 8.16.1 kernel + vm_compute", "hand-written model coq/Runner/Stop.v tied to the code by this differential run only",
                   "Go harness harness/cmd/c14 and overlay export VerifFlush (add-only, build tag verif)", "python case generator and monitor (props/c14.py)"]
    ctx.assumptions = ["stop strings are non-empty in the theorems (an empty stop string is contained in every text)",
                       "C14_stop_free / C14_prefix assume no mid-stream flush had to drop invalid bytes (holds when the generated text is valid UTF-8)"]
    ctx.proof_stage(["Runner"], "Runner/Properties_C14.v", extra_targets=["Runner/StopCorr.v"])
    binp = ctx.go_build("c14")
    if not binp:
        return
    twin_check(ctx)
    cases = gen_cases(ctx)
    obs, err = ctx.run_jsonl(binp, cases)
    if obs is None or len(obs) != len(cases):
        ctx.obligation("harness c14 answered every case", False, err)
        ctx.proof_failures.append({"obligation": "correspondence: harness c14 did not answer every case", "detail": err})
        return
    items = []
    for c, o in zip(cases, obs):
        ctx.note_case({k: v for k, v in c.items() if k != "klass"}, nontrivial(c, o), c["klass"], sample={"case": c, "impl": o})
        monitor(ctx, c, o)
        items.append(render(c, o) if "panic" not in o else "false")
    bad, log = ctx.coq_eval(HEADER, items, per_file=400)
    if bad is None:
        ctx.obligation("correspondence: model evaluated on all cases", False, log)
        ctx.proof_failures.append({"obligation": "correspondence evaluation failed in coqc", "detail": log})
        return
    ctx.disagreements_checked = len(items)
    ctx.obligation("correspondence: model = implementation on %d cases" % len(items), not bad)
    for i in bad[:20]:
        ctx.mismatch("Runner/StopCorr.%s" % render(cases[i], obs[i]).split()[0], cases[i], obs[i],
                     ctx.coq_print(HEADER, model_term(cases[i])) if len(ctx.mismatches) < 3 else None)


def twin_check(ctx):
    """llamarunner cannot be executed without a llama.cpp model: its streaming logic is tied to the model through
    ollamarunner's, by requiring that the statements that make it up are the same in both source files (extracted
    from the current tree by harness/cmd/twin with go/ast).  A difference is a correspondence break."""
    import json as _json
    import subprocess
    tw = ctx.go_build("twin")
    if not tw:
        return
    p = subprocess.run([tw, vlib.REPO], capture_output=True, text=True, timeout=120)
    try:
        o = _json.loads(p.stdout)
    except Exception:
        ctx.obligation("twin extraction of the runners' streaming logic", False, p.stdout + p.stderr)
        ctx.proof_failures.append({"obligation": "twin extraction failed", "detail": (p.stdout + p.stderr)[-2000:]})
        return
    a, b = o["ollamarunner"], o["llamarunner"]
    need = ["tail", "flush", "remove", "limit_cond", "limit_body", "eos_body", "inc_count"]
    diffs = [k for k in need if not a.get(k) or a.get(k) != b.get(k)]
    if not (a.get("order_ok") and b.get("order_ok")):
        diffs.append("order(limit check < numPredicted++ < EOS test < append)")
    ctx.obligation("llamarunner streaming statements identical to ollamarunner's (%d sections)" % len(need), not diffs, str(diffs))
    ctx.extra["twin_sections"] = need
    if diffs:
        ctx.mismatch("twin: runner/llamarunner streaming logic no longer matches runner/ollamarunner (sections %s); llamarunner cannot be "
                     "executed here, so no failing input can be produced for it" % diffs,
                     {"sections": diffs}, {k: b.get(k) for k in diffs}, {k: a.get(k) for k in diffs})


def model_term(c):
    def bl(h):
        return cq_bytes(bytes.fromhex(h))

    def strs(l):
        return cq_list([bl(x) for x in l], "str")
    op = c["op"]
    if op == "find_stop":
        return "find_stop %s %s" % (bl(c["seq"]), strs(c["stops"]))
    if op == "suffix":
        return "contains_stop_suffix %s %s" % (bl(c["seq"]), strs(c["stops"]))
    if op == "truncate":
        return "truncate_stop %s %s" % (strs(c["pieces"]), bl(c["stop"]))
    if op == "incomplete":
        return "incomplete_unicode %s" % bl(c["s"])
    if op == "valid":
        return "utf8_valid %s" % bl(c["s"])
    return "trim_valid %s" % cq_bytes(b"".join(bytes.fromhex(p) for p in c["pieces"]))


def replay(ctx, path):
    import json
    r = json.load(open(path))
    ctx.log("replaying", path)
    run(ctx)


MANIFEST = {
    "property_id": "C14",
    "quick_cmd": "python3 check.py C14 --tier quick",
    "thorough_cmd": "python3 check.py C14 --tier thorough",
    "evidence_file": "evidence/C14.json",
    "replay_cmd_template": "python3 check.py C14 --replay {path}",
    "engine": "coq-model+go-differential",
    "level_claimed": {
        "category": "proof",
        "text": "Coq theorems over the streaming state machine (any token list, stop set, limit): streamed text is a prefix of the generated text, "
                "never contains a stop, generation ends at the first token that completes a stop, every streamed piece is valid UTF-8. "
                "The hand-written model is tied to runner/common/stop.go, utf8.ValidString and flushPending by a differential run "
                "(random + exhaustive short byte strings) evaluated inside Coq with vm_compute; the property is also monitored directly on the implementation's outputs.",
        "design_ref": "DESIGN.md section 5, C14",
    },
    "level_note": "Trusted: Coq kernel/vm_compute; the model-to-code tie is differential testing (generator-bounded); theorems assume non-empty stop strings "
                  "and that no mid-stream flush dropped invalid bytes (true for valid UTF-8 generations).",
    "technique": "Coq proof (invariant by induction over the token list) + model/implementation differential check",
}
