"""C14 - streamed text stops before stop sequences and is whole UTF-8.

Tie: (P) the four helpers of runner/common/stop.go, utf8.ValidString and flushPending are run on generated
and exhaustively enumerated byte strings and compared with the Coq model (Runner/Stop.v); (S) whole scripted
generations are pushed through the REAL ollamarunner Server (NewSequence, LoadCacheSlot, processBatch,
flushPending, removeSequence; in "http" mode also the real completion handler and run loop) by harness c14run:
the i-th sampled token decodes to the i-th scripted piece (arbitrary bytes) or is EOS.  Everything sent on
Sequence.responses, pendingResponses/numPredicted after every batch, and the done reason are compared with the
model's `run`/`settle`/`trace` (Runner/StopCorr.v chk_run, chk_trace).  Monitor: the property itself evaluated on
the observation in Python, independently of the model (prefix; ends immediately before the earliest stop and
contains none, else ends at EOS / the limit; valid text => every piece whole UTF-8 and stop-free; reason).
(T) llamarunner's loop cannot be executed without llama.cpp objects: its statements are required to be identical
to ollamarunner's (harness twin, go/ast).
"""
import itertools
from lib import vlib
from lib.vlib import cq_bytes, cq_list, cq_bool, cq_nat, cq_N

SETUP_BUILDS = [{"name": "c14"}, {"name": "c14run"}, {"name": "twin"}]
COQ_TARGETS = ["Runner/Properties_C14.v", "Runner/StopCorr.v"]
HEADER = "From Coq Require Import List NArith Bool.\nFrom V Require Import Common.Bytes Runner.Stop Runner.StopCorr.\nImport ListNotations.\nOpen Scope N_scope.\n"
ALPHA = [b"a", b"b", b"c", b" ", b"\xc3", b"\xa9", b"\xe2", b"\x82", b"\xac", b"\xf0", b"\x9f", b"\x98", b"\x80", b"\xff", b"\xed", b"\xa0", b"\xc0", b"\xf4", b"\x90"]
CHARS = ["a", "b", "c", " ", "é", "€", "😀", "ab", "ba", "\n"]


def hx(b):
    return b.hex()


def rnd_text(rng, n):
    return "".join(rng.choice(CHARS) for _ in range(n)).encode()


def rnd_bytes(rng, n):
    return b"".join(rng.choice(ALPHA) for _ in range(n))


def split_pieces(rng, b, k):
    cuts = sorted(rng.randrange(0, len(b) + 1) for _ in range(k))
    out, last = [], 0
    for c in cuts + [len(b)]:
        out.append(b[last:c])
        last = c
    return out


def gen_cases(ctx):
    rng = ctx.rng
    cases = []
    n = 250 if ctx.quick() else 4000
    # corpus first: the minimal cases that once violated / disagreed
    cases.append({"op": "find_stop", "seq": hx(b"ab"), "stops": [hx(b"b"), hx(b"a")], "klass": "corpus"})
    cases.append({"op": "find_stop", "seq": hx(b"xaby"), "stops": [hx(b"by"), hx(b"ab"), hx(b"x")], "klass": "corpus"})
    for _ in range(n):
        stops = [rnd_text(rng, rng.randint(1, 3)) for _ in range(rng.randint(1, 4))]
        body = rnd_text(rng, rng.randint(0, 6))
        if rng.random() < 0.7:
            s = rng.choice(stops)
            body = body + s[: rng.randint(1, len(s))] + rnd_text(rng, rng.randint(0, 2))
        if rng.random() < 0.3:
            body = body + rng.choice(stops)
        cases.append({"op": "find_stop", "seq": hx(body), "stops": [hx(s) for s in stops], "klass": "find_stop"})
        cases.append({"op": "suffix", "seq": hx(body), "stops": [hx(s) for s in stops], "klass": "suffix"})
        pieces = split_pieces(rng, body, rng.randint(0, 4))
        stop = rng.choice(stops) if rng.random() < 0.8 else rnd_text(rng, 2)
        cases.append({"op": "truncate", "pieces": [hx(p) for p in pieces], "stop": hx(stop), "klass": "truncate"})
        raw = rnd_bytes(rng, rng.randint(0, 9)) if rng.random() < 0.5 else rnd_text(rng, 4)[: rng.randint(0, 12)]
        cases.append({"op": "incomplete", "s": hx(raw), "klass": "incomplete"})
        cases.append({"op": "valid", "s": hx(raw), "klass": "valid"})
        cases.append({"op": "flush", "pieces": [hx(p) for p in split_pieces(rng, raw, rng.randint(0, 2))], "klass": "flush"})
    # exhaustive short strings over the UTF-8 class representatives
    maxlen = 3 if ctx.quick() else 4
    alpha = ALPHA if not ctx.quick() else ALPHA[:1] + ALPHA[4:]
    for L in range(0, maxlen + 1):
        for t in itertools.product(alpha, repeat=L):
            b = b"".join(t)
            cases.append({"op": "valid", "s": hx(b), "klass": "valid-exhaustive"})
            cases.append({"op": "incomplete", "s": hx(b), "klass": "incomplete-exhaustive"})
    return cases


def contains_any(b, stops):
    return any(s in b for s in stops if s)


def is_valid(b):
    try:
        b.decode("utf-8")
        return True
    except UnicodeDecodeError:
        return False


def monitor(ctx, c, o):
    """the property itself, on the implementation's observation"""
    if "panic" in o:
        ctx.violation({"op": c["op"], "class": "panic"}, "stop helper panicked: %s" % o["panic"], {"case": c, "impl": o})
        return
    if c["op"] == "find_stop":
        seq = bytes.fromhex(c["seq"])
        stops = [bytes.fromhex(s) for s in c["stops"]]
        if o["found"]:
            st = bytes.fromhex(o["stop"])
            i = seq.find(st)
            if st not in stops or i < 0:
                ctx.violation({"op": "find_stop", "class": "bogus-stop"}, "FindStop returned a stop that is not in the text", {"case": c, "impl": o})
            elif contains_any(seq[:i], stops):
                ctx.violation({"op": "find_stop", "class": "output-contains-stop"},
                              "output truncated at the reported stop %r still contains a stop sequence: text %r stops %r -> %r" % (st, seq, stops, seq[:i]),
                              {"case": c, "impl": o, "text": repr(seq), "stops": repr(stops), "output": repr(seq[:i])})
        elif contains_any(seq, stops):
            ctx.violation({"op": "find_stop", "class": "missed-stop"}, "FindStop missed a stop contained in the text", {"case": c, "impl": o})
    elif c["op"] == "flush":
        joined = b"".join(bytes.fromhex(p) for p in c["pieces"])
        res = b"".join(bytes.fromhex(p) for p in o["res"])
        if not is_valid(res) or not joined.startswith(res):
            ctx.violation({"op": "flush", "class": "invalid-or-not-prefix"}, "flushPending streamed %r for pending %r" % (res, joined), {"case": c, "impl": o})


def render(c, o):
    def bl(h):
        return cq_bytes(bytes.fromhex(h))

    def strs(l):
        return cq_list([bl(x) for x in l], "str")
    op = c["op"]
    if op == "find_stop":
        return "chk_find_stop %s %s %s %s" % (bl(c["seq"]), strs(c["stops"]), cq_bool(o["found"]), bl(o["stop"]))
    if op == "suffix":
        return "chk_suffix %s %s %s" % (bl(c["seq"]), strs(c["stops"]), cq_bool(o["r"]))
    if op == "truncate":
        return "chk_truncate %s %s %s %s" % (strs(c["pieces"]), bl(c["stop"]), strs(o["res"] or []), cq_bool(o["trunc"]))
    if op == "incomplete":
        return "chk_incomplete %s %s" % (bl(c["s"]), cq_bool(o["r"]))
    if op == "valid":
        return "chk_valid %s %s" % (bl(c["s"]), cq_bool(o["r"]))
    if op == "flush":
        return "chk_trim %s %s" % (cq_bytes(b"".join(bytes.fromhex(p) for p in c["pieces"])), cq_bytes(b"".join(bytes.fromhex(p) for p in o["res"])))
    raise ValueError(op)


def nontrivial(c, o):
    op = c["op"]
    if op == "find_stop":
        return o.get("found", False)
    if op == "suffix":
        return o.get("r", False)
    if op == "truncate":
        return bool(o.get("res")) and o.get("res") != c["pieces"]
    if op in ("incomplete", "valid"):
        return len(c["s"]) >= 4
    if op == "flush":
        return bool(o.get("res"))
    return True


def run(ctx):
    ctx.rule = ("helper cases: random texts over {a,b,c,space,e-acute,euro,emoji,...} with stops planted whole/partially/split across pieces, "
                "plus every byte string up to length %d over UTF-8 class representatives (exhaustive); non-trivial = a stop was found / suffix held / "
                "truncation changed the pieces / string of >= 2 bytes.  run cases: scripted generations (token pieces + EOS position, stops, limit) through the real "
                "ollamarunner processBatch, classes %s, server configuration (cache none/stub/stub-nopartial, batch 1..64, context 4..256 with shifts, 1-3 sequences, "
                "step or http mode) drawn at random, plus every token list up to length %d over {a,b,c3,a9,empty,EOS}; non-trivial = something was streamed and the "
                "case has a stop or a multi-byte piece; distinct = by canonical JSON of the case" % (3 if ctx.quick() else 4, ",".join(RUN_CLASSES), 3 if ctx.quick() else 5))
    ctx.trusted = ["Coq 8.16.1 kernel + vm_compute", "hand-written model coq/Runner/Stop.v tied to the code by this differential run only",
                   "Go harness harness/cmd/c14 and overlay export VerifFlush (add-only, build tag verif)",
                   "Go harness harness/cmd/c14run: scripted model/TextProcessor/backend/cache stub behind the real Server (overlay c14run.go, model/c14.go, add-only); "
                   "its step mode copies the slot-assignment block of (*Server).completion, its http mode calls the real handler",
                   "llamarunner is tied only syntactically (harness twin: same statements as ollamarunner)", "python case generator and monitor (props/c14.py)"]
    ctx.assumptions = ["stop strings are non-empty in the theorems (an empty stop string is contained in every text)",
                       "prefix / stop-freeness / exactness assume the generated text is (a prefix of) valid UTF-8 (C14_*_partial, C14_valid_text_lossless); "
                       "without it they are refuted (C14_prefix_refuted, C14_stop_free_refuted; known finding C14-invalid-utf8-dropped)",
                       "contexts so small that a stop spans more tokens than the input cache holds after a shift are excluded (the stop branch's cache trimming panics there: cache matter, C07)"]
    ctx.proof_stage(["Runner"], "Runner/Properties_C14.v", extra_targets=["Runner/StopCorr.v"])
    binp = ctx.go_build("c14")
    if not binp:
        return
    twin_check(ctx)
    cases = gen_cases(ctx)
    obs, err = ctx.run_jsonl(binp, cases)
    if obs is None or len(obs) != len(cases):
        ctx.obligation("harness c14 answered every case", False, err)
        ctx.proof_failures.append({"obligation": "correspondence: harness c14 did not answer every case", "detail": err})
        return
    items = []
    for c, o in zip(cases, obs):
        ctx.note_case({k: v for k, v in c.items() if k != "klass"}, nontrivial(c, o), c["klass"], sample={"case": c, "impl": o})
        monitor(ctx, c, o)
        items.append(render(c, o) if "panic" not in o else "false")
    bad, log = ctx.coq_eval(HEADER, items, per_file=400)
    if bad is None:
        ctx.obligation("correspondence: model evaluated on all cases", False, log)
        ctx.proof_failures.append({"obligation": "correspondence evaluation failed in coqc", "detail": log})
        return
    ctx.disagreements_checked = len(items)
    ctx.obligation("correspondence: model = implementation on %d cases" % len(items), not bad)
    for i in bad[:20]:
        ctx.mismatch("Runner/StopCorr.%s" % render(cases[i], obs[i]).split()[0], cases[i], obs[i],
                     ctx.coq_print(HEADER, model_term(cases[i])) if len(ctx.mismatches) < 3 else None)
    run_stage(ctx)



# ====================================================================================================================
# (S) whole streaming runs through the REAL ollamarunner Server.processBatch (harness c14run)
# ====================================================================================================================

TXT = ["a", "b", "c", " ", "\n", "H", "é", "€", "😀", "한"]
MB = ["é", "€", "😀", "한", "ß", "🙂"]
RECUR_STOPS = [b"\n\nHuman:", b"aab", b"abab", b"<<e>", b"\n\n", "éé!".encode(), "€€".encode(), b"a\na\nb"]
INVALID = [b"\xff", b"\x80", b"\xe2\x82", b"\xc0\x80", b"\xed\xa0\x80", b"\xf0\x9f", b"\xc3", b"\xf4\x90\x80\x80", b"\xbf"]


def text(rng, n, mb=0.3):
    return "".join(rng.choice(MB) if rng.random() < mb else rng.choice(TXT[:6]) for _ in range(n))


def tok_bytes(b):
    return [bytes([x]) for x in b]


def tok_random(rng, b, maxlen=3):
    out, i = [], 0
    while i < len(b):
        k = rng.randint(1, maxlen)
        out.append(b[i:i + k])
        i += k
    return out


def tok_mb(rng, t):
    """multi-byte characters one byte per token (1+1, 1+1+1, 1+1+1+1); ASCII glued to neighbours at random"""
    out = []
    for ch in t:
        e = ch.encode()
        if len(e) > 1:
            out.extend(tok_bytes(e))
        elif out and rng.random() < 0.4:
            out[-1] = out[-1] + e
        else:
            out.append(e)
    return out


def tok_chars(t):
    return [ch.encode() for ch in t]


def planted(rng, pre, stop, post, parts):
    """pre + stop + post with the stop cut into `parts` tokens; the first may carry the tail of pre, the last the
    head of post (stop strings overlapping piece boundaries)"""
    parts = max(1, min(parts, len(stop)))
    cuts = sorted(rng.sample(range(1, len(stop)), parts - 1)) if parts > 1 else []
    segs = [stop[a:b] for a, b in zip([0] + cuts, cuts + [len(stop)])]
    a = tok_random(rng, pre)
    z = tok_random(rng, post)
    if a and rng.random() < 0.5:
        segs[0] = a.pop() + segs[0]
    if z and rng.random() < 0.5:
        segs[-1] = segs[-1] + z.pop(0)
    return a + segs + z, len(a) + len(segs)      # pieces, number of tokens after which the stop is complete


def rnd_stop(rng):
    r = rng.random()
    if r < 0.3:
        return rng.choice(RECUR_STOPS)
    return text(rng, rng.randint(1, 3), 0.25).encode()


def gen_seq(rng, klass):
    """-> dict(pieces=[bytes], eos=index or None, stops=[bytes], limit=int)"""
    stops, limit, eos = [], 0, "end"
    if klass == "empty-pieces":
        # any structured class, with empty pieces forced in below (also first, last, inside a stop / a character)
        q = gen_seq(rng, rng.choice(["mb-split", "byte-fallback", "stop-split", "stop-recur", "prefix-stops", "eos-pending"]))
        toks = list(q["pieces"])
        eos_at = q["eos"]
        for _ in range(rng.randint(1, 3)):
            i = rng.randint(0, len(toks))
            toks.insert(i, b"")
            if eos_at is not None and i <= eos_at:
                eos_at += 1
        return {"pieces": toks, "eos": eos_at, "stops": q["stops"], "limit": q["limit"] + (1 if q["limit"] and rng.random() < 0.5 else 0)}
    if klass == "mb-split":
        t = text(rng, rng.randint(2, 7), 0.6)
        pieces = tok_mb(rng, t)
        stops = [rnd_stop(rng) for _ in range(rng.randint(0, 2))]
    elif klass == "byte-fallback":
        t = text(rng, rng.randint(2, 6), 0.5)
        pieces = tok_bytes(t.encode())
        stops = [rng.choice([rng.choice(MB).encode(), rnd_stop(rng), (rng.choice(MB) + "!").encode()]) for _ in range(rng.randint(0, 2))]
    elif klass in ("stop-split", "stop-at-limit"):
        stop = rnd_stop(rng) if rng.random() < 0.5 else text(rng, rng.randint(2, 4), 0.3).encode()
        pre = text(rng, rng.randint(0, 4), 0.3).encode()
        post = text(rng, rng.randint(0, 3), 0.3).encode()
        pieces, j = planted(rng, pre, stop, post, rng.randint(2, 4))
        stops = [stop] + [rnd_stop(rng) for _ in range(rng.randint(0, 2))]
        rng.shuffle(stops)
        if klass == "stop-at-limit":
            limit = max(1, j + rng.choice([-1, 0, 0, 1]))
    elif klass == "stop-recur":
        stop = rng.choice(RECUR_STOPS)
        k = rng.randint(1, len(stop) - 1)
        body = text(rng, rng.randint(0, 3), 0.2).encode() + stop[:k] * rng.randint(1, 2) + (stop if rng.random() < 0.8 else stop[:-1]) + text(rng, rng.randint(0, 2), 0.2).encode()
        pieces = tok_random(rng, body, rng.choice([1, 2, 3]))
        stops = [stop] + ([rnd_stop(rng)] if rng.random() < 0.3 else [])
    elif klass == "limit-pending":
        # the limit falls inside a split character or a partially matched stop
        if rng.random() < 0.5:
            pre_toks = tok_random(rng, text(rng, rng.randint(0, 3), 0.0).encode())
            chb = rng.choice(MB).encode()
            pieces = pre_toks + tok_bytes(chb) + tok_random(rng, text(rng, 2, 0.3).encode())
            limit = len(pre_toks) + rng.randint(1, len(chb) - 1)
            stops = [rnd_stop(rng)] if rng.random() < 0.3 else []
        else:
            stop = rng.choice(RECUR_STOPS)
            pieces, j = planted(rng, text(rng, rng.randint(0, 3), 0.2).encode(), stop, b"zz", rng.randint(2, 4))
            limit = max(1, j - rng.randint(1, 2))
            stops = [stop]
    elif klass == "eos-pending":
        if rng.random() < 0.5:
            ch = rng.choice(MB).encode()
            pieces = tok_random(rng, text(rng, rng.randint(0, 3), 0.2).encode()) + tok_bytes(ch)[:rng.randint(1, len(ch) - 1)]
        else:
            stop = rng.choice(RECUR_STOPS)
            pieces = tok_random(rng, text(rng, rng.randint(0, 3), 0.2).encode() + stop[:rng.randint(1, len(stop) - 1)], 2)
            stops = [stop]
    elif klass == "prefix-stops":
        fam = rng.choice([[b"ab", b"abc"], [b"abc", b"ab"], [b"b", b"abc"], [b"bc", b"abc", b"c"], [b"abc", b"bcd"], [b"aa", b"a"],
                          ["é".encode(), "é!".encode()], [b"\n\nH", b"\n\nHuman:"], [b"abcd", b"bc"], [b"ab", b"ba"]])
        body = (text(rng, rng.randint(0, 3), 0.2) + rng.choice(["abcd", "xabc", "aabc", "ababc", "é!", "\n\nHuman:", "abd", "bcd", "ba"]) + text(rng, rng.randint(0, 2), 0.2)).encode()
        pieces = tok_random(rng, body, rng.choice([1, 2, 3, 4]))
        stops = list(fam)
    elif klass == "invalid":
        parts = [text(rng, rng.randint(0, 2), 0.4).encode(), rng.choice(INVALID), text(rng, rng.randint(0, 3), 0.4).encode()]
        if rng.random() < 0.3:
            parts += [rng.choice(INVALID)]
        pieces = tok_random(rng, b"".join(parts), rng.choice([1, 1, 2, 3]))
        stops = [rnd_stop(rng) for _ in range(rng.randint(0, 2))] + ([b"ab", b"a\xffb"] if rng.random() < 0.2 else [])
    else:  # random
        alpha = [b"a", b"b", b"ab", b"ba", b"", b"\xc3", b"\xa9", b"\xe2\x82", b"\xac", b"c", b" ", b"\xc3\xa9"]
        pieces = [rng.choice(alpha) for _ in range(rng.randint(0, 8))]
        stops = [b"".join(rng.choice(alpha[:4] + alpha[9:]) for _ in range(rng.randint(1, 3))) or b"a" for _ in range(rng.randint(0, 3))]
    # common perturbations
    if rng.random() < 0.15:
        for _ in range(rng.randint(1, 3)):
            pieces.insert(rng.randint(0, len(pieces)), b"")
    if klass not in ("stop-at-limit", "limit-pending") and rng.random() < 0.3:
        limit = rng.randint(1, max(1, len(pieces) + 1))
    r = rng.random()
    if klass == "eos-pending" or r < 0.55:
        eos = len(pieces)
    elif r < 0.7 and pieces:
        eos = rng.randint(0, len(pieces))
    else:
        eos = None
    stops = [x for x in stops if x]
    return {"pieces": pieces, "eos": eos, "stops": stops, "limit": limit}


RUN_CLASSES = ["mb-split", "byte-fallback", "stop-split", "stop-recur", "stop-at-limit", "limit-pending", "eos-pending",
               "empty-pieces", "prefix-stops", "invalid", "random"]


def seq_json(q, prompt, keep):
    toks = [hx(p_) for p_ in q["pieces"]]
    if q["eos"] is not None:
        toks = toks[:q["eos"]] + ["EOS"] + toks[q["eos"]:]
    return {"prompt": prompt, "toks": toks, "stops": [hx(s_) for s_ in q["stops"]], "limit": q["limit"], "keep": keep}


def run_case(rng, seqs, klass, mode=None):
    """wrap sequences into a harness case with a random server configuration"""
    mode = mode or ("http" if rng.random() < 0.12 else "step")
    cache = rng.choice(["none", "none", "stub", "stub", "stub-nopartial"])
    if cache == "none":
        parallel, batch, ctxn = 1, 64, 256
    else:
        parallel = 2 if len(seqs) > 1 else rng.choice([1, 1, 2])
        batch = rng.choice([1, 2, 3, 64])
        # small contexts force context shifts (and, with stub-nopartial, reprocessing) in the middle of a generation.
        # Only for sequences without stops: after a shift the stop branch's cache trimming
        # (seq.cache.Inputs[:tokenLen]) panics when the pending pieces outnumber the cached inputs, which needs a
        # stop spanning more tokens than about numCtx/2 - a cache matter (C07), not part of C14's quantifier.
        if any(q["stops"] for q in seqs):
            ctxn = max(2 * max(len(q["pieces"]) for q in seqs) + 8, rng.choice([16, 256]))
        else:
            ctxn = rng.choice([4, 5, 6, 8, 12, 256])
    js = []
    for q in seqs:
        if mode == "http" or len(seqs) > 1:
            # the real run loop panics when the script is exhausted and a batch aborts for every sequence: always end
            if q["eos"] is None:
                q["eos"] = len(q["pieces"])
        js.append(seq_json(q, rng.randint(1, min(4, ctxn - 1)), rng.randint(0, 2)))
    return {"op": "run", "mode": mode, "parallel": parallel, "batch": batch, "ctx": ctxn, "cache": cache, "seqs": js, "klass": klass}


def corpus_runs():
    """minimal cases that matter (each would expose one realistic regression of the loop)"""
    def c(pieces, stops, limit=0, eos=True, klass="corpus"):
        toks = [hx(x) for x in pieces] + (["EOS"] if eos else [])
        return {"op": "run", "mode": "step", "parallel": 1, "batch": 64, "ctx": 256, "cache": "none",
                "seqs": [{"prompt": 2, "toks": toks, "stops": [hx(x) for x in stops], "limit": limit, "keep": 0}], "klass": klass}
    e = "€".encode()
    g = "😀".encode()
    return [
        c([e[:1], e[1:2], e[2:], b"a"], []),                      # 1+1+1: hold-back must look at the whole pending text
        c([g[:1], g[1:2], g[2:3], g[3:], b"!"], []),              # 1+1+1+1
        c([b"x", b"\n", b"\n", b"\n\nHu", b"man", b":", b"y"], [b"\n\nHuman:"]),
        c([b"a", b"b"], [b"ab"], limit=2),                        # stop completes exactly at the limit
        c([b"a", b"b"], [b"ab"], limit=1),                        # limit hit while a stop prefix is pending
        c([b"x", e[:1], e[1:2]], [], limit=3),                    # limit hit inside a character
        c([b"x", e[:2]], []),                                     # EOS inside a character
        c([b"x", b"a"], [b"ab"]),                                 # EOS while a stop prefix is pending
        c([b"", b"a", b"", b"b", b""], [b"ab"]),
        c([b"xa", b"bc", b"d"], [b"abc", b"ab"]),
        c([b"xa", b"bc", b"d"], [b"bc", b"abc"]),
        c([b"a", b"\xff", b"b"], [b"ab"]),                        # invalid byte dropped mid-stream (known finding)
        c([b"a", b"b", b"c"], [], limit=2, eos=False),
        c([b"a", b"b"], [], eos=False),
    ]


def gen_run_cases(ctx):
    rng = ctx.rng
    cases = corpus_runs()
    import glob
    import json
    import os
    for pth in sorted(glob.glob(os.path.join(vlib.VERIF, "corpus", "C14", "*.json"))):
        try:
            c = json.load(open(pth))
            if c.get("op") == "run":
                c["klass"] = "corpus"
                cases.append(c)
        except Exception:
            pass
    n = 100 if ctx.quick() else 900
    for klass in RUN_CLASSES:
        for _ in range(n):
            k = 1 if rng.random() < 0.85 else rng.randint(2, 3)
            cases.append(run_case(rng, [gen_seq(rng, klass) for _ in range(k)], klass))
    # exhaustive small scope: every token list up to length L over a small piece alphabet (incl. EOS), stop "ab" / e-acute
    L = 3 if ctx.quick() else 5
    alpha = ["61", "62", "c3", "a9", "", "EOS"]
    for n_ in range(0, L + 1):
        for t in itertools.product(alpha, repeat=n_):
            for stops, limit in (([b"ab"], 0), ([b"ab", "é".encode()], 2)):
                cases.append({"op": "run", "mode": "step", "parallel": 1, "batch": 64, "ctx": 256, "cache": "stub",
                              "seqs": [{"prompt": 1, "toks": list(t), "stops": [hx(x) for x in stops], "limit": limit, "keep": 0}], "klass": "run-exhaustive"})
    return cases


# ---- the property evaluated on one sequence's observation (independent of the Coq model)

def earliest_stop(b, stops):
    ks = [b.find(s_) for s_ in stops if s_ and b.find(s_) >= 0]
    return min(ks) if ks else None


def expected_end(pieces, eos, stops, limit):
    """when and why generation has to end, from the property text: E = number of tokens sampled when it ends,
    cause in stop|eos|limit|None (script ran out first)"""
    cands = []
    acc = b""
    npieces = len(pieces) if eos is None else eos
    for j in range(npieces):
        acc += pieces[j]
        if earliest_stop(acc, stops) is not None:
            cands.append((j + 1, 0, "stop"))
            break
    if eos is not None:
        cands.append((eos + 1, 1, "eos"))
    if limit > 0:
        cands.append((limit, 2, "limit"))
    cands = [x for x in cands if x[0] <= npieces + (1 if eos is not None else 0)]
    if not cands:
        return None, None
    E, _, cause = min(cands)
    return E, cause


def valid_prefix(b):
    while not is_valid(b):
        b = b[:-1]
    return b


def monitor_seq(c, q, o, top):
    """returns list of (class, message)"""
    toks = q["toks"]
    eos = toks.index("EOS") if "EOS" in toks else None
    pieces = [bytes.fromhex(t) for t in toks if t != "EOS"]
    stops = [bytes.fromhex(s_) for s_ in q["stops"]]
    limit = q["limit"]
    outs = [bytes.fromhex(x) for x in o["outs"]]
    cat = b"".join(outs)
    viol = []
    E, cause = expected_end(pieces, eos, stops, limit)
    ntext = len(pieces) if eos is None else eos
    G = b"".join(pieces[:min(E, ntext)]) if E is not None else b"".join(pieces[:ntext])
    # "the generated text is valid UTF-8": valid, possibly cut inside its last character by the limit / EOS / script end
    gvalid = is_valid_prefix_of_text(G)

    def v(klass, msg):
        if not gvalid and klass in ("not-prefix", "wrong-end", "output-contains-stop"):
            klass = "invalid-utf8-dropped"
        viol.append((klass, msg))
    if not G.startswith(cat):
        v("not-prefix", "streamed text %r is not a prefix of the generated text %r" % (cat, G))
    k = earliest_stop(G, stops)
    if earliest_stop(cat, stops) is not None:
        v("output-contains-stop", "streamed text %r contains a stop sequence of %r" % (cat, stops))
    if E is not None:
        if not o["closed"]:
            v("not-finished", "generation had to end after %d tokens (%s) but the stream was not closed" % (E, cause))
        else:
            want = G[:k] if cause == "stop" else G
            # a character cut by the stop / limit / EOS cannot be streamed (it would split a character)
            if cat != valid_prefix(want):
                v("wrong-end", "generation ended by %s after %d tokens: streamed %r, the property requires %r (generated %r, stops %r)" % (cause, E, cat, valid_prefix(want), G, stops))
            wantr = "length" if cause == "limit" else "stop"
            if o["reason"] != wantr:
                v("wrong-reason", "generation ended by %s but the reported reason is %r" % (cause, o["reason"]))
            if o["npred"] != E:
                v("wrong-count", "generation ended by %s after %d sampled tokens but %d are reported" % (cause, E, o["npred"]))
    elif o["closed"]:
        v("finished-early", "stream closed (reason %r) although no stop, EOS or limit was reached in %r" % (o["reason"], G))
    if gvalid:
        for x in outs:
            if not is_valid(x):
                v("piece-splits-character", "streamed piece %r is not whole UTF-8 (generated text %r is valid)" % (x, G))
            if earliest_stop(x, stops) is not None:
                v("piece-contains-stop", "streamed piece %r contains a stop sequence" % x)
    return viol


def is_valid_prefix_of_text(b):
    """valid UTF-8 possibly cut inside its last character (an unfinished or cut-off generation)"""
    import codecs
    try:
        codecs.getincrementaldecoder("utf-8")().decode(b, final=False)
        return True
    except UnicodeDecodeError:
        return False


def render_seq(q, o):
    def bl(h_):
        return cq_bytes(bytes.fromhex(h_))

    def strs(l):
        return cq_list([bl(x) for x in l], "str")
    ts = cq_list(["(true, (@nil N))" if t == "EOS" else "(false, %s)" % bl(t) for t in q["toks"]], "(bool * str)")
    rc = {"stop": 1, "length": 2}.get(o["reason"], 3) if o["closed"] else 0
    items = ["chk_run %s %s %s %s %s" % (strs(q["stops"]), cq_nat(q["limit"]), ts, strs(o["outs"]), cq_N(rc))]
    if o["submit"] == "ok":
        evs = cq_list(["(%s, %s, %s, %s)" % (strs(e["emit"]), strs(e["pend"]), cq_nat(e["npred"]), cq_bool(e["done"])) for e in o["events"]], "ev")
        items.append("chk_trace %s %s %s %s" % (strs(q["stops"]), cq_nat(q["limit"]), ts, evs))
    return items


def run_model_term(q):
    def bl(h_):
        return cq_bytes(bytes.fromhex(h_))
    ts = cq_list(["(true, (@nil N))" if t == "EOS" else "(false, %s)" % bl(t) for t in q["toks"]], "(bool * str)")
    st = cq_list([bl(x) for x in q["stops"]], "str")
    return "let s := settle %s (run %s %s (map mk_tok %s)) in (out s, pending s, npred s, fin s)" % (cq_nat(q["limit"]), st, cq_nat(q["limit"]), ts)


def shrink_run(ctx, binp, c, si, klass):
    """smallest token list (then fewer stops) of sequence si on which the monitor still reports klass"""
    import copy

    def fails_with(toks, stops):
        c2 = copy.deepcopy(c)
        c2["seqs"] = [dict(c["seqs"][si], toks=list(toks), stops=list(stops))]
        if c2["mode"] == "http" and "EOS" not in toks:
            return False
        obs, _ = ctx.run_jsonl(binp, [c2], timeout=60)
        if not obs or "seqs" not in obs[0] or not obs[0]["seqs"]:
            return False
        return any(k_ == klass for k_, _ in monitor_seq(c2, c2["seqs"][0], obs[0]["seqs"][0], obs[0]))
    q = c["seqs"][si]
    toks, stops = list(q["toks"]), list(q["stops"])
    if not fails_with(toks, stops):
        return None
    toks = vlib.ddmin(toks, lambda t: fails_with(t, stops), max_tests=60)
    if len(stops) > 1:
        stops = vlib.ddmin(stops, lambda s_: fails_with(toks, s_), max_tests=20)
    c2 = copy.deepcopy(c)
    c2["seqs"] = [dict(q, toks=toks, stops=stops)]
    return c2


def run_stage(ctx, cases=None):
    binp = ctx.go_build("c14run")
    if not binp:
        return
    cases = cases if cases is not None else gen_run_cases(ctx)
    obs, err = ctx.run_jsonl(binp, cases)
    if obs is None or len(obs) != len(cases):
        ctx.obligation("harness c14run answered every case", False, err)
        ctx.proof_failures.append({"obligation": "correspondence: harness c14run did not answer every case", "detail": err})
        return
    items, owners = [], []
    shrunk = set()
    for c, o in zip(cases, obs):
        canon = {k: v for k, v in c.items() if k != "klass"}
        bad = o.get("panic") or o.get("hang") or o.get("err") or (o.get("steps", 0) >= 1000000)
        if bad or "seqs" not in o or len(o["seqs"]) != len(c["seqs"]):
            ctx.note_case(canon, True, c["klass"])
            ctx.violation({"op": "run", "class": "crash"}, "the runner loop crashed/hung/failed on a scripted generation: %s" % {k: o.get(k) for k in ("panic", "hang", "err")},
                          {"case": c, "impl": o})
            continue
        nontriv = False
        for si, (q, so) in enumerate(zip(c["seqs"], o["seqs"])):
            if so["submit"] not in ("ok", "http") or (c["mode"] == "http" and so.get("status") != 200):
                ctx.violation({"op": "run", "class": "submit-failed"}, "sequence could not be submitted: %s %s" % (so["submit"], so.get("body")), {"case": c, "impl": o})
                continue
            nontriv = nontriv or len(so["outs"]) > 0 and (len(q["stops"]) > 0 or any(len(t) > 2 and t != "EOS" for t in q["toks"]))
            for klass, msg in monitor_seq(c, q, so, o):
                rep = {"case": c, "sequence": si, "impl": o, "replay_cmd": "echo '<case json>' | build/bin/c14run"}
                if klass not in shrunk and len(shrunk) < 6 and not vlib.match_known(ctx.known, {"op": "run", "class": klass}):
                    shrunk.add(klass)
                    m = shrink_run(ctx, binp, c, si, klass)
                    if m:
                        rep["minimal_case"] = m
                ctx.violation({"op": "run", "class": klass}, msg, rep)
            for it in render_seq(q, so):
                items.append(it)
                owners.append((c, si, o))
        ctx.note_case(canon, nontriv, c["klass"], sample={"case": c, "impl": o})
    badi, log = ctx.coq_eval(HEADER, items, per_file=120, name="runs")
    if badi is None:
        ctx.obligation("correspondence (runs): model evaluated on all cases", False, log)
        ctx.proof_failures.append({"obligation": "correspondence evaluation (runs) failed in coqc", "detail": log})
        return
    ctx.disagreements_checked += len(items)
    ctx.obligation("correspondence: model run/settle/trace = real processBatch loop on %d observations (%d scripted generations)" % (len(items), len(cases)), not badi)
    for i in badi[:20]:
        c, si, o = owners[i]
        ctx.mismatch("Runner/StopCorr.%s" % items[i].split()[0], {"case": c, "sequence": si}, o["seqs"][si],
                     ctx.coq_print(HEADER, run_model_term(c["seqs"][si])) if len(ctx.mismatches) < 3 else None)


def twin_check(ctx):
    """llamarunner cannot be executed without a llama.cpp model: its streaming logic is tied to the model through
    ollamarunner's, by requiring that the statements that make it up are the same in both source files (extracted
    from the current tree by harness/cmd/twin with go/ast).  A difference is a correspondence break."""
    import json as _json
    import subprocess
    tw = ctx.go_build("twin")
    if not tw:
        return
    p = subprocess.run([tw, vlib.REPO], capture_output=True, text=True, timeout=120)
    try:
        o = _json.loads(p.stdout)
    except Exception:
        ctx.obligation("twin extraction of the runners' streaming logic", False, p.stdout + p.stderr)
        ctx.proof_failures.append({"obligation": "twin extraction failed", "detail": (p.stdout + p.stderr)[-2000:]})
        return
    a, b = o["ollamarunner"], o["llamarunner"]
    need = ["tail", "flush", "remove", "limit_cond", "limit_body", "eos_body", "inc_count"]
    diffs = [k for k in need if not a.get(k) or a.get(k) != b.get(k)]
    if not (a.get("order_ok") and b.get("order_ok")):
        diffs.append("order(limit check < numPredicted++ < EOS test < append)")
    ctx.obligation("llamarunner streaming statements identical to ollamarunner's (%d sections)" % len(need), not diffs, str(diffs))
    ctx.extra["twin_sections"] = need
    if diffs:
        ctx.mismatch("twin: runner/llamarunner streaming logic no longer matches runner/ollamarunner (sections %s); llamarunner cannot be "
                     "executed here, so no failing input can be produced for it" % diffs,
                     {"sections": diffs}, {k: b.get(k) for k in diffs}, {k: a.get(k) for k in diffs})


def model_term(c):
    def bl(h):
        return cq_bytes(bytes.fromhex(h))

    def strs(l):
        return cq_list([bl(x) for x in l], "str")
    op = c["op"]
    if op == "find_stop":
        return "find_stop %s %s" % (bl(c["seq"]), strs(c["stops"]))
    if op == "suffix":
        return "contains_stop_suffix %s %s" % (bl(c["seq"]), strs(c["stops"]))
    if op == "truncate":
        return "truncate_stop %s %s" % (strs(c["pieces"]), bl(c["stop"]))
    if op == "incomplete":
        return "incomplete_unicode %s" % bl(c["s"])
    if op == "valid":
        return "utf8_valid %s" % bl(c["s"])
    return "trim_valid %s" % cq_bytes(b"".join(bytes.fromhex(p) for p in c["pieces"]))


def replay(ctx, path):
    import json
    r = json.load(open(path))
    ctx.log("replaying", path)
    rp = r.get("replay") or {}
    cases = [c for c in (rp.get("minimal_case"), rp.get("case")) if isinstance(c, dict) and c.get("op") == "run"]
    for d in r.get("disagreements", []):
        c = (d.get("case") or {}).get("case")
        if isinstance(c, dict) and c.get("op") == "run":
            cases.append(c)
    if cases:
        # a scripted generation: run exactly these cases through the real loop, the monitor and the model
        for c in cases:
            c.setdefault("klass", "replay")
        ctx.proof_stage(["Runner"], "Runner/Properties_C14.v", extra_targets=["Runner/StopCorr.v"])
        run_stage(ctx, cases)
        return
    run(ctx)


MANIFEST = {
    "property_id": "C14",
    "quick_cmd": "python3 check.py C14 --tier quick",
    "thorough_cmd": "python3 check.py C14 --tier thorough",
    "evidence_file": "evidence/C14.json",
    "replay_cmd_template": "python3 check.py C14 --replay {path}",
    "engine": "coq-model+go-differential",
    "level_claimed": {
        "category": "proof",
        "text": "Coq theorems over the streaming state machine of processBatch (any token list incl. EOS, any stop set, any limit): when the generated text is "
                "(a prefix of) valid UTF-8 the streamed text is a prefix of it, never contains a stop, every streamed piece is whole UTF-8 and stop-free, a running "
                "sequence has generated no stop yet, a finished one streamed exactly the text up to EOS/limit or up to the EARLIEST stop (less a character cut at the "
                "end), and the reason is length iff the limit check ended it; without the valid-text hypothesis prefix/stop-freeness are refuted (known finding "
                "C14-invalid-utf8-dropped).  The hand-written model is tied to the code on every run: (P) runner/common/stop.go helpers, utf8.ValidString and "
                "flushPending on random + exhaustive short byte strings; (S) whole scripted generations through the REAL ollamarunner Server.processBatch / "
                "NewSequence / removeSequence / completion handler (scripted model+TextProcessor behind an overlay shim) compared batch by batch with the model's "
                "run/settle/trace inside Coq (vm_compute); the property itself is monitored in Python on every observation; (T) llamarunner, which cannot run "
                "without llama.cpp, is required to consist of the same statements as ollamarunner (go/ast twin check).",
        "design_ref": "DESIGN.md section 5, C14",
    },
    "level_note": "Trusted: Coq kernel/vm_compute; the model-to-code tie is differential testing (generator-bounded) through a scripted fake model/backend; llamarunner is "
                  "tied syntactically only; theorems assume non-empty stop strings and, for prefix/stop-freeness/exactness, valid UTF-8 generated text.",
    "technique": "Coq proof (invariant by induction over the token list) + model/implementation differential check",
}
