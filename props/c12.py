"""C12 - a crash at any point leaves a store in which every resolvable model is intact.

Tie (S with crash points): for a store built by a random history (real handlers) the operation under test (pull /
create (+ its blob upload) / copy / delete) is executed by the REAL code in a child process under `strace -f`; the log
of its mutating file-system calls is replayed call by call onto a copy of the store, which yields the directory a
SIGKILL before the (k+1)-th call leaves, for every k (self-check: the full replay equals the directory the traced run
left; a sample of k is cross-checked with a real kill: strace -e inject=...:signal=SIGKILL).  For every distinct crash
directory the REAL start-up sequence (server.Serve in a child) is run, then the operation is repeated by the real
code.  Projections of all three stages are compared with the Coq model (effects prefixes / recover / re-run), and the
property itself is evaluated on them (monitor).
"""
import concurrent.futures
import json
import os
import re
import shutil
import subprocess

from lib import vlib
from lib.vlib import cq_list
from props import c04
from props.c04 import (norm2, P2_THRESHOLD, P2_LICENSE, chunk_layout, cache_key, gen_pull2, is_pull2, p2_tables, cq_st2, cq_served2,
                       Ids, cq_store, op_to_coq, act_to_coq, res_class, check_complete, parse_name, fold, sha, EMPTY_STATE)

SETUP_BUILDS = [{"name": "c04"}]
COQ_TARGETS = ["Store/Properties_C12.v", "Store/Corr.v", "Store/Pull2.v", "Store/ProofsPull2.v"]
HEADER = c04.HEADER.replace("Store.Pull2.", "Store.Pull2 Store.ProofsPull2.")
assert "Store.ProofsPull2" in HEADER

TRACE_SET = ("%file,write,pwrite64,writev,pwritev,pwritev2,ftruncate,fallocate,copy_file_range,sendfile,splice,"
             "fchmod,fchown,fsetxattr,fremovexattr")
MUTATING_OPEN = re.compile(r"O_CREAT|O_TRUNC")
# calls with a path argument that do not change what the projection shows (reads, metadata)
HARMLESS = {"stat", "lstat", "newfstatat", "fstatat64", "statx", "access", "faccessat", "faccessat2", "readlink", "readlinkat",
            "getcwd", "chdir", "execve", "execveat", "statfs", "getxattr", "lgetxattr", "listxattr", "llistxattr",
            "utimensat", "utime", "utimes", "futimesat", "chown", "lchown", "fchownat", "fchown", "inotify_add_watch",
            "fsetxattr", "fremovexattr", "setxattr", "lsetxattr", "removexattr", "lremovexattr", "name_to_handle_at"}


class UnknownCall(Exception):
    """a traced call that may change the store and that the replayer has no rule for"""


# ----------------------------------------------------------------------------------------------- strace log

def unhex(s):
    return bytes.fromhex(s.replace("\\x", ""))


QS = re.compile(r'"((?:\\x[0-9a-f]{2})*)"')
ANN = re.compile(r'<((?:\\x[0-9a-f]{2})*)>')


def parse_trace(path, root):
    """-> list of mutating calls (dicts) on paths under root, in completion order, between the begin/end markers.
    A call on the store that is neither known to be harmless nor has a replay rule becomes {"call": "unknown", ...}."""
    calls, pending, on = [], {}, False
    rootb = root.encode()
    for raw in open(path, errors="replace"):
        m = re.match(r"^(\d+)\s+(.*)$", raw.rstrip("\n"))
        if not m:
            continue
        pid, rest = m.group(1), m.group(2)
        if rest.endswith("<unfinished ...>"):
            pending[pid] = rest[:-len("<unfinished ...>")]
            continue
        r = re.match(r"^<\.\.\. \w+ resumed>(.*)$", rest)
        if r:
            rest = pending.pop(pid, "") + r.group(1)
        m = re.match(r"^(\w+)\((.*)\)\s*=\s*(-?\d+|\?)", rest)
        if not m:
            continue
        name, args, ret = m.group(1), m.group(2), m.group(3)
        strs = [unhex(x) for x in QS.findall(args)]
        if name == "mkdirat" and strs and strs[0].startswith(b"/nonexistent-c04-marker/"):
            on = strs[0].endswith(b"begin")
            continue
        if not on or ret == "?" or int(ret) < 0:
            continue
        anns = [unhex(x).split(b" (deleted)")[0] for x in ANN.findall(args)]

        def under(p):
            return p.startswith(rootb + b"/")
        touched = [p for p in strs + anns if under(p)]
        if not touched or name in HARMLESS:
            continue
        c = None
        if name in ("openat", "open", "creat", "openat2"):
            if not (name == "creat" or MUTATING_OPEN.search(args)):
                continue
            if strs and under(strs[0]):
                c = {"call": "open", "path": strs[0], "trunc": "O_TRUNC" in args or name == "creat", "excl": "O_EXCL" in args}
        elif name == "write":
            if anns and under(anns[0]) and strs:
                c = {"call": "write", "path": anns[0], "data": strs[0][:int(ret)], "n": int(ret)}
        elif name in ("writev", "pwritev", "pwritev2"):
            if anns and under(anns[0]):
                data = b"".join(strs)[:int(ret)]
                c = {"call": "write", "path": anns[0], "data": data}
                if name != "writev":
                    c = {"call": "pwrite", "path": anns[0], "data": data, "off": int(re.findall(r",\s*(\d+)", args)[-1 if name == "pwritev" else -2])}
        elif name == "pwrite64":
            if anns and under(anns[0]) and strs:
                off = int(args.rsplit(",", 1)[1])
                c = {"call": "pwrite", "path": anns[0], "data": strs[0][:int(ret)], "off": off, "n": int(ret)}
        elif name in ("ftruncate", "truncate"):
            p = anns[0] if name == "ftruncate" and anns else (strs[0] if strs else None)
            if p and under(p):
                c = {"call": "truncate", "path": p, "len": int(args.rsplit(",", 1)[1])}
        elif name == "fallocate":
            # fallocate(fd, mode, offset, len): mode 0 may extend the file
            f = [x.strip() for x in args.rsplit(">", 1)[1].split(",")[1:]]
            if anns and under(anns[0]) and len(f) == 3:
                c = {"call": "extend", "path": anns[0], "len": int(f[1]) + int(f[2])} if f[0] == "0" else None
                if c is None:
                    continue
        elif name in ("rename", "renameat", "renameat2"):
            if len(strs) >= 2 and under(strs[0]) and under(strs[1]):
                c = {"call": "rename", "path": strs[0], "to": strs[1], "exchange": "RENAME_EXCHANGE" in args, "noreplace": "RENAME_NOREPLACE" in args}
        elif name in ("unlink", "unlinkat", "rmdir"):
            if strs and under(strs[0]):
                c = {"call": "rmdir" if (name == "rmdir" or "AT_REMOVEDIR" in args) else "unlink", "path": strs[0]}
        elif name in ("mkdir", "mkdirat"):
            if strs and under(strs[0]):
                c = {"call": "mkdir", "path": strs[0]}
        elif name in ("copy_file_range", "sendfile"):
            # copy_file_range(in, off_in, out, ...), sendfile(out, in, ...)
            if len(anns) >= 2:
                src, dst = (anns[0], anns[1]) if name == "copy_file_range" else (anns[1], anns[0])
                if under(dst):
                    c = {"call": "copy", "path": dst, "src": src, "n": int(ret)}
                else:
                    continue
        elif name in ("link", "linkat"):
            if len(strs) >= 2 and under(strs[1]):
                c = {"call": "link", "path": strs[1], "src": strs[0]}
        elif name in ("symlink", "symlinkat"):
            if len(strs) >= 2 and under(strs[1]):
                c = {"call": "symlink", "path": strs[1], "target": strs[0]}
        elif name in ("chmod", "fchmodat", "fchmod"):
            p = strs[0] if strs else (anns[0] if anns else None)
            mm = re.search(r"\b(0[0-7]{3,4})\b", args.rsplit(">", 1)[-1] if name == "fchmod" else args.rsplit('"', 1)[-1])
            if p and under(p) and mm:
                c = {"call": "chmod", "path": p, "mode": int(mm.group(1), 8)}
        if c is None:
            c = {"call": "unknown", "name": name, "line": "%s(%s) = %s" % (name, re.sub(QS, lambda q: repr(unhex(q.group(1))[:80]), args)[:300], ret),
                 "path": touched[0]}
        calls.append(c)
    return calls


KILL_SET = "openat,renameat,renameat2,unlinkat,mkdirat,write,pwrite64,ftruncate,copy_file_range,linkat,symlinkat"


def kill_window(path):
    """(first, last) invocation numbers, within the thread that issues most of the operation's calls, of the calls in
    KILL_SET made between the begin/end markers: strace's inject counter is per thread"""
    kset = set(KILL_SET.split(","))
    per, on, inside = {}, False, {}
    for raw in open(path, errors="replace"):
        m = re.match(r"^(\d+)\s+(?:<\.\.\. )?(\w+)", raw)
        if not m:
            continue
        pid, name = m.group(1), m.group(2)
        if "resumed>" in raw[:40]:
            continue
        if name not in kset:
            continue
        per[pid] = per.get(pid, 0) + 1
        if "6e6f6e6578697374656e742d6330342d6d61726b6572" in raw.replace("\\x", ""):
            on = "626567696e" in raw.replace("\\x", "")
            continue
        if on:
            inside.setdefault(pid, []).append(per[pid])
    if not inside:
        return 1, 1
    best = max(inside.values(), key=len)
    return best[0], best[-1]


class Replayer:
    """applies traced calls to a copy of the store"""

    def __init__(self, traced_root, root):
        self.a, self.b = traced_root.encode(), root.encode()
        self.off = {}

    def full(self, c):
        """the bytes of a write; a body strace printed only the head of is completed with zeros (big cases: all-zero bodies)"""
        d = c["data"]
        n = c.get("n", len(d))
        if len(d) < n:
            if not self.zero_fill or d.strip(b"\0"):
                raise ValueError("trace holds %d of %d written bytes" % (len(d), n))
            d = d + b"\0" * (n - len(d))
        return d

    zero_fill = False

    def p(self, path):
        path = path.split(b" (deleted)")[0]
        return self.b + path[len(self.a):] if path.startswith(self.a + b"/") or path == self.a else path

    def apply(self, c):
        k = c["call"]
        p = self.p(c["path"])
        if k in ("open", "write", "copy"):
            # one file, one offset: strace shows the path as the program spelled it in open() and resolved in the fd annotation
            # of write(); with a linked blobs/ or manifests/ directory the two differ
            p = os.path.realpath(p)
            if "src" in c:
                c = dict(c, src=os.path.realpath(self.p(c["src"])))
        if k == "open":
            flags = os.O_WRONLY | os.O_CREAT | (os.O_TRUNC if c["trunc"] else 0) | (os.O_EXCL if c["excl"] else 0)
            os.close(os.open(p, flags, 0o644))
            self.off[p] = 0
            self.off[(p, "in")] = 0
        elif k == "write":
            o = self.off.get(p, 0)
            data = self.full(c)
            with open(p, "r+b") as f:
                f.seek(o)
                f.write(data)
            self.off[p] = o + len(data)
        elif k == "pwrite":
            with open(p, "r+b") as f:
                f.seek(c["off"])
                f.write(self.full(c))
        elif k == "truncate":
            os.truncate(p, c["len"])
        elif k == "extend":
            if os.path.getsize(p) < c["len"]:
                os.truncate(p, c["len"])
        elif k == "rename":
            q = self.p(c["to"])
            if c.get("exchange"):
                t = q + b".c12-exchange"
                os.rename(q, t)
                os.rename(p, q)
                os.rename(t, p)
            else:
                if c.get("noreplace") and os.path.lexists(q):
                    raise ValueError("replay: RENAME_NOREPLACE onto an existing file %r" % q)
                os.rename(p, q)
            self.off.pop(p, None)
        elif k == "unlink":
            os.unlink(p)
            self.off.pop(p, None)
        elif k == "rmdir":
            os.rmdir(p)
        elif k == "mkdir":
            os.mkdir(p)
        elif k == "link":
            os.link(self.p(c["src"]), p)
        elif k == "symlink":
            os.symlink(self.p(c["target"]), p)
        elif k == "chmod":
            os.chmod(p, c["mode"])
        elif k == "copy":
            s = c["src"] if isinstance(c["src"], bytes) and c["src"].startswith(self.b) else self.p(c["src"])
            io_ = self.off.get((s, "in"), 0)
            data = open(s, "rb").read()[io_:io_ + c["n"]]
            o = self.off.get(p, 0)
            with open(p, "r+b") as f:
                f.seek(o)
                f.write(data)
            self.off[p] = o + len(data)
            self.off[(s, "in")] = io_ + len(data)
        elif k == "unknown":
            raise UnknownCall(c["line"])
        else:
            raise ValueError("traced call the replayer does not know: %r" % (c,))


def copy_tree(src, dst):
    """copy a store keeping hard links and symbolic links as they are (shutil.copytree would split shared inodes)"""
    r = subprocess.run(["cp", "-a", "--sparse=always", src, dst], capture_output=True, text=True)
    if r.returncode != 0:
        raise RuntimeError("cp -a failed: " + r.stderr[-300:])


# ----------------------------------------------------------------------------------------------- running things

def proj(binp, d):
    p = subprocess.run([binp, "proj", d], capture_output=True, text=True, timeout=120)
    for line in p.stdout.split("\n"):
        if line.startswith("{"):
            return json.loads(line)
    raise RuntimeError("projection failed: " + p.stderr[-500:])


def proj_state(binp, d):
    return norm2(proj(binp, d)["state"])


def run_ops_on(ctx, binp, d, ops, noapi=True):
    obs, err = ctx.run_jsonl(binp, [{"ops": c04.strip(ops), "dir": d, "noapi": noapi}], timeout=300)
    if not obs or len(obs[0]["obs"]) != len(ops):
        raise RuntimeError("harness failed on %r: %s" % ([o["op"] for o in ops], err[-800:]))
    for o in obs[0]["obs"]:
        o["state"] = norm2(o["state"])
    return obs[0]["obs"]


def serve(binp, d, noprune=False):
    env = dict(vlib.goenv(), OLLAMA_MODELS=d)
    if noprune:
        env["OLLAMA_NOPRUNE"] = "1"
    p = subprocess.run([binp, "serve", d], capture_output=True, text=True, timeout=120, env=env)
    return p.returncode, (p.stdout + p.stderr)[-400:]


# ----------------------------------------------------------------------------------------------- one crash case

class Case:
    pass


def involved(group):
    out = set()
    for o in group:
        out |= c04.op_target(o)
    return out


def referenced_names(st, only_paths=None):
    ref = set()
    for m in st["manifests"]:
        if not m["readable"] or (only_paths is not None and m["path"] not in only_paths):
            continue
        for l in m["layers"] + [m["config"]]:
            mm = re.match(r"^sha256[:-]([0-9a-fA-F]{64})$", l["digest"])
            if mm:
                ref.add("sha256-" + mm.group(1))
    return ref


def run_case(ctx, binp, fx, pre, group, tag, kill_sample=0, rng=None, big=False, followups=None):
    """returns a Case with everything the monitor and the correspondence need (or raises)"""
    c = Case()
    c.pre, c.group, c.tag = pre, group, tag
    c.followups = followups or []
    wd = os.path.join(ctx.tmp, "case-" + tag)
    os.makedirs(wd)
    base = os.path.join(wd, "base")
    os.makedirs(base)
    c.pre_obs = run_ops_on(ctx, binp, base, pre) if pre else []
    c.base_state = proj_state(binp, base)
    # uninterrupted run (reference, and oracle inputs)
    ref = os.path.join(wd, "ref")
    copy_tree(base, ref)
    c.ref_obs = run_ops_on(ctx, binp, ref, group)
    c.ref_state = c.ref_obs[-1]["state"]
    # traced run
    tr = os.path.join(wd, "traced")
    copy_tree(base, tr)
    opf = os.path.join(wd, "op.json")
    json.dump({"ops": c04.strip(group)}, open(opf, "w"))
    log = os.path.join(wd, "trace.log")
    c.big = big
    p = subprocess.run(["strace", "-f", "-y", "-xx", "-s", "4096" if big else "4000000", "-o", log, "-e", "trace=" + TRACE_SET, binp, "op", tr, opf],
                       capture_output=True, text=True, timeout=300, env=vlib.goenv())
    if p.returncode != 0:
        raise RuntimeError("traced run failed rc=%d %s" % (p.returncode, p.stderr[-500:]))
    calls = parse_trace(log, tr)
    c.ncalls = len(calls)
    unknown = [x for x in calls if x["call"] == "unknown"]
    if unknown:
        raise UnknownCall("; ".join(sorted({x["line"] for x in unknown}))[:600])
    traced_final = proj_state(binp, tr)
    # replay the prefixes
    rp = os.path.join(wd, "replay")
    copy_tree(base, rp)
    R = Replayer(tr, rp)
    R.zero_fill = big
    c.states = [c.base_state]
    c.snaps = [base]
    nbody = 0
    for j, call in enumerate(calls):
        R.apply(call)
        if big and call["call"] in ("pwrite", "write") and call["path"].endswith(b"-partial") and j + 1 < len(calls) \
                and calls[j + 1]["call"] in ("pwrite", "write") and calls[j + 1]["path"] == call["path"]:
            # a 100 MB body arrives in thousands of writes: crash points inside a run of body writes are sampled
            nbody += 1
            if nbody % 700:
                continue
        st = proj_state(binp, rp)
        if st != c.states[-1]:
            sn = os.path.join(wd, "snap-%d" % (j + 1))
            copy_tree(rp, sn)
            c.states.append(st)
            c.snaps.append(sn)
    c.replay_faithful = (proj_state(binp, rp) == traced_final)
    c.traced_equals_ref = strip_temp(traced_final) == strip_temp(c.ref_state)
    # real kills for a sample of k (strace counts per thread, so k only picks *some* point of the run): whatever the
    # point, the directory a real SIGKILL leaves must be one of the replayed prefix states
    c.kills = []
    lo, hi = kill_window(log)
    for _ in range(kill_sample):
        k = rng.randint(lo, max(lo, hi))
        kd = os.path.join(wd, "kill-%d" % k)
        if os.path.exists(kd):
            continue
        copy_tree(base, kd)
        subprocess.run(["strace", "-f", "-o", "/dev/null", "-e", "inject=%s:signal=SIGKILL:when=%d" % (KILL_SET, k),
                        binp, "op", kd, opf], capture_output=True, text=True, timeout=300, env=vlib.goenv())
        st = proj_state(binp, kd)
        c.kills.append((k, any(norm_temp(st) == norm_temp(x) for x in c.states), st != c.base_state and norm_temp(st) != norm_temp(c.states[-1])))
        shutil.rmtree(kd, ignore_errors=True)
    return c


def recover_and_redo(ctx, binp, c, i, mode="prune"):
    """the real start-up on crash state i (mode "noprune": with OLLAMA_NOPRUNE=1), then the operation again"""
    sn = c.snaps[i]
    rd = sn + "-rec%d%s" % (i, mode)
    copy_tree(sn, rd)
    rc, out = serve(binp, rd, noprune=(mode == "noprune"))
    rst = proj_state(binp, rd)
    obs = run_ops_on(ctx, binp, rd, c.group + c.followups, noapi=getattr(c, "big", False))   # (showing a 100 MB license layer 24 times in parallel is too much)
    shutil.rmtree(rd, ignore_errors=True)
    return {"rc": rc, "out": out, "state": rst, "mode": mode}, obs


def part_record_state(st):
    """the download state a restart left: "torn" (a part record that cannot be read), "inconsistent" (readable records that do
    not add up to the size of the -partial file, or no -partial file), "consistent", "none" """
    recs, partial = {}, {}
    for b in st["blobs"]:
        m = re.match(r"^(sha256-[0-9a-f]{64})-partial(-\d+)?$", b["name"])
        if m and m.group(2):
            recs.setdefault(m.group(1), []).append(b)
        elif m:
            partial[m.group(1)] = b["size"]
    if not recs:
        return "none"
    if any(r.get("part") == "torn" for rs_ in recs.values() for r in rs_):
        return "torn"
    for d, rs_ in recs.items():
        if d not in partial or sum(r.get("part_size", 0) for r in rs_) != partial[d]:
            return "inconsistent"
    return "consistent"


def norm_temp(st):
    """manifests and blobs, with the random names of NewLayer's temp files made anonymous (they differ from run to run)"""
    blobs = []
    for b in st["blobs"]:
        if re.match(r"^sha256-\d+$", b["name"]):
            b = dict(b, name="sha256-<temp>")
        blobs.append(b)
    return {"manifests": st["manifests"], "blobs": sorted(blobs, key=lambda b: (b["name"], b["size"]))}


def strip_temp(st):
    return {"manifests": st["manifests"], "blobs": st["blobs"]}


# ----------------------------------------------------------------------------------------------- monitor

def monitor_case(c):
    """the property on the real store: list of (sig, what, detail)"""
    out = []
    inv = involved(c.group)
    kinds = "+".join(o["op"] for o in c.group)
    base_m = {m["path"]: m for m in c.base_state["manifests"]}
    others = {p for p in base_m if fold(tuple(p.split("/"))) not in inv}
    keep_blobs = referenced_names(c.base_state, others)
    bb = {b["name"]: b for b in c.base_state["blobs"]}
    for j, (i, rec, redo) in enumerate(zip(c.rec_state, c.recovered, c.redone)):
        st = c.states[i]
        rst = rec["state"]
        mode = rec["mode"]
        if rec["rc"] != 0:
            out.append(({"class": "startup-failed", "op": kinds}, "start-up after a crash in %s failed: %s" % (kinds, rec["out"]), i))
        for e in rst["manifests"] + rst["blobs"]:
            if e.get("linked") or e.get("symlink") is not None:
                out.append(({"class": "aliased-files", "op": kinds, "kind": "symlink" if e.get("symlink") is not None else "hardlink"},
                            "after a crash at prefix %d of %s and restart, %s %s: changing one model changes the other" % (
                                i, kinds, e.get("path") or e.get("name"),
                                ("is a symbolic link to %s" % e["symlink"]) if e.get("symlink") is not None else ("shares its inode with %s" % e["linked"])), i))
        have = {(l["path"], bool(l.get("dangling"))) for l in rst.get("links", [])}
        for l in c.base_state.get("links", []):
            if (l["path"], bool(l.get("dangling"))) not in have:
                out.append(({"class": "link-removed", "op": kinds}, "a crash at prefix %d of %s and restart removed or replaced the symbolic link %s" % (i, kinds, l["path"]), i))
        # every name that resolves to a readable manifest has all layers present and intact
        for m in rst["manifests"]:
            if m["readable"]:
                for kind, d in check_complete(rst, m):
                    out.append(({"class": "crash-incomplete", "cause": kind, "op": kinds},
                                "after a crash at prefix %d of %s and restart, %s resolves but layer %s is %s" % (i, kinds, m["path"], d, kind), i))
        # models not involved are unchanged
        rm = {m["path"]: m for m in rst["manifests"]}
        for p in others:
            if rm.get(p) != base_m[p]:
                out.append(({"class": "crash-frame-manifest", "op": kinds}, "crash in %s + restart changed manifest %s of a model not involved" % (kinds, p), i))
        rb = {b["name"]: b for b in rst["blobs"]}
        for nm in keep_blobs:
            if nm in bb and rb.get(nm) != bb[nm]:
                out.append(({"class": "crash-frame-blob", "op": kinds}, "crash in %s + restart removed/altered blob %s of a model not involved" % (kinds, nm), i))
        # repeating the operation succeeds (or reports it already took effect) and gives the uninterrupted result
        # the repeated operation and what the user does next (operations on sibling tags): every step judged by C04's step
        # monitor — every readable manifest complete, models the step is not about untouched
        before_step = rst
        for si, (op_, ob_) in enumerate(zip(c.group + c.followups, redo)):
            for sig_, what_ in c04.monitor_step(op_, before_step, ob_):
                if sig_.get("class") in ("listed-incomplete", "frame-blob", "frame-manifest") and not sig_.get("own_create"):
                    out.append((dict(sig_, stage="redo" if si < len(c.group) else "follow-up", interrupted=kinds, restart=mode),
                                "after a crash at prefix %d of %s, a restart (%s) and %s: %s" % (
                                    i, kinds, mode, "the repeated operation" if si < len(c.group) else "a following %s" % op_["op"], what_), i))
            before_step = ob_["state"]
        last = redo[len(c.group) - 1]
        ok = all(res_class(o, ob) == "ROk" or (o["op"] == "delete" and res_class(o, ob) == "RNotFound") for o, ob in zip(c.group, redo))
        ref_ok = all(res_class(o, ob) == "ROk" for o, ob in zip(c.group, c.ref_obs))
        selfref = any(o["op"] == "create" and o.get("from") and fold(parse_name(o["from"])) == fold(parse_name(o["name"])) for o in c.group)
        torn_paths = [m["path"] for m in st["manifests"] if (not m["readable"]) and base_m.get(m["path"], {"readable": True})["readable"]]
        torn = bool(torn_paths)
        # does the request spell its target as the torn file is spelled?  (C12_idempotent_redo_guarded: then the repetition must
        # restore the uninterrupted result; C12_redo_torn_exact: otherwise it cannot)
        req_names = [parse_name(o["dst"] if o["op"] == "copy" else o["name"]) for o in c.group if o["op"] in ("create", "copy", "pull")]
        # (the new pull path replaces a manifest of other content by remove + create + write: the crash can also leave the name unlinked)
        unlinked_paths = [p for p in base_m if fold(tuple(p.split("/"))) in inv and p not in {m["path"] for m in st["manifests"]}]
        respelled = any(tuple(p.split("/")) not in req_names for p in torn_paths + unlinked_paths)
        client2 = any(is_pull2(o) for o in c.group)
        part_records = part_record_state(rst)
        torn_rec = part_records == "torn"
        if ref_ok and not ok:
            out.append(({"class": "redo-fails", "op": kinds, "self_referential": selfref, "torn_manifest": torn, "part_records": part_records,
                         "restart": mode},
                        "repeating %s after a crash at prefix %d and a restart (%s) fails: %s" % (kinds, i, mode, [(ob.get("code"), ob.get("errors"), ob.get("body", "")[-120:]) for ob in redo]), i))
        elif ref_ok:
            fm = {m["path"]: m for m in last["state"]["manifests"]}
            want = {m["path"]: m for m in c.ref_state["manifests"]}
            if fm != want:
                diff = sorted(set(fm) ^ set(want)) or [p for p in fm if fm[p] != want[p]]
                out.append(({"class": "redo-differs", "op": kinds, "self_referential": selfref, "torn_manifest": torn, "respelled": respelled,
                             "unlinked": bool(unlinked_paths), "client2": client2},
                            "repeating %s after a crash at prefix %d and restart leaves other manifests than the uninterrupted run: %s" % (kinds, i, diff[:3]), i))
            else:
                fb = {b["name"]: b for b in last["state"]["blobs"]}
                wb = {b["name"]: b for b in c.ref_state["blobs"]}
                for nm in referenced_names(c.ref_state):
                    # (a blob the uninterrupted run itself lacks — old-version store not yet restarted — is not compared)
                    if nm in wb and fb.get(nm) != wb.get(nm):
                        out.append(({"class": "redo-differs-blob", "op": kinds}, "after the repeated %s blob %s differs from the uninterrupted run" % (kinds, nm), i))
            for e in (last.get("api") or {}).get("listed") or []:
                if e["show"] != 200 and not any(x["show"] != 200 and x["name"] == e["name"] for x in []):
                    pass
    return out


# ----------------------------------------------------------------------------------------------- correspondence

def render_case(fx, c):
    """-> list of (obligation, coq bool term)"""
    if any(is_pull2(o) for o in c.group):
        return render_case2(fx, c)
    ids = Ids()
    # the store before the operation, as a history evaluated by the model
    before = EMPTY_STATE
    pre_ops = []
    for op, o in zip(c.pre, c.pre_obs):
        for b in o["state"]["blobs"]:
            ids.size.setdefault(ids.h(b["sha"]), b["size"])
        pre_ops.append(act_to_coq(ids, fx, op, before, o["state"]))
        before = o["state"]
    # deleteUnusedLayers of a pull walks a Go map: the order in which blobs disappeared is an input of the model
    removed = []
    for a, b in zip(c.states, c.states[1:]):
        nb = {x["name"] for x in b["blobs"]}
        removed += [x["name"][7:] for x in a["blobs"] if x["name"] not in nb and re.match(r"^sha256-[0-9a-f]{64}$", x["name"])]
    grp = []
    for op, o in zip(c.group, c.ref_obs):
        if op["op"] == "pull":
            op["_ord"] = removed
        for b in o["state"]["blobs"]:
            ids.size.setdefault(ids.h(b["sha"]), b["size"])
        grp.append(op_to_coq(ids, fx, op, before, o["state"]))
        before = o["state"]
    states = [cq_store(ids, st) for st in c.states]
    recs = [cq_store(ids, r["state"]) for r in c.recovered]
    items = []
    items.append(("chk_crash_prefixes", "chk_crash_prefixes_seq %s %s %s %s" % ("TBL", cq_list(pre_ops, "action"), cq_list(grp, "op"), cq_list(states, "store"))))
    for i, rc, rec in zip(c.rec_state, recs, c.recovered):
        if rec["mode"] == "noprune":
            items.append(("chk_recover_noprune", "chk_recover_noprune %s %s" % (states[i], rc)))
        else:
            items.append(("chk_recover", "chk_recover TBL %s %s" % (states[i], rc)))
    for j, (rc, redo, rec) in enumerate(zip(recs, c.redone, c.recovered)):
        # the oracle inputs of the repeated operation are read off the repeated run itself
        before = rec["state"]
        ops2, steps = [], []
        for op, o in zip(c.group + c.followups, redo):
            for b in o["state"]["blobs"]:
                ids.size.setdefault(ids.h(b["sha"]), b["size"])
            steps.append("(MkStep %s %s %s)" % (act_to_coq(ids, fx, op, before, o["state"]), res_class(op, o), cq_store(ids, o["state"])))
            before = o["state"]
        items.append(("chk_redo", "chk_steps (size_tbl TBL) %s %s" % (rc, cq_list(steps, "step"))))
    tbl = ids.tbl()
    return [(ob, t.replace("TBL", tbl)) for ob, t in items]


# ----------------------------------------------------------------------------------------------- the new pull path (client2)

def gen_pull2_case(rng, fx):
    """(pre, group, followups): a store with a model made by the old code (sharing its model layer with what is pulled,
    or not), maybe an earlier pull of the same manifest that failed at some chunk (scratch files and chunk records
    stay), maybe a manifest that cannot be read (start-up then skips pruning); the pull to interrupt; then the user
    works on the result"""
    k = rng.choice(["g0", "g1", "gt"])
    model = fx.data[rng.choice(["g0", "g1", "gt"])]
    bodies = [(0, model), (7, P2_LICENSE + rng.choice([b"A", b"BB"]))]
    if rng.random() < 0.7:
        bodies.append((4, rng.choice(c04.SYSTEMS).encode()))
    cfg = rng.choice(c04.CONFIGS)
    layouts = {sha(b): chunk_layout(rng, b) for _, b in bodies + [(8, cfg)] if len(b) >= P2_THRESHOLD}
    b0 = fx.data[k]
    d0 = "sha256:" + sha(b0)
    old = rng.choice(["example.com/ns/old:t", "old", "example.com/ns/m:t"])
    pre = [{"op": "blob", "digest": d0, "data": b0.hex(), "_fx": k},
           {"op": "create", "name": old, "files": {"model.gguf": d0}, "_fx": k, "system": rng.choice(c04.SYSTEMS)}]
    target = rng.choice(["example.com/ns/m:t", "example.com/ns/m:t", "example.com/NS/M:t", "example.com/ns/m:v2"])
    r = rng.random()
    if r < 0.45:
        # an earlier attempt that failed at one chunk of a chunked layer (or at a small layer fetched in one piece)
        h, b, rs = rng.choice([(sha(b), b, layouts.get(sha(b), [[0, len(b) - 1]])) for _, b in bodies])
        a = rng.choice(rs)[0]
        pre.append(gen_pull2(rng, fx, target, bodies, cfg, layouts, faults={"sha256:%s@%d" % (h, a): rng.choice(["404", "corrupt"])}))
    elif r < 0.6:
        # the same manifest is there already under a sibling tag (every layer cached), pulled by the new code
        pre.append(gen_pull2(rng, fx, "example.com/ns/m:sib", bodies, cfg, layouts))
    if rng.random() < 0.3:
        pre.append({"op": "corrupt", "path": "/".join(parse_name(old))})
    group = [gen_pull2(rng, fx, target, bodies, cfg, layouts)]
    tn = "%s/%s/%s:%s" % parse_name(target)
    follow = []
    r = rng.random()
    if r < 0.4:
        follow.append({"op": "delete", "name": tn})
    elif r < 0.8:
        follow.append({"op": "create", "name": "example.com/ns/derived:t", "from": tn, "system": rng.choice(c04.SYSTEMS)})
    return pre, group, follow


def render_case2(fx, c):
    """a case whose interrupted operation is a pull through the new code: Store/Pull2.v"""
    ids = Ids()
    emp = vlib.cq_N(ids.content(b""))
    tab = p2_tables(c.pre + c.group)
    op = c.group[0]
    for st in c.states + [r["state"] for r in c.recovered] + [o["state"] for rd in c.redone for o in rd]:
        for b in st["blobs"]:
            ids.size.setdefault(ids.h(b["sha"]), b["size"])
    sv = cq_served2(ids, op)
    n = c04.cq_name(parse_name(op["name"]))
    states = [cq_st2(ids, st, tab) for st in c.states]
    items = [("chk_served2 (guard of the theorems)", "chk_served2 TBL %s" % sv),
             ("good_b (the invariant the theorems assume holds in the store the pull starts from)", "good_b (size_tbl TBL) %s %s" % (sv, states[0])),
             ("chk_pull2_crash", "chk_pull2_crash TBL %s %s %s %s %s" % (emp, states[0], n, sv, cq_list(states, "st2")))]
    for i, rec, redo in zip(c.rec_state, c.recovered, c.redone):
        rc = cq_st2(ids, rec["state"], tab)
        items.append(("chk_restart2", "chk_restart2 TBL %s %s %s" % ("true" if rec["mode"] == "noprune" else "false", states[i], rc)))
        items.append(("chk_pull2_run (the repeated pull)", "chk_pull2_run TBL %s %s %s %s %s %s" % (
            emp, rc, n, sv, res_class(op, redo[0]), cq_st2(ids, redo[0]["state"], tab))))
        # what the user does next, by the old handlers: the model of Ops.v from the observed store
        try:
            before = redo[0]["state"]
            steps = []
            for fo, o in zip(c.followups, redo[1:]):
                steps.append("(MkStep %s %s %s)" % (act_to_coq(ids, fx, fo, before, o["state"]), res_class(fo, o), cq_store(ids, o["state"])))
                before = o["state"]
            if steps:
                items.append(("chk_steps (follow-ups)", "chk_steps (size_tbl TBL) %s %s" % (cq_store(ids, redo[0]["state"]), cq_list(steps, "step"))))
        except ValueError:
            pass   # scratch files still there (the repeated pull failed): judged by the monitor only
    tbl = ids.tbl()
    return [(ob, t.replace("TBL", tbl)) for ob, t in items]


# ----------------------------------------------------------------------------------------------- generator

def gen_pre(rng, fx):
    """a store with a few models that share layers: upload, create from files, create FROM it with overrides, copy,
    then a short random tail"""
    k = rng.choice(["g0", "g1", "gt", "g01"])
    b = fx.data[k]
    d = "sha256:" + sha(b)
    n1 = c04.rnd_name(rng, [], 0)
    pre = []
    if rng.random() < 0.35:
        # a layout with symbolic links: the host / namespace / model directory of the first model (or blobs/) is a link to a
        # directory elsewhere; maybe a dangling link next to it
        h1, ns1, m1, _ = parse_name(n1)
        cands = [("dir", h1), ("dir", h1 + "/" + ns1), ("dir", h1 + "/" + ns1 + "/" + m1), ("blobs", ""), ("dangling", h1 + "/ghost-ns")]
        picked = rng.sample(cands, rng.randint(1, 2))
        picked.sort(key=lambda x: x[1].count("/"))
        pre += [{"op": "linkdir", "kind": kd, "path": pth} for kd, pth in picked]
    pre += [{"op": "blob", "digest": d, "data": b.hex(), "_fx": k},
            {"op": "create", "name": n1, "files": {"model.gguf": d}, "_fx": k}]
    if rng.random() < 0.5:
        pre[-1]["system"] = rng.choice(c04.SYSTEMS)
    blobs_linked = any(o["op"] == "linkdir" and o["kind"] == "blobs" for o in pre)
    used = [n1]
    for _ in range(rng.randint(0, 2)):
        n2 = c04.rnd_name(rng, used, 0.2)
        op = {"op": "create", "name": n2, "from": rng.choice(used)}
        for kk, pool in (("system", c04.SYSTEMS), ("template", c04.TEMPLATES), ("parameters", c04.PARAMS)):
            if rng.random() < 0.5:
                op[kk] = rng.choice(pool)
        pre.append(op)
        used.append(n2)
    if rng.random() < 0.5:
        n3 = c04.rnd_name(rng, used, 0.1)
        pre.append({"op": "copy", "src": rng.choice(used), "dst": n3})
        used.append(n3)
    tail = c04.gen_history(rng, fx, rng.randint(0, 3), "mixed")
    pre += [o for o in tail if o["op"] not in ("startup", "delete", "legacy", "linkdir") or (o["op"] not in ("legacy", "linkdir") and rng.random() < 0.3)]
    if rng.random() < 0.25 and not blobs_linked:   # (old-version store behind a linked blobs/: C04's corpus, known finding until fixBlobs is repaired)
        # the crash hits a store an older version left: the restart has to run fixBlobs for real
        pre.append(c04.gen_legacy(rng, fx, [k]))
    elif rng.random() < 0.25:
        # a torn manifest somewhere else in the store: server.Serve then skips pruning, partial downloads survive the restart
        pre.append({"op": "corrupt", "path": "/".join(parse_name(n1))})
    return pre


def recase(rng, name):
    """a letter-case variant of a full name host/ns/model:tag"""
    body, tag = name.rsplit(":", 1)
    parts = [x.swapcase() if rng.random() < 0.4 else x for x in body.split("/")]
    return "/".join(parts) + ":" + (tag.swapcase() if rng.random() < 0.3 else tag)


def gen_family(rng, fx):
    """several tags of ONE model (one directory) that share layers; the operation to interrupt (re)writes the tag that sorts
    first (mostly), FROM a sibling or as a copy of it; afterwards the user works on the siblings"""
    k = rng.choice(["g0", "g1", "gt"])
    b = fx.data[k]
    d = "sha256:" + sha(b)
    base = rng.choice(["fam", "ns/fam", "example.com/ns/Fam", "NS/m"])
    tags = sorted(rng.sample(["a", "b", "c", "d", "t", "v2"], rng.randint(2, 4)))
    src = rng.choice(tags[1:])
    target = tags[0] if rng.random() < 0.8 else rng.choice(tags)
    pre = [{"op": "blob", "digest": d, "data": b.hex(), "_fx": k},
           {"op": "create", "name": "%s:%s" % (base, src), "files": {"model.gguf": d}, "_fx": k, "system": rng.choice(c04.SYSTEMS)}]
    for t in tags:
        if t == src or (t == target and rng.random() < 0.5):
            continue
        if rng.random() < 0.5:
            op = {"op": "create", "name": "%s:%s" % (base, t), "from": "%s:%s" % (base, src)}
            for kk, pool in (("system", c04.SYSTEMS), ("template", c04.TEMPLATES), ("parameters", c04.PARAMS)):
                if rng.random() < 0.4:
                    op[kk] = rng.choice(pool)
            pre.append(op)
        else:
            pre.append({"op": "copy", "src": "%s:%s" % (base, src), "dst": "%s:%s" % (base, t)})
    if rng.random() < 0.7:
        group = [{"op": "create", "name": "%s:%s" % (base, target), "from": "%s:%s" % (base, src), "system": rng.choice(c04.SYSTEMS + ["family system"])}]
        if rng.random() < 0.4:
            group[0]["parameters"] = rng.choice(c04.PARAMS)
    else:
        group = [{"op": "copy", "src": "%s:%s" % (base, src), "dst": "%s:%s" % (base, target)}]
    follow = []
    for _ in range(rng.randint(1, 2)):
        r = rng.random()
        sib = rng.choice(tags)
        if r < 0.4:
            follow.append({"op": "delete", "name": "%s:%s" % (base, sib)})
        elif r < 0.8:
            follow.append({"op": "create", "name": "%s:%s" % (base, rng.choice(tags + ["z"])), "from": "%s:%s" % (base, src), "system": rng.choice(c04.SYSTEMS)})
        else:
            follow.append({"op": "copy", "src": "%s:%s" % (base, src), "dst": "%s:%s" % (base, sib)})
    return pre, group, follow


def corpus_cases(fx):
    """crash cases that run first in every run, whatever the seed: (name, pre, group, followups)"""
    def up(k):
        return {"op": "blob", "digest": "sha256:" + sha(fx.data[k]), "data": fx.data[k].hex(), "_fx": k}
    base = [up("g0"), {"op": "create", "name": "m0", "files": {"model.gguf": "sha256:" + sha(fx.data["g0"])}, "_fx": "g0", "system": c04.SYSTEMS[0]}]
    det = fx.det_bytes[("gt", 3)].decode()
    return [
        # create from a GGUF with an auto-detected chat template, TEMPLATE given: setTemplate drops the detected layer (a blob
        # nothing else uses: a file-system effect), then makes the new one; the order of the two is visible at the crash points
        ("create-files-template-override", base,
         [up("gt"), {"op": "create", "name": "tpl", "files": {"model.gguf": "sha256:" + sha(fx.data["gt"])}, "_fx": "gt",
                     "template": c04.TEMPLATES[1], "system": c04.SYSTEMS[1]}],
         [{"op": "create", "name": "tpl2", "from": "tpl", "template": c04.TEMPLATES[0]}]),
        # ... TEMPLATE equal to the detected one: the layer that is dropped is the layer that is made
        ("create-files-template-same-as-detected", base,
         [up("gt"), {"op": "create", "name": "tpl", "files": {"model.gguf": "sha256:" + sha(fx.data["gt"])}, "_fx": "gt", "template": det}],
         [{"op": "create", "name": "tpl2", "from": "tpl", "system": c04.SYSTEMS[2]}]),
        # template, system and parameters over a GGUF that brings its own template (all of create's set* steps in one run)
        ("create-files-all-overrides", base,
         [up("gz"), {"op": "create", "name": "example.com/ns/all:t", "files": {"model.gguf": "sha256:" + sha(fx.data["gz"])}, "_fx": "gz",
                     "template": c04.TEMPLATES[2], "system": c04.SYSTEMS[0], "parameters": c04.PARAMS[2], "license": c04.LICENSES[0]}],
         [{"op": "delete", "name": "m0"}]),
    ]


def gen_group(rng, fx, klass, state):
    """the operation (group) to crash, aimed at what the store really holds"""
    stored = ["%s/%s/%s:%s" % tuple(m["path"].split("/")) for m in state["manifests"] if m["readable"]]

    def existing():
        if stored and rng.random() < 0.9:
            n = rng.choice(stored)
            return recase(rng, n) if rng.random() < 0.3 else n
        return c04.rnd_name(rng, [], 0)

    def target():
        if stored and rng.random() < 0.45:
            n = rng.choice(stored)
            return recase(rng, n) if rng.random() < 0.5 else n
        return c04.rnd_name(rng, [], 0)
    if klass == "delete":
        return [{"op": "delete", "name": existing()}]
    if klass == "copy":
        return [{"op": "copy", "src": existing(), "dst": target()}]
    if klass == "create-from":
        op = {"op": "create", "name": target(), "from": existing()}
        if rng.random() < 0.25:
            op["name"] = op["from"]
        for k, pool in (("system", c04.SYSTEMS), ("template", c04.TEMPLATES), ("parameters", c04.PARAMS), ("messages", c04.MESSAGES)):
            if rng.random() < 0.5:
                op[k] = rng.choice(pool)
        if rng.random() < 0.2:
            op["license"] = rng.choice(c04.LICENSES)
        return [op]
    if klass == "create-files":
        k = rng.choice(["g0", "g1", "gt", "gz", "g01", "ga", "g0x", "c8", "ckv"])
        b = fx.data[k]
        op = {"op": "create", "name": target(), "files": {"model.gguf": "sha256:" + sha(b)}, "_fx": k}
        for kk, pool in (("system", c04.SYSTEMS), ("template", c04.TEMPLATES), ("parameters", c04.PARAMS)):
            if rng.random() < 0.5:
                op[kk] = rng.choice(pool)
        return [{"op": "blob", "digest": "sha256:" + sha(b), "data": b.hex(), "_fx": k}, op]
    if klass == "pull-big":
        return [c04.gen_pull_big(rng, fx, target())]
    return [c04.gen_pull(rng, fx, target(), small=True)]


# ----------------------------------------------------------------------------------------------- driver

def run(ctx):
    ctx.rule = ("cases = (store built by a random history of uploads/creates/copies/deletes, operation to interrupt: delete | copy | create FROM a "
                "model with overrides | blob upload + create from files | pull from the fake registry | pull through the new code path (OLLAMA_EXPERIMENT=client2: "
                "chunked layers, scratch files, chunk records; store with an earlier failed or complete pull of the same layers)); for each case EVERY prefix of the traced "
                "sequence of mutating file-system calls of the real operation is materialised, restarted (real server.Serve start-up) and the operation "
                "repeated.  non-trivial = the operation has >= 3 distinct crash states; distinct = canonical JSON of (history, operation)")
    ctx.trusted = ["Coq 8.16.1 kernel + vm_compute", "hand-written model coq/Store/{Fs,Ops}.v tied to the code by this differential run only",
                   "strace -f output and the python replayer that applies the traced calls to a copy of the store (self-checked: the full replay "
                   "must equal the directory the traced run left; sampled real SIGKILLs must land on replayed states)",
                   "the file system: a killed process leaves exactly the effects of its completed system calls; no torn writes, no reordering after a power loss",
                   "Go harness harness/cmd/c04, python generator/monitor"]
    ctx.extra["restart_modes"] = "every crash state: normal start-up (pruning, unless a manifest is unreadable); pulls and every third other case also OLLAMA_NOPRUNE=1"
    ctx.assumptions = ["the registry is honest (serves bytes that hash to the digest it lists); dishonest registries are C03's subject",
                       "crash = death of the server process (SIGKILL) between two system calls; a torn single write() is not modelled",
                       "a crash during the start-up sequence itself is not enumerated"]
    ctx.proof_stage(["Store"], "Store/Properties_C12.v", extra_targets=["Store/Corr.v", "Store/Pull2.v", "Store/ProofsPull2.v"],
                    expect_theorems=["C12_crash_sound", "C12_reachable_inv", "C12_idempotent_redo_partial", "C12_idempotent_redo_guarded",
                                     "C12_redo_torn_exact", "C12_redo_upload_create", "C12_idempotent_redo_refuted",
                                     "C12_crash_sound_noprune", "C12_idempotent_redo_noprune",
                                     "C12_pull2_crash_sound", "C12_pull2_commit_before_link", "C12_pull2_redo",
                                     "C12_pull2_redo_same_refuted", "C12_pull2_redo_same_partial"])
    if not ctx.quick():
        ctx.coqchk(["V.Store.Properties_C12"])
    binp = ctx.go_build("c04")
    if not binp:
        return
    fx = c04.Fixtures(ctx, binp)
    rng = ctx.rng
    plan = []
    n = 24 if ctx.quick() else 400
    classes = ["delete", "copy", "create-from", "create-files", "family", "create-from", "family"]
    for i in range(n):
        plan.append(classes[i % len(classes)])
    plan += ["pull"] * (3 if ctx.quick() else 40)
    if not ctx.quick():
        plan += ["pull-big"] * 1   # a layer of two download parts (> 100 MB, all-zero body): monitor only
    if os.environ.get("C12_PLAN"):   # (development: only cases of one class)
        plan = []
    plan += ["pull2"] * (4 if ctx.quick() else 60)   # the new pull path (chunked downloads, scratch files, chunk records)
    corpus = corpus_cases(fx)
    plan = ["corpus:" + c[0] for c in corpus] + plan      # first in every run
    fams = {i: (corpus[i][1:] if k.startswith("corpus:") else gen_family(rng, fx) if k == "family" else gen_pull2_case(rng, fx))
            for i, k in enumerate(plan) if k in ("family", "pull2") or k.startswith("corpus:")}
    pres = [fams[i][0] if i in fams else gen_pre(rng, fx) for i, _ in enumerate(plan)]
    pobs, err = c04.run_histories(ctx, binp, pres, noapi=True)
    if pobs is None:
        ctx.obligation("harness c04 answered every store-building history", False, err)
        ctx.proof_failures.append({"obligation": "correspondence: harness c04 did not answer", "detail": err})
        return
    cases = [(k, pre, fams[i][1] if i in fams else gen_group(rng, fx, k, ob[-1]["state"] if ob else EMPTY_STATE))
             for i, (k, pre, ob) in enumerate(zip(plan, pres, pobs))]
    follow = {i: fams[i][2] for i in fams}

    def work(a):
        i, (k, pre, group) = a
        try:
            return run_case(ctx, binp, fx, pre, group, "%d" % i, kill_sample=(1 if ctx.quick() else 6), rng=__import__("random").Random(ctx.seed * 7919 + i),
                            big=(k == "pull-big"), followups=follow.get(i))
        except UnknownCall as ex:
            return ("unknown-call", str(ex), k, pre, group)
        except Exception as ex:  # reported below
            import traceback
            return ("error", traceback.format_exc(), k, pre, group)
    with concurrent.futures.ThreadPoolExecutor(12) as ex:
        results = list(ex.map(work, enumerate(cases)))
        jobs = []
        for ci, c in enumerate(results):
            if isinstance(c, tuple):
                continue
            # every crash state is restarted normally; pulls (whose debris a restart may or may not clean) and every
            # third other case also with OLLAMA_NOPRUNE=1
            modes = ["prune", "noprune"] if (any(o["op"] == "pull" for o in c.group) or ci % 4 == 0) else ["prune"]
            jobs += [(c, i, m) for i in range(len(c.states)) for m in modes]

        def work2(a):
            c, i, m = a
            # recover_and_redo starts from a fresh copy of the crash snapshot, so a harness process that died (machine
            # overloaded: its watchdog fires, rc=2) can be repeated from the same state without changing what is
            # checked; a failure that repeats is reported as before
            for attempt in (0, 1):
                try:
                    return recover_and_redo(ctx, binp, c, i, m)
                except RuntimeError as ex:
                    import traceback
                    tb = traceback.format_exc()
                    if attempt == 0 and "harness failed on" in str(ex):
                        shutil.rmtree(c.snaps[i] + "-rec%d%s" % (i, m), ignore_errors=True)
                        print("[C12] harness process failed on crash state %d (%s); repeating that state once" % (i, m), flush=True)
                        continue
                    return tb
                except Exception:
                    import traceback
                    return traceback.format_exc()
        out2 = list(ex.map(work2, jobs))
    for c in results:
        if not isinstance(c, tuple):
            c.recovered, c.redone, c.rec_state, c.err = [], [], [], None
    for (c, i, m), r in zip(jobs, out2):
        if isinstance(r, str):
            c.err = r
        else:
            c.recovered.append(r[0])
            c.redone.append(r[1])
            c.rec_state.append(i)
    results = [c if isinstance(c, tuple) or not c.err else ("error", c.err, None, c.pre, c.group) for c in results]
    items, meta = [], []
    reported = set()
    for (k, pre, group), c in zip(cases, results):
        hist = {"pre": [c04.describe(o) for o in pre], "operation": [c04.describe(o) for o in group]}
        if isinstance(c, tuple) and c[0] == "unknown-call":
            ctx.mismatch("the traced operation %s made a file-system call on the store that the crash replayer has no rule for, so its crash "
                         "points cannot be enumerated: %s  (the model knows no such effect either; extend parse_trace/Replayer in props/c12.py and "
                         "the effects of coq/Store/Fs.v)" % ("+".join(o["op"] for o in group), c[1]), hist, c[1])
            continue
        if isinstance(c, tuple):
            ctx.mismatch("crash driver could not process the case (%s)" % c[1].strip().split("\n")[-1], hist, c[1][-1500:])
            continue
        ctx.note_case({"pre": c04.strip(pre), "group": c04.strip(group)}, len(c.states) >= 3, k, sample=hist)
        ctx.count("crash-states", len(c.states))
        ctx.count("traced-mutating-calls", c.ncalls)
        if not c.replay_faithful:
            ctx.mismatch("replay of the traced calls does not reproduce the directory of the traced run", hist, None)
            continue
        if not c.traced_equals_ref:
            ctx.mismatch("traced run and untraced run of the same operation end in different stores", hist, None)
            continue
        for (kk, member, inside) in c.kills:
            ctx.count("real-kill" + ("-mid-operation" if inside else ""))
            if not member:
                ctx.mismatch("a real SIGKILL (strace inject, when=%d) left a directory that is none of the replayed prefix states" % kk, hist, None)
        for (sig, what, i) in monitor_case(c):
            key = json.dumps(sig, sort_keys=True)
            if key in reported:
                continue
            reported.add(key)
            ctx.violation(sig, what, dict(hist, crash_prefix=i, crash_state=c.states[i],
                                          ops={"pre": c04.strip(pre), "group": c04.strip(group)}))
        if c.big:
            continue  # layers of several parts are outside the model (Ops.download has one part): the monitor judged them
        try:
            for ob, term in render_case(fx, c):
                items.append(term)
                meta.append((ob, hist))
        except ValueError as ex_:
            ctx.mismatch("Store/Corr (observation outside the model's vocabulary: %s)" % ex_, hist, None)
    bad, log = ctx.coq_eval(HEADER, items, per_file=12)
    if bad is None:
        ctx.obligation("correspondence: model evaluated on all crash cases", False, log)
        ctx.proof_failures.append({"obligation": "correspondence evaluation failed in coqc", "detail": log})
        return
    ctx.disagreements_checked = len(items)
    ctx.obligation("correspondence: crash prefixes / recovery / repeated operation agree with the model on %d obligations" % len(items), not bad)
    for bi in bad[:10]:
        ob, hist = meta[bi]
        ctx.mismatch("Store/Corr." + ob, hist, None, None)


def replay(ctx, path):
    ctx.log("replaying", path)
    r = json.load(open(path))
    ops = (r.get("replay") or {}).get("ops")
    binp = ctx.go_build("c04")
    if not binp or not ops:
        run(ctx)
        return
    fx = c04.Fixtures(ctx, binp)
    c = run_case(ctx, binp, fx, ops["pre"], ops["group"], "replay")
    c.recovered, c.redone, c.rec_state = [], [], []
    for i in range(len(c.states)):
        for m in ("prune", "noprune"):
            a, b = recover_and_redo(ctx, binp, c, i, m)
            c.recovered.append(a)
            c.redone.append(b)
            c.rec_state.append(i)
    for (sig, what, i) in monitor_case(c):
        ctx.violation(sig, what, {"ops": ops, "crash_prefix": i})
    ctx.note_case(ops, True, "replay")


MANIFEST = {
    "property_id": "C12",
    "quick_cmd": "python3 check.py C12 --tier quick",
    "thorough_cmd": "python3 check.py C12 --tier thorough",
    "evidence_file": "evidence/C12.json",
    "replay_cmd_template": "python3 check.py C12 --replay {path}",
    "engine": "coq-model+go-differential",
    "level_claimed": {
        "category": "proof",
        "text": "Coq theorems over the store model with every operation expressed as a list of atomic file-system effects: for every operation, every "
                "store satisfying the invariant (closed under operations, crashes and restarts), every prefix of the effect list, the store after the real "
                "start-up sequence has every readable manifest complete and intact and leaves the models not named by the operation unchanged; repeating the "
                "operation gives the uninterrupted result up to unreferenced blobs.  Tied to the code by tracing the real operation's file-system calls, "
                "materialising every prefix, running the real start-up and the real operation again, and comparing all stages with the model.",
        "design_ref": "DESIGN.md section 5, C12",
    },
    "level_note": "New pull path (client2): separate model Store/Pull2.v (scratch files, chunk records, commit, Link) with C12_pull2_crash_sound / "
                  "_commit_before_link / _redo proved for every effect prefix and both restarts under the decidable invariant good_b (evaluated on every case) and "
                  "guard2 (honest registry); 'same listing as the uninterrupted run' refuted and proved in part (known finding C12-pull2-relink-respelled); one stream "
                  "(MaxStreams=1), crashes inside the start-up prune not enumerated. Model = repaired code (fixes/C04-*.patch). C12_crash_sound is full strength over the model (any reachable store, any operation meeting "
                  "its guard, any effect prefix). The redo clause is proved for every crash point (torn manifests included) of delete / copy / create FROM / create from files (upload repeated) / "
                  "pull under the decidable redo_guard, whose torn-manifest part is exact (C12_redo_torn_exact); the unguarded statement is refuted on the model (manifests are written in "
                  "place; known findings C12-torn-manifest-*, C12-self-referential-create-not-idempotent). Trusted: Coq kernel/vm_compute; strace + the python "
                  "replayer of traced calls (self-checked; real SIGKILLs sampled); process death only (no torn writes, no power-loss reordering); honest "
                  "registry; crashes during start-up itself are not enumerated.",
    "technique": "Coq proof (invariant over effect prefixes) + crash-point enumeration on the real code by system-call trace replay",
}
