"""C07 - prompt caching, slot reuse and context shifting never change what the model sees.

Tie (S): histories of completion requests (submit) and batches (step) are run on the REAL ollamarunner.Server
(NewSequence, LoadCacheSlot, findLongest/BestCacheSlot, ShiftCacheSlot, processBatch) over the REAL
kvcache.Causal on an in-memory backend with a scripted model whose logits are a hash of the history the cache
exposes (harness c07); the Coq model (Slots/Model.v) replays the same history inside coqc (vm_compute) and every
operation's result and the whole projected state are compared after every operation (Slots/Corr.v chk_trace).
Monitor: the property itself on the implementation's observations - recorded slot inputs = cache contents,
no slot given out twice, the model saw exactly the recorded inputs, and every request generated what the same
request generates alone on a fresh server.
"""
import json
import os
import subprocess

from lib import vlib
from lib.vlib import cq_list, cq_bool

SETUP_BUILDS = [{"name": "c07"}, {"name": "c07", "race": True}]
COQ_TARGETS = ["Slots/Properties_C07.v", "Slots/Corr.v", "Slots/CorrMM.v", "Slots/Enc.v", "Slots/Wrap.v"]
HEADER = ("From Coq Require Import List ZArith NArith Bool.\nFrom V Require Import Common.Bytes Slots.StopFns Slots.Model Slots.Corr Slots.ModelMM Slots.CorrMM Slots.Enc Slots.Wrap.\n"
          "Import ListNotations.\nOpen Scope Z_scope.\n")


# ------------------------------------------------------------------ generation

def gen_cfg(rng, klass):
    parallel = rng.choice([1, 1, 2, 2, 2, 3])
    numctx = rng.choice([1, 2, 3, 4, 4, 5, 6, 6, 8, 10])
    if klass in ("fork-overflow", "multi"):
        parallel = rng.choice([2, 2, 3])
        numctx = rng.choice([4, 5, 6, 8])
    vocab = rng.choice([2, 3, 4, 6, 8])
    cfg = {
        "parallel": parallel, "kv": parallel * numctx + rng.randrange(parallel), "batch": rng.choice([1, 2, 3, 4, 8]),
        "vocab": vocab, "eos": rng.choice([-1, -1, -1, vocab - 1]), "multi": rng.random() < 0.5,
        "shift": rng.random() < 0.7, "partial": rng.random() < 0.8, "resume": rng.random() < 0.85, "pad": rng.choice([1, 1, 4]), "maskpad": rng.choice([1, 1, 2]),
    }
    if klass in ("fork-overflow", "multi"):
        cfg["multi"] = True
        cfg["eos"] = -1
    if klass == "noshift-overflow":
        cfg["shift"] = False
        cfg["eos"] = -1
    return cfg, numctx


def rnd_toks(rng, vocab, n):
    return [rng.randrange(vocab) for _ in range(n)]


def gen_case(rng, klass):
    cfg, numctx = gen_cfg(rng, klass)
    vocab = cfg["vocab"]
    bases = [rnd_toks(rng, vocab, numctx + 4) for _ in range(2)]
    ops = []
    nreq = 0
    nops = rng.randint(4, 14)

    def a_request():
        nonlocal nreq
        r = rng.random()
        o = {"t": "submit"}
        base = rng.choice(bases)
        if nreq > 0 and r < 0.25:
            o["cont"] = rng.randrange(nreq)                      # continue an earlier conversation (exact hit on its slot)
            o["extra"] = rnd_toks(rng, vocab, rng.choice([0, 1, 1, 2, 3]))
        elif r < 0.55:
            o["prompt"] = base[:rng.randint(1, len(base))]       # shared prefix / exact repeat / longer than the context
        elif r < 0.85:
            k = rng.randint(0, len(base) - 1)
            o["prompt"] = base[:k] + rnd_toks(rng, vocab, rng.randint(1, 3))   # diverging suffix
        elif r < 0.95:
            o["prompt"] = rnd_toks(rng, vocab, rng.randint(1, numctx + 3))
        else:
            o["prompt"] = []                                     # rejected by NewSequence
        o["npred"] = rng.choice([1, 2, 3, numctx, numctx + 2, 2 * numctx + 1, 0, -1])
        o["keep"] = rng.choice([-1, 0, 0, 1, 2, numctx - 1, numctx, numctx + 3])
        if rng.random() < 0.25:
            o["stop"] = [rnd_stop(rng, vocab) for _ in range(rng.randint(1, 2))]
        nreq += 1
        return o

    if klass in ("fork-overflow",):
        # one conversation, then a second one sharing a long prefix but diverging before its end, generating past the context
        p = bases[0][:numctx - 1]
        ops.append({"t": "submit", "prompt": p, "npred": rng.choice([1, 2]), "keep": 0})
        ops += [{"t": "step"}] * rng.randint(2, 5)
        ops.append({"t": "submit", "prompt": p[:-1] + [(p[-1] + 1) % vocab], "npred": numctx + 3, "keep": rng.choice([0, 0, 1])})
        nreq = 2
    elif klass == "noshift-overflow":
        ops.append({"t": "submit", "prompt": bases[0][:rng.randint(1, numctx)], "npred": 2 * numctx + 2, "keep": rng.choice([0, 1, -1])})
        nreq = 1
    for _ in range(nops):
        if rng.random() < 0.4:
            ops.append(a_request())
        else:
            ops += [{"t": "step"}] * rng.randint(1, 3)
    return {"op": "hist", "cfg": cfg, "ops": ops, "drain": rng.choice([0, 5, 40, 40]), "fresh": True, "freshsteps": 60, "klass": klass}


def gen_swa_case(rng, klass):
    """sliding-window caches (kvcache.NewSWACache): window 2..8 smaller than the context, both slot policies"""
    w = rng.choice([2, 2, 3, 3, 4, 5, 6, 8])
    numctx = w + rng.choice([1, 2, 3, 4, 6])
    parallel = rng.choice([1, 1, 2, 2, 3])
    vocab = rng.choice([3, 4, 6])
    cfg = {"parallel": parallel, "kv": parallel * numctx, "batch": rng.choice([1, 2, 3, 4, 8]), "vocab": vocab, "eos": -1,
           "multi": rng.random() < 0.5, "shift": rng.random() < 0.6, "partial": True, "resume": True, "pad": rng.choice([1, 1, 4]),
           "maskpad": 1, "window": w}

    def keep():
        return 0 if rng.random() < 0.8 else rng.choice([1, 2, -1])
    base = rnd_toks(rng, vocab, numctx + 3)
    ops = []
    if klass == "swa-repeat":
        # a prompt longer than the window, k tokens generated (the slot then records prompt + k-1 inputs), then the
        # same prompt again: LoadCacheSlot must ask CanResume about the position it really resumes at
        n = rng.randint(w + 1, numctx)
        k = rng.choice([1, 2, 2, 2, 3, 4])
        p = base[:n]
        ops.append({"t": "submit", "prompt": p, "npred": k, "keep": 0})
        ops += [{"t": "step"}] * (n + k + 3)
        r = rng.random()
        p2 = p if r < 0.7 else (p[:rng.randint(1, n)] if r < 0.85 else p + rnd_toks(rng, vocab, 1))
        ops.append({"t": "submit", "prompt": p2, "npred": rng.choice([1, 2, 3]), "keep": 0})
        if rng.random() < 0.3:
            ops.append({"t": "submit", "cont": rng.randrange(2), "extra": rnd_toks(rng, vocab, rng.choice([0, 1])), "npred": 2, "keep": 0})
    else:
        nreq = 0
        for _ in range(rng.randint(4, 12)):
            if rng.random() < 0.4:
                r = rng.random()
                if nreq > 0 and r < 0.3:
                    o = {"t": "submit", "cont": rng.randrange(nreq), "extra": rnd_toks(rng, vocab, rng.choice([0, 0, 1, 2]))}
                elif r < 0.8:
                    o = {"t": "submit", "prompt": base[:rng.randint(1, len(base))]}
                else:
                    o = {"t": "submit", "prompt": base[:rng.randint(0, len(base) - 1)] + rnd_toks(rng, vocab, rng.randint(1, 2))}
                o["npred"] = rng.choice([1, 2, 3, 4, numctx + 2])
                o["keep"] = keep()
                ops.append(o)
                nreq += 1
            else:
                ops += [{"t": "step"}] * rng.randint(1, 4)
    return {"op": "hist", "cfg": cfg, "ops": ops, "drain": 40, "fresh": True, "freshsteps": 60, "klass": klass}


PLACEHOLDER = 24


def expand_mm(prompt):
    """what PostTokenize makes of a prompt: an image code is followed by its placeholder inputs"""
    out = []
    skip = 0
    for t in prompt:
        if skip > 0 and t == PLACEHOLDER:      # already written out (a resolved "cont" prompt lists the followers)
            skip -= 1
            continue
        skip = 0
        out.append(t)
        if t >= 1000:
            skip = (t - 1000) // 100
            out += [PLACEHOLDER] * skip
    return out


def gen_mm_case(rng):
    """multimodal inputs: an image is one input with SameBatch = n-1 followed by n-1 placeholders (n = 2..4)"""
    numctx = rng.choice([6, 8, 8, 10, 12])
    parallel = rng.choice([1, 1, 2])
    vocab = rng.choice([3, 4, 6])
    cfg = {"parallel": parallel, "kv": parallel * numctx, "batch": rng.choice([1, 2, 3, 4, 8]), "vocab": vocab, "eos": -1,
           "multi": rng.random() < 0.5, "shift": rng.random() < 0.7, "partial": True, "resume": True, "pad": 1, "maskpad": 1}

    def image():
        return 1000 + 100 * rng.randint(1, 3) + rng.randrange(4)
    imgs = [image(), image()]
    base = []
    for _ in range(rng.randint(3, numctx)):
        base.append(rng.choice(imgs) if rng.random() < 0.25 else rng.randrange(vocab))
    ops = []
    for _ in range(rng.randint(3, 9)):
        if rng.random() < 0.4:
            r = rng.random()
            if r < 0.6:
                pr = base[:rng.randint(1, len(base))]
            elif r < 0.85:
                pr = base[:rng.randint(0, len(base) - 1)] + [rng.choice(imgs + [rng.randrange(vocab)])]
            else:
                pr = base + base[:rng.randint(1, len(base))]          # longer than the context: truncation across groups
            ops.append({"t": "submit", "prompt": pr, "npred": rng.choice([1, 2, 3, numctx]), "keep": rng.choice([0, 0, 1, 2, -1])})
        else:
            ops += [{"t": "step"}] * rng.randint(1, 4)
    return {"op": "hist", "cfg": cfg, "ops": ops, "drain": 40, "fresh": True, "freshsteps": 60, "klass": "multimodal"}


def gen_enc_case(rng):
    """a cross-attention model (mllama-style): WrapperCache(EncoderCache, Causal), one slot.  An image input sits at a
    sequence position that differs from its index in the batch (prefix longer than a batch, or cached prefix then image);
    then the slot is reused with prefixes ending before / at / after the image, and generations overflow the context."""
    numctx = rng.choice([6, 8, 10, 12, 16])
    vocab = rng.choice([3, 4, 6])
    batch = rng.choice([1, 2, 2, 3, 4])
    cfg = {"parallel": 1, "kv": numctx, "batch": batch, "vocab": vocab, "eos": -1, "multi": rng.random() < 0.5, "shift": rng.random() < 0.85,
           "partial": rng.random() < 0.9, "resume": True, "pad": 1, "maskpad": 1, "encoder": True}

    def image():
        return 1000 + (100 * rng.randint(1, 2) if rng.random() < 0.15 else 0) + rng.randrange(4)
    img = image()
    a = rng.randint(0, min(numctx - 3, batch + 3))
    pre = rnd_toks(rng, vocab, a)
    suf = rnd_toks(rng, vocab, rng.randint(0, 3))
    full = pre + [img] + suf
    two = rng.random() < 0.12
    if two:
        full = full + [image()] + rnd_toks(rng, vocab, rng.randint(0, 2))
    ops = []

    def run(n=None):
        ops.extend([{"t": "step"}] * (n if n is not None else numctx + 6))
    if a > 0 and rng.random() < 0.5:          # the prefix is cached first: the image is then at batch index < position
        ops.append({"t": "submit", "prompt": pre[:rng.randint(1, a)] if rng.random() < 0.7 else pre, "npred": 1, "keep": 0})
        run()
    ops.append({"t": "submit", "prompt": full, "npred": rng.choice([1, 1, 2, 3]), "keep": rng.choice([0, 0, 1, a, a + 1, -1])})
    run()
    for _ in range(rng.randint(1, 4)):
        r = rng.random()
        keep = rng.choice([0, 0, 1, a, a + 1, a + 2, -1])
        if r < 0.55:
            cut = rng.choice([rng.randint(0, len(full)), a, a, a + 1, max(0, a - 1)])
            tail = rnd_toks(rng, vocab, rng.randint(1, 3))
            if rng.random() < 0.15:
                tail = [image()] + tail
            ops.append({"t": "submit", "prompt": full[:cut] + tail, "npred": rng.choice([1, 2, 3, numctx + 2]), "keep": keep})
        elif r < 0.8:                          # continue the conversation: generations overflow the context, context shifts
            ops.append({"t": "submit", "cont": max(0, sum(1 for x in ops if x["t"] == "submit") - 1), "extra": rnd_toks(rng, vocab, rng.randint(1, 2)),
                        "npred": rng.choice([2, numctx, numctx + 3]), "keep": keep})
        else:
            ops.append({"t": "submit", "prompt": full, "npred": rng.choice([1, 2, numctx]), "keep": keep})
        run(rng.choice([None, None, 2]))
    return {"op": "hist", "cfg": cfg, "ops": ops, "drain": 40, "fresh": True, "freshsteps": 60, "klass": "encoder"}


def gen_wrap_case(rng):
    """a wrapper of caches (gemma2/gemma3: sliding window for the local layers + causal for the global layers; also two
    windows, and the causal cache first).  Core scenario: a long first request (runs past the shared prefix by more than
    the window), then a request that shares only the short prefix, on the same slot or on a slot the prefix is forked into."""
    w = rng.choice([1, 2, 4, 8])
    r = rng.random()
    wrap = [w, 0] if r < 0.6 else ([w, rng.choice([1, 2, 4, 8])] if r < 0.85 else [0, w])
    parallel = rng.choice([1, 1, 2, 2, 3])
    numctx = rng.choice([8, 12, 16, 24])
    vocab = rng.choice([3, 4, 6])
    multi = rng.random() < 0.6
    cfg = {"parallel": parallel, "kv": parallel * numctx, "batch": rng.choice([1, 2, 3, 4, 8]), "vocab": vocab, "eos": -1, "multi": multi,
           "shift": rng.random() < 0.9, "partial": rng.random() < 0.9, "resume": True, "pad": rng.choice([1, 1, 4]), "maskpad": 1, "wrap": wrap}
    wmax = max(x for x in wrap if x > 0)
    sysp = rnd_toks(rng, vocab, rng.randint(1, 4))
    ops = []

    def keep():
        return rng.choice([0] * 12 + [1, len(sysp), -1])

    def run(n=None):
        ops.extend([{"t": "step"}] * (n if n is not None else numctx + 4))
    nreq = 0
    for rnd in range(rng.randint(1, 3)):
        # long request: the shared prefix + its own turn, generating more than the window
        conv = rnd_toks(rng, vocab, rng.randint(0, 3))
        long_n = rng.choice([wmax + 1, wmax + 2, wmax + 4, 2 * wmax + 1, numctx])
        ops.append({"t": "submit", "prompt": sysp + conv, "npred": long_n, "keep": keep()})
        nreq += 1
        if parallel > 1 and rng.random() < 0.3:
            run(rng.randint(1, 3))               # the second request arrives while the first is still running
        else:
            run(long_n + 4)
        # short shared prefix, different conversation: same slot, or (multi-user policy, a free older slot) a fork
        for _ in range(rng.randint(1, 2)):
            q = rng.random()
            if q < 0.6:
                pr = sysp + rnd_toks(rng, vocab, rng.randint(1, 3))
            elif q < 0.75:
                pr = sysp[:rng.randint(1, len(sysp))] + rnd_toks(rng, vocab, rng.randint(0, 2))
            elif q < 0.9:
                ops.append({"t": "submit", "cont": rng.randrange(nreq), "extra": rnd_toks(rng, vocab, rng.randint(1, 2)), "npred": rng.choice([1, 2, wmax + 2]), "keep": keep()})
                nreq += 1
                run(rng.choice([None, 2]))
                continue
            else:
                pr = sysp + conv
            ops.append({"t": "submit", "prompt": pr or sysp, "npred": rng.choice([1, 2, 3, wmax + 2]), "keep": keep()})
            nreq += 1
            run(rng.choice([None, None, 2]))
    return {"op": "hist", "cfg": cfg, "ops": ops, "drain": 40, "fresh": True, "freshsteps": 80, "klass": "wrapper"}


CORPUS = [
    # fork a prefix into the second slot, overflow the fork: the shift fails on shared cells (the C07 defect)
    {"op": "hist", "cfg": {"parallel": 2, "kv": 16, "batch": 8, "vocab": 6, "eos": -1, "multi": True, "shift": True},
     "ops": [{"t": "submit", "prompt": [1, 2, 3, 4, 5, 0], "npred": 1, "keep": 0}, {"t": "step"}, {"t": "step"},
             {"t": "submit", "prompt": [1, 2, 3, 4, 5, 1], "npred": 6, "keep": 0}],
     "drain": 30, "fresh": True, "freshsteps": 60, "klass": "corpus"},
    # a model without a shift function overflows its context
    {"op": "hist", "cfg": {"parallel": 1, "kv": 4, "batch": 4, "vocab": 4, "eos": -1, "multi": False, "shift": False},
     "ops": [{"t": "submit", "prompt": [1, 2], "npred": 6, "keep": 1}], "drain": 30, "fresh": True, "freshsteps": 60, "klass": "corpus"},
]


def gen_cases(ctx):
    rng = ctx.rng
    n = 220 if ctx.quick() else 4000
    cases = [json.loads(json.dumps(c)) for c in CORPUS]
    cdir = os.path.join(vlib.VERIF, "corpus", "C07")
    if os.path.isdir(cdir):
        for f in sorted(os.listdir(cdir)):
            if f.endswith(".json"):
                c = json.load(open(os.path.join(cdir, f)))
                c["klass"] = "corpus"
                cases.append(c)
    klasses = ["mixed"] * 6 + ["fork-overflow"] * 2 + ["noshift-overflow", "multi"]
    for _ in range(n):
        cases.append(gen_case(rng, rng.choice(klasses)))
    for _ in range(90 if ctx.quick() else 1500):
        cases.append(gen_swa_case(rng, rng.choice(["swa-repeat", "swa-repeat", "swa-mixed"])))
    for _ in range(70 if ctx.quick() else 1200):
        cases.append(gen_mm_case(rng))
    for _ in range(60 if ctx.quick() else 1200):
        cases.append(gen_enc_case(rng))
    for _ in range(90 if ctx.quick() else 1800):
        cases.append(gen_wrap_case(rng))
    return cases


def derive_stop_cases(rng, cases, obs, n):
    out = []
    order = list(range(len(cases)))
    rng.shuffle(order)
    for ci in order:
        if len(out) >= n:
            break
        c, o = cases[ci], obs[ci]
        fr = o.get("fresh") or []
        cand = [r for r, f in enumerate(fr) if isinstance(f, dict) and f.get("kind") == "" and len("".join(f.get("pieces") or [])) >= 2]
        subs = [x for x in c["ops"] if x["t"] == "submit"]
        if not cand or any("cont" in x for x in subs):
            continue
        r = rng.choice(cand)
        txt = "".join(fr[r]["pieces"]).encode()
        i = rng.randrange(0, len(txt) - 1)
        j = rng.randint(i + 1, min(len(txt), i + 4))
        d = json.loads(json.dumps(strip(c)))
        dsubs = [x for x in d["ops"] if x["t"] == "submit"]
        dsubs[r]["stop"] = [list(txt[i:j])] + ([rnd_stop(rng, c["cfg"]["vocab"])] if rng.random() < 0.3 else [])
        d["klass"] = "derived-stop"
        out.append(d)
    return out


# ------------------------------------------------------------------ monitor (the property, on the implementation's observations)

def monitor_case(c, o):
    """returns a list of (sig, what) for the violations seen in one observed history"""
    out = []
    if "init_err" in o:
        return out
    par = c["cfg"]["parallel"]
    if "panic" in o:
        out.append(({"class": "panic"}, "the runner panicked at operation %d: %s" % (o.get("panic_at", -1), o["panic"])))
    owner = {}      # seq entry -> request
    prev = None
    gen = {}        # request -> sampled tokens
    genvis = {}     # request -> per sampled token, per layer type: the history that layer type's cache exposed
    text = {}
    done = {}
    for k, e in enumerate(o.get("trace", [])):
        st = e["state"]
        res = e["res"]
        if e["t"] == "step" and res.get("err"):
            out.append(({"class": "step-error"}, "processBatch failed at operation %d (the runner panics): %s" % (k, res["err"])))
        # --- a slot in use is never given to a second request
        if e["t"] == "submit" and res["kind"] == "":
            sl = st["seqs"][res["idx"]]["slot"]
            if prev is not None and prev["slots"][sl]["inuse"]:
                out.append(({"class": "double-use"}, "operation %d: request %d was given slot %d which was in use" % (k, e["req"], sl)))
            owner[res["idx"]] = e["req"]
        live = [q["slot"] for q in st["seqs"] if q is not None]
        if len(set(live)) != len(live):
            out.append(({"class": "double-use"}, "operation %d: two live sequences use the same slot %s" % (k, live)))
        for i, s in enumerate(st["slots"]):
            if s["inuse"] != (i in live):
                out.append(({"class": "inuse-flag"}, "operation %d: slot %d InUse=%s but live sequences use %s" % (k, i, s["inuse"], live)))
        # --- the cached state of a slot corresponds exactly to the inputs recorded for it
        cells = e["cells"]
        if len(cells) > par:
            out.append(({"class": "slot-cache-mismatch", "how": "foreign-sequence"}, "operation %d: the cache holds a sequence id outside the slots: %s" % (k, cells[par:])))
        wins = c["cfg"].get("wrap") or [c["cfg"].get("window", 0)]
        cells_all = e.get("cellst") or [cells]
        for comp, (win, cells) in enumerate(zip(wins, cells_all)):
            lay = " [wrapped cache %d, window %d]" % (comp, win) if len(wins) > 1 else ""
            for i, s in enumerate(st["slots"]):
                want = [[j, t, j] for j, t in enumerate(s["inputs"])]
                have = cells[i]
                if win > 0:
                    # a sliding-window cache keeps a suffix of the record: every stored cell must agree with the record, no
                    # position twice, and a slot in use must hold the whole window of the next position
                    n = len(want)
                    agree = all((x in want) if x[0] < n else (not s["inuse"]) for x in have) and len(set(x[0] for x in have)) == len(have)
                    if not agree:
                        out.append(({"class": "slot-cache-mismatch", "how": "stale"},
                                    "operation %d: slot %d records inputs %s but the (sliding-window) cache holds [pos,tok,kpos] %s%s" % (k, i, s["inputs"], have, lay)))
                    elif s["inuse"] and not set(range(max(0, n - win), n)) <= set(x[0] for x in have):
                        out.append(({"class": "window-incomplete"},
                                    "operation %d: slot %d is in use with %d recorded inputs but the window (%d) before the next position is not stored: positions %s%s"
                                    % (k, i, n, win, sorted(x[0] for x in have), lay)))
                    continue
                if s["inuse"]:
                    okc = have == want
                else:
                    # an idle slot may keep cells at positions beyond its record (stop-trim); LoadCacheSlot erases them before use
                    okc = [x for x in have if x[0] < len(want)] == want and all(x[0] >= len(want) for x in have[len(want):])
                if not okc:
                    out.append(({"class": "slot-cache-mismatch", "how": "stale" if len(have) > len(want) else "missing"},
                                "operation %d: slot %d records inputs %s but the cache holds [pos,tok,kpos] %s%s" % (k, i, s["inputs"], have, lay)))
        cells = e["cells"]
        # --- what the model was given
        for f in e["fwd"]:
            slot_req = {}
            if prev is not None:
                for qi, q in enumerate(prev["seqs"]):
                    if q is not None and qi in owner:
                        slot_req[q["slot"]] = owner[qi]
            vis_all = f.get("vist") or [f["vis"]]
            for comp, (win, visl) in enumerate(zip(wins, vis_all)):
                for j in range(len(f["toks"])):
                    s, p, vis = f["seqs"][j], f["pos"][j], visl[j]
                    rec = st["slots"][s]["inputs"] if s < len(st["slots"]) else []
                    lo = max(0, p - win) if win > 0 else 0
                    okv = [v[0] for v in vis] == list(range(lo, p + 1)) and vis[p - lo][1] == f["toks"][j] and \
                        all(vis[x - lo][1] == rec[x] for x in range(lo, min(len(rec), p + 1)))
                    if not okv:
                        out.append(({"class": "foreign-history"}, "operation %d: batch entry %d (seq %d, pos %d, token %d) attended to [kpos,tok] %s%s; recorded inputs %s"
                                    % (k, j, s, p, f["toks"][j], vis, " in layer type %d (window %d)" % (comp, win) if len(wins) > 1 else "", rec)))
            # encoder mode: the cross-attention input is the most recent image of the effective input, or nothing
            if c["cfg"].get("encoder") and f["toks"]:
                rec = st["slots"][0]["inputs"]
                imgs = [t for t in rec[:max(f["pos"]) + 1] if t >= 1000]
                want_x = imgs[-1] if imgs else -1
                if f.get("cross", -1) != want_x:
                    how = "lost" if f.get("cross", -1) == -1 else ("stale" if want_x == -1 else "wrong-image")
                    out.append(({"class": "cross-attention-mismatch", "how": how},
                                "operation %d: the batch (positions %s) cross-attended to image %s but the most recent image of the recorded inputs %s is %s"
                                % (k, f["pos"], f.get("cross", -1), rec, want_x)))
            # an unbreakable group (a multimodal input + its SameBatch followers) must not be split across batches
            need = {}
            for j in range(len(f["toks"])):
                sq, t = f["seqs"][j], f["toks"][j]
                if t >= 1000:
                    need[sq] = (t - 1000) // 100
                elif t == PLACEHOLDER and need.get(sq, 0) > 0:
                    need[sq] -= 1
                else:
                    need[sq] = 0
            for sq, nd in need.items():
                rest = [q for q in st["seqs"] if q is not None and q["slot"] == sq]
                if nd > 0 and rest and rest[0]["inputs"][:1] == [PLACEHOLDER]:
                    out.append(({"class": "samebatch-split"}, "operation %d: the batch ends inside an unbreakable group of sequence %d (%d followers left for the next batch): tokens %s"
                                % (k, sq, nd, f["toks"])))
            for oi, bi in enumerate(f["outs"]):
                r = slot_req.get(f["seqs"][bi])
                if r is not None:
                    gen.setdefault(r, []).append(f["chosen"][oi])
                    if f.get("vist"):
                        genvis.setdefault(r, []).append([vt[bi] for vt in f["vist"]])
        for rk, rv in e["resp"].items():
            text.setdefault(int(rk), []).extend(rv["pieces"] or [])
            if rv["closed"]:
                done[int(rk)] = rv.get("reason")
        for qi in list(owner):
            if st["seqs"][qi] is None:
                del owner[qi]
        prev = st
    # --- same as a fresh runner
    for r, fr in enumerate(o.get("fresh", [])):
        if not isinstance(fr, dict) or fr.get("kind") != "" or "panic" in fr:
            continue
        # per layer type: what each wrapped cache exposed for the sampled tokens (first difference only)
        for n, (a, b) in enumerate(zip(genvis.get(r, []), fr.get("outvis") or [])):
            d = [t for t in range(min(len(a), len(b))) if a[t] != b[t]]
            if d:
                out.append(({"class": "layer-differs-from-fresh"},
                            "request %d, sampled token %d: layer type %d (window %d) saw [kpos,tok] %s; alone on a fresh runner it sees %s"
                            % (r, n, d[0], (c["cfg"].get("wrap") or [0])[d[0]], a[d[0]], b[d[0]])))
                break
        g, fg = gen.get(r, []), fr.get("chosen") or []
        m = min(len(g), len(fg))
        t, ft = "".join(text.get(r, [])), "".join(fr.get("pieces") or [])
        bad = g[:m] != fg[:m] or not (t.startswith(ft) or ft.startswith(t))
        if r in done and fr.get("closed"):
            bad = bad or g != fg or t != ft or done[r] != fr.get("reason")
        if bad:
            out.append(({"class": "differs-from-fresh"}, "request %d generated tokens %s text %r (%s); alone on a fresh runner: %s text %r (%s)"
                        % (r, g, t, done.get(r), fg, ft, fr.get("reason"))))
    return out


# ------------------------------------------------------------------ rendering into Coq

def zl(l):
    return cq_list(["(%d)" % x for x in l], "Z")


def strs(l):
    return cq_list([vlib.cq_bytes(bytes(s)) for s in l], "str")


def piece(t):
    return [97 + t % 26] if t % 2 == 0 else [97 + t % 26, 65 + t % 26]


def rnd_stop(rng, vocab):
    """a stop string cut out of the text of 1-3 random tokens: may start/end inside a two-letter token"""
    txt = [b for t in rnd_toks(rng, vocab, rng.randint(1, 3)) for b in piece(t)]
    i = rng.randrange(len(txt))
    j = rng.randint(i + 1, len(txt))
    return txt[i:j]


def render_cfg(cfg, numctx, ncells=-1):
    w = cfg.get("window", 0)
    return "(mkCfg %d %d %s %s %s %s (%d) %s (%d))" % (numctx, cfg["batch"], cq_bool(cfg["multi"]), cq_bool(cfg.get("shift", True)),
                                                       cq_bool(cfg.get("partial", True)), cq_bool(cfg.get("resume", True)), cfg.get("eos", -1),
                                                       "(Some %d)" % w if w > 0 else "None", ncells)


def render_cfgs(c, o):
    """one configuration per wrapped cache: its window and the number of cells its Init allocated"""
    return cq_list([render_cfg(dict(c["cfg"], window=w), o["numctx"], nc) for w, nc in zip(c["cfg"]["wrap"], o.get("ncellst") or [])], "config")


def render_op(c, e):
    if e["t"] == "step":
        return "Step"
    o = e["_op"]
    return "(Submit %s (%d) (%d) %s)" % (zl(expand_mm(e["prompt"] or [])), o.get("npred", 0), o.get("keep", 0), strs(o.get("stop", [])))


def render_obs(e):
    res = e["res"]
    if e["t"] == "submit":
        r = {"": "(OSubmitted %d%%nat)" % max(res["idx"], 0), "newseq": "ONewSeqErr", "busy": "OBusy", "load": "OLoadErr"}.get(res["kind"], "OStepErr")
    elif res.get("idle"):
        r = "OIdle"
    elif res.get("err"):
        r = "OCacheFull" if "could not find a kv cache slot" in res["err"] else "OStepErr"
    else:
        if e["fwd"]:
            f = e["fwd"][0]
            outs = set(f["outs"])
            b = cq_list(["((%d), (%d), %d%%nat, %s)" % (f["toks"][j], f["pos"][j], f["seqs"][j], cq_bool(j in outs)) for j in range(len(f["toks"]))], "(tok * Z * nat * bool)")
            r = "(OStepped %s %s)" % (b, zl(f["chosen"] or []))
        else:
            r = "(OStepped (@nil (tok * Z * nat * bool)) (@nil Z))"
    st = e["state"]
    slots = cq_list(["(%s, %s)" % (zl(s["inputs"]), cq_bool(s["inuse"])) for s in st["slots"]], "(list tok * bool)")
    lru = cq_list(["%d%%nat" % x for x in st["lru"]], "nat")
    seqs = cq_list(["None" if q is None else "(Some (%s, %s, %d%%nat, (%d), %s))" % (
        zl(q["inputs"]), zl(q["pending"]), q["slot"], q["npred"], cq_list([vlib.cq_bytes(bytes.fromhex(p)) for p in q["pend"]], "str"))
        for q in st["seqs"]], "(option (list tok * list tok * nat * Z * list str))")
    cells = cq_list([cq_list(["((%d), (%d))" % (x[0], x[1]) for x in row], "(Z * tok)") for row in e["cells"]], "(list (Z * tok))")
    return "(mkObs %s %s %s %s %d%%nat %s)" % (r, slots, lru, seqs, st["next"], cells)


def attach_ops(c, o):
    """pair every trace entry with the operation of the case that produced it"""
    subs = [x for x in c["ops"] if x["t"] == "submit"]
    for e in o.get("trace", []):
        if e["t"] == "submit":
            e["_op"] = subs[e["req"]]


def render(c, o):
    attach_ops(c, o)
    trace = o["trace"]       # a step on which StartForward found no room is predicted by the model too (RCacheFull)
    if c["cfg"].get("wrap"):
        def cells_t(e):
            return cq_list([cq_list([cq_list(["((%d), (%d))" % (x[0], x[1]) for x in row], "(Z * tok)") for row in comp], "(list (Z * tok))")
                            for comp in e["cellst"]], "(list (list (Z * tok)))")
        tr = cq_list(["(%s, %s, %s)" % (render_op(c, e), render_obs(e), cells_t(e)) for e in trace], "(op * obs * list (list (list (Z * tok))))")
        return "chk_trace_w %d %s %d%%nat %s" % (c["cfg"]["vocab"], render_cfgs(c, o), c["cfg"]["parallel"], tr)
    if c["cfg"].get("encoder"):
        tr = cq_list(["(%s, %s, %s)" % (render_op(c, e), render_obs(e), "(Some (%d))" % e["enc"][0] if e.get("enc") else "None") for e in trace], "(op * obs * option Z)")
        return "chk_trace_enc %d %s %s" % (c["cfg"]["vocab"], render_cfg(c["cfg"], o["numctx"], o.get("ncells", -1)), tr)
    tr = cq_list(["(%s, %s)" % (render_op(c, e), render_obs(e)) for e in trace], "(op * obs)")
    fn = "chk_trace_mm" if c.get("klass") == "multimodal" or any(t >= 1000 for e in trace if e["t"] == "submit" for t in (e["prompt"] or [])) else "chk_trace"
    return "%s %d %s %d%%nat %s" % (fn, c["cfg"]["vocab"], render_cfg(c["cfg"], o["numctx"], o.get("ncells", -1)), c["cfg"]["parallel"], tr)


def model_term(c, o):
    attach_ops(c, o)
    ops = cq_list([render_op(c, e) for e in o["trace"]], "op")
    if c["cfg"].get("wrap"):
        return "model_trace_w %d %s %d%%nat %s" % (c["cfg"]["vocab"], render_cfgs(c, o), c["cfg"]["parallel"], ops)
    if c["cfg"].get("encoder"):
        return "model_trace_enc %d %s %s" % (c["cfg"]["vocab"], render_cfg(c["cfg"], o["numctx"], o.get("ncells", -1)), ops)
    fn = "model_trace_mm" if c.get("klass") == "multimodal" else "model_trace"
    return "%s %d %s %d%%nat %s" % (fn, c["cfg"]["vocab"], render_cfg(c["cfg"], o["numctx"], o.get("ncells", -1)), c["cfg"]["parallel"], ops)


# ------------------------------------------------------------------ pure parts (both runners' copies)

def gen_pure(ctx):
    rng = ctx.rng
    out = []
    top = 9 if ctx.quick() else 14
    for n in range(1, top):                      # exhaustive small scope
        for ln in range(0, n + 3):
            for k in range(0, n + 2):
                out.append({"op": "discard", "numctx": n, "len": ln, "keep": k, "klass": "pure-discard"})
    for _ in range(60 if ctx.quick() else 1500):
        v = rng.choice([2, 3])
        a = rnd_toks(rng, v, rng.randint(0, 6))
        b = a[:rng.randint(0, len(a))] + rnd_toks(rng, v, rng.randint(0, 3)) if rng.random() < 0.6 else rnd_toks(rng, v, rng.randint(0, 6))
        out.append({"op": "prefix", "a": a, "b": b, "klass": "pure-prefix"})
    for _ in range(150 if ctx.quick() else 3000):
        v = rng.choice([2, 3])
        base = rnd_toks(rng, v, 6)
        ns = rng.randint(1, 4)
        ages = rng.sample(range(1, 20), ns)
        slots = []
        for i in range(ns):
            r = rng.random()
            inp = base[:rng.randint(0, 6)] if r < 0.6 else (rnd_toks(rng, v, rng.randint(0, 5)) if r < 0.9 else [])
            slots.append({"inputs": inp, "inuse": rng.random() < 0.3, "age": ages[i]})
        multi = rng.random() < 0.6
        if multi and all(x["inuse"] for x in slots):
            slots[rng.randrange(ns)]["inuse"] = False          # findBestCacheSlot dereferences nil when every slot is in use (never reached: semaphore)
        prompt = base[:rng.randint(1, 6)] + (rnd_toks(rng, v, rng.randint(0, 2)) if rng.random() < 0.5 else [])
        out.append({"op": "find", "multi": multi, "slots": slots, "prompt": prompt, "klass": "pure-find"})
    return out


def render_pure(c, o):
    """one Coq term per runner"""
    terms = []
    for who in ("ollama", "llama"):
        r = o[who]
        if c["op"] == "discard":
            terms.append("chk_shift_discard (%d) (%d) (%d) (%d)" % (c["numctx"], c["len"], c["keep"], r))
        elif c["op"] == "prefix":
            terms.append("chk_common_prefix %s %s %d%%nat" % (zl(c["a"]), zl(c["b"]), r))
        else:
            sl = cq_list(["(%s, %s, %d%%nat)" % (zl(x["inputs"]), cq_bool(x["inuse"]), x["age"]) for x in c["slots"]], "(list tok * bool * nat)")
            if r.get("err") or r["slot"] < 0:
                res = "None"
            else:
                res = "(Some (%d%%nat, %d%%nat, %s))" % (r["slot"], r["numpast"], cq_list([zl(x or []) for x in r["after"]], "(list tok)"))
            terms.append("chk_find %s %s %s %s" % (cq_bool(c["multi"]), sl, zl(c["prompt"]), res))
    return terms


def pure_stage(ctx, binp):
    cases = gen_pure(ctx)
    obs, err = ctx.run_jsonl(binp, [strip(c) for c in cases], timeout=600)
    if obs is None or len(obs) != len(cases):
        ctx.obligation("harness c07 answered every pure case", False, err)
        ctx.proof_failures.append({"obligation": "correspondence: harness c07 did not answer every pure case", "detail": err})
        return
    items, owner = [], []
    for c, o in zip(cases, obs):
        ctx.note_case(strip(c), c["op"] != "discard" or o.get("ollama", 0) > 0, c["klass"])
        if "panic" in o:
            ctx.violation({"class": "panic", "op": c["op"]}, "slot choice panicked: %s" % o["panic"], {"case": strip(c), "impl": o})
            continue
        if o["ollama"] != o["llama"]:
            ctx.count("runners-differ")
        # the property-level facts of the pure parts: never a slot in use; the reported prefix really is common
        if c["op"] == "find":
            for who in ("ollama", "llama"):
                r = o[who]
                if not r.get("err") and r["slot"] >= 0:
                    if c["slots"][r["slot"]]["inuse"]:
                        ctx.violation({"class": "double-use", "op": "find", "runner": who}, "%s slot choice returned slot %d which is in use" % (who, r["slot"]), {"case": strip(c), "impl": o})
                    np = r["numpast"]
                    if r["after"][r["slot"]][:np] != c["prompt"][:np] or np > len(c["prompt"]):
                        ctx.violation({"class": "slot-cache-mismatch", "op": "find", "runner": who},
                                      "%s slot choice reports %d cached inputs but slot %d holds %s for prompt %s" % (who, np, r["slot"], r["after"][r["slot"]], c["prompt"]),
                                      {"case": strip(c), "impl": o})
        for t in render_pure(c, o):
            items.append(t)
            owner.append((c, o))
    bad, log = ctx.coq_eval(HEADER, items, per_file=200, name="pure")
    if bad is None:
        ctx.obligation("correspondence: model evaluated on the pure cases", False, log)
        ctx.proof_failures.append({"obligation": "correspondence evaluation (pure) failed in coqc", "detail": log})
        return
    ctx.disagreements_checked += len(items)
    ctx.obligation("correspondence: ShiftDiscard / countCommonPrefix / slot choice of both runners = model on %d evaluations" % len(items), not bad)
    for i in bad[:5]:
        c, o = owner[i]
        ctx.mismatch("Slots/Corr.%s" % items[i].split()[0], strip(c), o, items[i])


# ------------------------------------------------------------------ concurrent stage (handler-level locking)

def gen_conc(ctx):
    rng = ctx.rng
    out = []
    n = 36 if ctx.quick() else 300
    for k in range(n):
        parallel = rng.choice([2, 2, 3])
        numctx = rng.choice([12, 16])
        vocab = rng.choice([4, 6])
        multi = k % 3 != 2                     # multi-user: the slot selection can be parked (it logs before marking InUse)
        cfg = {"parallel": parallel, "kv": parallel * numctx, "batch": rng.choice([2, 4, 8]), "vocab": vocab, "eos": -1,
               "multi": multi, "shift": True, "partial": True, "resume": True}
        warm = [{"prompt": rnd_toks(rng, vocab, rng.randint(2, 4)), "npred": 2, "keep": 0} for _ in range(parallel)]
        nb = rng.randint(2, min(4, parallel + 1))
        burst = []
        for _ in range(nb):
            r = rng.random()
            pr = list(rng.choice(warm)["prompt"]) + rnd_toks(rng, vocab, 1) if r < 0.3 else rnd_toks(rng, vocab, rng.randint(2, 5))
            burst.append({"prompt": pr, "npred": rng.randint(4, 8), "keep": 0})
        out.append({"op": "conc", "cfg": cfg, "warm": warm, "burst": burst, "park": multi, "klass": "concurrent-multi" if multi else "concurrent-single"})
    return out


def conc_monitor(c, o):
    out = []
    sig = {"concurrent": True, "multi": c["cfg"]["multi"], "slots": c["cfg"]["parallel"]}
    if o.get("dups"):
        out.append((dict(sig, **{"class": "double-use"}), "two live sequences held the same cache slot while a batch was decoded: slots of the live sequences %s" % o["dups"][0]))
    if o.get("overlaps"):
        out.append((dict(sig, **{"class": "unserialized-cache-access"}),
                    "%d cache management calls (LoadCacheSlot's Remove/CopyPrefix/CanResume, Forward's StartForward) overlapped in time: slot selection is not serialized with the other requests and processBatch" % o["overlaps"]))
    if "panic" in o:
        out.append((dict(sig, **{"class": "panic"}), "the run loop panicked: %s" % o["panic"]))
    reason = {0: "stop", 1: "length", 2: "connection_closed"}
    for i, (b, f) in enumerate(zip(o.get("burst") or [], o.get("fresh") or [])):
        if not isinstance(f, dict) or f.get("kind") != "":
            continue
        if b.get("timeout") or b.get("status") != 200:
            out.append((dict(sig, **{"class": "request-failed"}), "concurrent request %d did not complete: %s" % (i, b)))
        elif b.get("text") != "".join(f.get("pieces") or []) or reason.get(b.get("reason")) != f.get("reason"):
            out.append((dict(sig, **{"class": "differs-from-fresh"}), "concurrent request %d streamed %r (%s); alone on a fresh runner: %r (%s)"
                        % (i, b.get("text"), reason.get(b.get("reason")), "".join(f.get("pieces") or []), f.get("reason"))))
    return out


def run_bursts(binp, cases, tmp, group=4):
    """run the bursts in small groups, each group in its own child process (an unlocked cache typically kills the
    process with 'fatal error: concurrent map writes', which truncates stdout).  Returns one record per burst:
    {"obs": parsed observation or None, "died": reason or None, "stderr": tail}"""
    recs = []
    for g in range(0, len(cases), group):
        chunk = cases[g:g + group]
        inp = "".join(json.dumps(strip(c)) + "\n" for c in chunk)
        died, stderr, stdout = None, "", ""
        try:
            p = subprocess.run([binp], input=inp, capture_output=True, text=True, timeout=120, env=vlib.goenv(), cwd=tmp)
            stdout, stderr = p.stdout, p.stderr
            if p.returncode != 0:
                died = "exit status %d" % p.returncode
        except subprocess.TimeoutExpired as ex:
            died = "no answer within 120 s"
            stdout = ex.stdout.decode(errors="replace") if isinstance(ex.stdout, bytes) else (ex.stdout or "")
            stderr = ex.stderr.decode(errors="replace") if isinstance(ex.stderr, bytes) else (ex.stderr or "")
        outs = []
        for l in stdout.split("\n"):
            if not l.startswith("{"):
                continue
            try:
                outs.append(json.loads(l))
            except ValueError:
                break                                   # a line cut short by the death of the process
        fatal = next((x for x in stderr.split("\n") if x.startswith("fatal error:") or x.startswith("panic:") or "DATA RACE" in x), None)
        if fatal and not died:
            died = fatal
        for k, c in enumerate(chunk):
            if k < len(outs):
                recs.append({"obs": outs[k], "died": None, "stderr": ""})
            else:
                # the burst during which the process died (k == len(outs)) and those never started after it
                recs.append({"obs": None, "died": (fatal or died or "no observation") if k == len(outs) else None,
                             "skipped": k > len(outs), "stderr": stderr[-2500:] if k == len(outs) else ""})
        if "DATA RACE" in stderr and len(outs) == len(chunk):
            recs[-1]["race"] = stderr[-2500:]
    return recs


def conc_stage(ctx, binp, race_bin=None):
    """the real completion handler from several goroutines at once + the real run loop"""
    cases = gen_conc(ctx)
    for tag, b in (("", binp), ("race", race_bin)):
        if not b:
            continue
        recs = run_bursts(b, cases, ctx.tmp)
        seen = set()
        nobs = 0
        for c, r in zip(cases, recs):
            o = r["obs"]
            burst_sig = {"concurrent": True, "multi": c["cfg"]["multi"], "slots": c["cfg"]["parallel"]}
            if not tag and not r.get("skipped"):
                ctx.note_case(strip(c), True, c["klass"])
                ctx.count("concurrent-requests", len(c["burst"]))
            viol = []
            if o is not None:
                nobs += 1
                if not tag and o.get("parked"):
                    ctx.count("concurrent-bursts-parked-in-slot-selection")
                viol = conc_monitor(c, o)
            elif r.get("died"):
                klass = "race" if "DATA RACE" in r["died"] else "runner-process-died"
                viol = [(dict(burst_sig, **{"class": klass}),
                         "the runner process died during a burst of %d concurrent requests on %d slots (%s policy): %s"
                         % (len(c["burst"]), c["cfg"]["parallel"], "multi-user" if c["cfg"]["multi"] else "single-user", r["died"]))]
            if r.get("race"):
                viol.append((dict(burst_sig, **{"class": "race"}), "the race detector reported a data race during the concurrent stage"))
            for sig, what in viol:
                if sig["class"] not in seen:
                    seen.add(sig["class"])
                    ctx.violation(sig, what, {"case": strip(c), "impl": o, "stderr": r.get("stderr") or r.get("race") or "", "seed": ctx.seed})
        ctx.obligation("concurrent stage%s: %d of %d bursts through the real completion handler observed" % (" (-race)" if tag else "", nobs, len(cases)), True)


# ------------------------------------------------------------------ the check

def strip(c):
    return {k: v for k, v in c.items() if k != "klass"}


def run_one(binp, c):
    p = subprocess.run([binp], input=json.dumps(strip(c)) + "\n", capture_output=True, text=True, timeout=120, env=vlib.goenv())
    for line in p.stdout.split("\n"):
        if line.startswith("{"):
            try:
                return json.loads(line)
            except ValueError:
                return None
    return None


def shrink(binp, c, klass, how=None):
    """delta-debug the operation list (and the drain) while the same class of violation is observed"""
    def fails(ops, drain=None):
        cc = dict(strip(c), ops=json.loads(json.dumps(ops)))
        if drain is not None:
            cc["drain"] = drain
        o = run_one(binp, cc)
        return o is not None and any(s["class"] == klass and (how is None or s.get("how") == how) for s, _ in monitor_case(cc, o))
    ops = c["ops"]
    if not fails(ops):
        return c
    # "cont" prompts are resolved by the harness at run time; freeze them first
    ops = vlib.ddmin(ops, lambda sub: fails(sub), max_tests=120)
    cc = dict(strip(c), ops=ops)
    for d in (0, 5, 10, 20):
        if d < cc.get("drain", 0) and fails(ops, d):
            cc["drain"] = d
            break
    return cc


def features(c, o):
    """signature of a (shrunk) failing history"""
    tr = o.get("trace", [])
    forked = any(e["t"] == "submit" and e["res"]["kind"] == "" and any(len(set(tuple(x) for x in e["cells"][i]) & set(tuple(x) for x in e["cells"][j])) > 0
                                                                       for i in range(len(e["cells"])) for j in range(i)) for e in tr)
    emptied = any(e["t"] == "step" and any(s["inuse"] and not s["inputs"] for s in e["state"]["slots"]) and
                  any(q is not None and len(q["inputs"]) > 1 for q in e["state"]["seqs"]) for e in tr)
    sig = {"after_failed_shift": emptied, "forked": forked, "can_shift": c["cfg"].get("shift", True)}
    if c["cfg"].get("encoder"):
        viol = monitor_case(c, o)
        hows = set(s.get("how") for s, _ in viol if s["class"] == "cross-attention-mismatch")
        sig.update({"encoder": True,
                    "multi_image": any(sum(1 for t in sl["inputs"] if t >= 1000) >= 2 for e in tr for sl in e["state"]["slots"]),
                    "cross_lost_only": hows == {"lost"}})
    win = max(c["cfg"].get("wrap") or [c["cfg"].get("window", 0)])
    if c["cfg"].get("wrap"):
        sig["wrapper"] = True
    if win > 0:
        nctx = o.get("numctx", 0)
        kept = any(min(len(e["prompt"] or []) if x.get("keep", 0) < 0 else x.get("keep", 0), nctx - 1) > 0
                   for e in tr if e["t"] == "submit" for x in [e.get("_op") or {}])
        shifted_ok = any(a["inuse"] and b["inuse"] and 0 < len(b["inputs"]) < len(a["inputs"])
                         for e, pe in zip(tr[1:], tr) if e["t"] == "step" for a, b in zip(pe["state"]["slots"], e["state"]["slots"]))
        viol = monitor_case(c, o)
        sig.update({"window": True, "multi_slot": c["cfg"]["parallel"] >= 2,
                    "swa_mid_shift": bool(kept and shifted_ok),
                    "cache_full": any("could not find a kv cache slot" in (e["res"].get("err") or "") for e in tr),
                    "cells_consistent": not any(s["class"] in ("slot-cache-mismatch", "window-incomplete", "foreign-history") for s, _ in viol)})
    return sig


def run(ctx):
    ctx.rule = ("cases: histories of 4-40 operations (submit a completion request / run one processBatch) over 1-3 slots, context 1-10, batch 1-8, "
                "keep -1..ctx+3, both slot policies, caches with/without shift function, partial erase, resume, sliding window 2..8, cache/mask paddings; prompts share "
                "prefixes, repeat exactly, continue an earlier conversation, diverge, exceed the context; generations overflow the context; stop sequences; "
                "cross-attention models (WrapperCache(EncoderCache, Causal), one slot): an image behind a prefix longer than a batch or behind a cached prefix, "
                "then slot reuse with prefixes ending before / at / after the image and context shifts; "
"wrappers of caches (sliding window + causal as gemma2/gemma3, two windows, causal first; windows 1,2,4,8; 1-3 slots): a long first "
                "request (runs past the shared prefix by more than the window), then requests sharing only the short prefix on the same or a forked slot; "
                "non-trivial = at least one Forward happened and a slot was reused, forked or shifted; distinct = by canonical JSON of the case")
    ctx.trusted = ["Coq 8.16.1 kernel + vm_compute", "hand-written model coq/Slots/Model.v tied to the code by this differential run only",
                   "harness/cmd/c07 (in-memory ml backend, scripted model, driver) and the add-only overlay exports c07.go in runner/ollamarunner, model, kvcache; "
                   "VerifSubmit copies the 12-line slot-assignment block of (*Server).completion",
                   "python generator and monitor (props/c07.py)"]
    ctx.assumptions = ["theorems: context size per slot >= 1 (NewInputCache refuses less); every other parameter, the network F and the history are universally quantified",
                       "theorems: text-only inputs; multimodal SameBatch groups (Slots/ModelMM.v) and the encoder cache of cross-attention models (Slots/Enc.v) are modelled, compared on every run and monitored, not proved",
                       "wrapper of caches (Slots/Wrap.v): slot = cache is proved per wrapped cache over histories (C07_wrapper_slot_matches_every_cache); that all components carry the same "
                       "slot records is compared on every run (chk_from_w), not proved; the log-level theorems (effective input, same as fresh) are not lifted to the product", "theorems over histories: no sliding window (window cfg = None); sliding-window caches are modelled, compared and monitored but not proved",
                       "requests are not cancelled mid-generation", "the network is any function of the history the cache exposes (harness: a hash; theorems: a Section variable)"]
    ctx.proof_stage(["Slots"], "Slots/Properties_C07.v", extra_targets=["Slots/Corr.v", "Slots/CorrMM.v", "Slots/Enc.v", "Slots/Wrap.v"])
    if not ctx.quick():
        ctx.coqchk(["V.Slots.Properties_C07"])
    binp = ctx.go_build("c07")
    if not binp:
        return
    pure_stage(ctx, binp)
    conc_stage(ctx, binp, None if ctx.quick() else ctx.go_build("c07", race=True))
    cases = gen_cases(ctx)
    obs, err = ctx.run_jsonl(binp, [strip(c) for c in cases], timeout=900)
    if obs is None or len(obs) != len(cases):
        ctx.obligation("harness c07 answered every case", False, err)
        ctx.proof_failures.append({"obligation": "correspondence: harness c07 did not answer every case", "detail": err})
        return
    # second pass: stop sequences cut out of the text a request is known to generate (so that they are hit, also across
    # token boundaries and inside two-letter tokens)
    derived = derive_stop_cases(ctx.rng, cases, obs, 60 if ctx.quick() else 1200)
    if derived:
        obs2, err = ctx.run_jsonl(binp, [strip(c) for c in derived], timeout=900)
        if obs2 is None or len(obs2) != len(derived):
            ctx.obligation("harness c07 answered every case", False, err)
            ctx.proof_failures.append({"obligation": "correspondence: harness c07 did not answer every derived case", "detail": err})
            return
        cases, obs = cases + derived, obs + obs2
    items, idx = [], []
    reported = set()
    known_tries = {}
    for c, o in zip(cases, obs):
        tr = o.get("trace", [])
        nfwd = sum(len(e["fwd"]) for e in tr)
        reuse = any(e["t"] == "submit" and e["res"]["kind"] == "" and len(e["state"]["slots"][e["state"]["seqs"][e["res"]["idx"]]["slot"]]["inputs"]) > 0 for e in tr)
        shifted = any(e["t"] == "step" and a is not None and b is not None and len(b["inputs"]) < len(a["inputs"]) and b["inuse"]
                      for e, pe in zip(tr[1:], tr) for a, b in zip(pe["state"]["slots"], e["state"]["slots"]))
        ctx.note_case(strip(c), nfwd > 0 and (reuse or shifted), c.get("klass"), sample={"case": strip(c), "trace_len": len(tr)})
        ctx.count("ops", len(tr))
        ctx.count("forwards", nfwd)
        if reuse:
            ctx.count("hist-with-prefix-reuse")
        if shifted:
            ctx.count("hist-with-shift")
        if c["cfg"].get("window", 0) > 0 and any(e["t"] == "submit" and e["res"]["kind"] == "" and
                                                 0 < len(e["state"]["slots"][e["state"]["seqs"][e["res"]["idx"]]["slot"]]["inputs"]) for e in tr):
            ctx.count("swa-hist-with-resume")
        if c["cfg"].get("window", 0) > 0 and any(e["t"] == "submit" and e["res"]["kind"] == "" and pe is not None and
                                                 len(pe["state"]["slots"][e["state"]["seqs"][e["res"]["idx"]]["slot"]]["inputs"]) > 0 and
                                                 len(e["state"]["slots"][e["state"]["seqs"][e["res"]["idx"]]["slot"]]["inputs"]) == 0
                                                 for e, pe in zip(tr, [None] + tr)):
            ctx.count("swa-hist-with-resume-refused")
        if c["cfg"].get("encoder"):
            if any(t >= 1000 and j != f["pos"][j] for e in tr for f in e["fwd"] for j, t in enumerate(f["toks"])):
                ctx.count("enc-hist-image-batch-index-differs-from-position")
            for e, pe in zip(tr[1:], tr):
                if e["t"] == "submit" and e["res"]["kind"] == "" and pe.get("enc"):
                    ctx.count("enc-reuse-image-kept" if e.get("enc") else "enc-reuse-image-dropped")
                if e["t"] == "step" and pe.get("enc") and shifted and any(len(b["inputs"]) < len(a["inputs"]) and b["inuse"]
                                                                            for a, b in zip(pe["state"]["slots"], e["state"]["slots"])):
                    ctx.count("enc-shift-image-moved" if e.get("enc") else "enc-shift-image-dropped")
        if c["cfg"].get("wrap"):
            for e, pe in zip(tr[1:], tr):
                if e["t"] == "submit" and e["res"]["kind"] == "":
                    sl = e["state"]["seqs"][e["res"]["idx"]]["slot"]
                    before = max(len(x["inputs"]) for x in pe["state"]["slots"])
                    kept = len(e["state"]["slots"][sl]["inputs"])
                    if before > 0:
                        ctx.count("wrap-reuse-resumed" if kept > 0 else "wrap-reuse-refused-or-no-prefix")
                    if pe["state"]["slots"][sl]["inputs"] == [] and kept > 0:
                        ctx.count("wrap-reuse-forked-slot")
        nstop = sum(1 for e in tr for rv in e["resp"].values() if rv.get("reason") == "stop")
        if nstop:
            ctx.count("requests-ended-by-stop-or-eos", nstop)
        if any(e["t"] == "step" and any((not b["inuse"]) and a["inuse"] and len(e["cells"][i]) > len(b["inputs"])
                                        for i, (a, b) in enumerate(zip(pe["state"]["slots"], e["state"]["slots"]))) for e, pe in zip(tr[1:], tr)):
            ctx.count("hist-with-stop-trim-below-cache")
        viol = monitor_case(c, o)
        for sig, what in viol:
            how = sig.get("how") if sig["class"] == "cross-attention-mismatch" else None
            # one report per class; a class whose reports so far all matched a known finding gets up to 3 more looks, so that
            # a known finding does not hide another cause of the same class
            rk = (sig["class"], how)
            if rk in reported or known_tries.get(rk, 0) >= 4:
                continue
            small = shrink(binp, c, sig["class"], how)
            so = run_one(binp, small) or o
            attach_ops(small, so)
            sv = [x for x in monitor_case(small, so) if x[0]["class"] == sig["class"] and (how is None or x[0].get("how") == how)] or [(sig, what)]
            fsig = dict(sv[0][0], **features(small, so))
            if vlib.match_known(ctx.known, fsig):
                known_tries[rk] = known_tries.get(rk, 0) + 1
            else:
                reported.add(rk)
            ctx.violation(fsig, sv[0][1], {"case": small, "impl": so, "all": [w for _, w in monitor_case(small, so)][:10]})
        if "init_err" in o or not tr:
            continue
        items.append(render(c, o))
        idx.append((c, o))
    bad, log = ctx.coq_eval(HEADER, items, per_file=12)
    if bad is None:
        ctx.obligation("correspondence: model evaluated on all cases", False, log)
        ctx.proof_failures.append({"obligation": "correspondence evaluation failed in coqc", "detail": log})
        return
    ctx.disagreements_checked += len(items)
    ctx.obligation("correspondence: model = implementation after every operation of %d histories" % len(items), not bad)
    for i in bad[:10]:
        c, o = idx[i]
        ctx.mismatch("Slots/Corr.chk_trace", strip(c), {"trace": [{k: v for k, v in e.items() if k != "_op"} for e in o["trace"]]},
                     ctx.coq_print(HEADER, model_term(c, o)) if len(ctx.mismatches) < 2 else None)


def replay(ctx, path):
    r = json.load(open(path))
    ctx.log("replaying", path)
    binp = ctx.go_build("c07")
    rp = r.get("replay", {})
    c = rp.get("case") if isinstance(rp, dict) else None
    if c and binp and c.get("op") == "conc":
        for _ in range(5):                                # the interleaving is forced but not fully deterministic
            r = run_bursts(binp, [c], ctx.tmp)[0]
            if r["obs"] is None:
                ctx.violation({"class": "runner-process-died", "concurrent": True}, "the runner process died: %s" % r.get("died"), {"case": c, "stderr": r.get("stderr")})
            else:
                for sig, what in conc_monitor(c, r["obs"]):
                    ctx.violation(sig, what, {"case": c, "impl": r["obs"]})
            if ctx.violations:
                break
        return
    if c and binp:
        o = run_one(binp, c)
        attach_ops(c, o or {})
        for sig, what in monitor_case(c, o or {}):
            ctx.violation(dict(sig, **features(c, o)), what, {"case": c, "impl": o})
        return
    run(ctx)


MANIFEST = {
    "property_id": "C07",
    "quick_cmd": "python3 check.py C07 --tier quick",
    "thorough_cmd": "python3 check.py C07 --tier thorough",
    "evidence_file": "evidence/C07.json",
    "replay_cmd_template": "python3 check.py C07 --replay {path}",
    "engine": "coq-model+go-differential",
    "level_claimed": {
        "category": "proof",
        "text": "Coq theorems over an executable model of the runner's input cache and batching loop (any history of requests and batches, any number of slots, "
                "context/batch size, keep count, both slot policies, caches with or without shift / partial erase): the recorded inputs of a slot equal the cache "
                "contents, a slot in use is never handed out, the model attends to exactly the effective input, and generated tokens equal those of a fresh runner. "
                "The hand-written model is tied to the real ollamarunner.Server + kvcache.Causal by replaying every generated history on both and comparing every "
                "operation's result and the full projected state inside Coq (vm_compute); the property is also monitored directly on the implementation.",
        "design_ref": "DESIGN.md section 5, C07",
    },
    "level_note": "Trusted: Coq kernel/vm_compute; the model-to-code tie is differential testing (generator-bounded); text-only inputs, theorems without sliding window (window caches tied and monitored only), "
                  "no mid-generation cancellation; llamarunner's copy is tied on its pure parts only.",
    "technique": "Coq proof (invariants by induction over the operation history, simulation by a single-sequence reference) + model/implementation differential check",
}
